#!/bin/bash
# Run the defect reproductions against a scratch copy of a repo tree.
# usage: findings/run_repro.sh [repo-dir]   (default /repo)   -> prints test results
set -u
SRC=${1:-/repo}
W=$(mktemp -d /tmp/verif-repro.XXXXXX)
trap 'rm -rf "$W"' EXIT
rsync -a --exclude target --exclude .git "$SRC"/ "$W"/
python3 - "$W/src/lib.rs" /verif/findings/repro_tests.rs <<'PY'
import sys
p,add=sys.argv[1],sys.argv[2]
s=open(p).read().rstrip()
assert s.endswith('}')
s=s[:-1]+open(add).read()+"\n}\n"
open(p,'w').write(s)
PY
cd "$W" && CARGO_NET_OFFLINE=true cargo test --offline --lib verif_d 2>&1 | grep -E "^test |test result|error" 

// Reproductions of the genuine defects D1..D5 found by the static rules.
// Usage: append this file's contents *inside* `mod tests { .. }` of a scratch
// copy of /repo/src/lib.rs (see findings/run_repro.sh). Each test FAILS on the
// pinned (pre-fix) tree and PASSES once the corresponding `fix:` commit is in.

    #[test]
    fn verif_d1_set_config_then_send_does_not_panic() {
        let mut foca = Foca::new(ID::new(1), config(), rng(), codec());
        let mut c = config();
        c.max_packet_size = NonZeroUsize::new(500).unwrap();
        assert_eq!(Ok(()), foca.set_config(c));
        let mut runtime = AccumulatingRuntime::new();
        // debug_assert_eq!(send_buf.capacity(), max_packet_size) fired here
        assert_eq!(Ok(()), foca.announce(ID::new(2), &mut runtime));
        let mut c = config();
        c.max_packet_size = NonZeroUsize::new(5000).unwrap();
        assert_eq!(Ok(()), foca.set_config(c));
        assert_eq!(Ok(()), foca.announce(ID::new(2), &mut runtime));
    }

    #[test]
    fn verif_d2_refuted_suspicion_timeout_sends_nothing() {
        let mut c = config();
        c.notify_down_members = true;
        let mut foca = Foca::new(ID::new(1), c, rng(), codec());
        let mut runtime = AccumulatingRuntime::new();
        let two = ID::new(2);
        assert_eq!(Ok(()), foca.apply(Member::suspect(two), &mut runtime));
        // member 2 refutes with a higher incarnation
        assert_eq!(
            Ok(()),
            foca.apply(Member::new(two, 1, State::Alive), &mut runtime)
        );
        runtime.clear();
        // the stale suspicion timeout (snapshot incarnation 0) fires
        let token = foca.timer_token();
        assert_eq!(
            Ok(()),
            foca.handle_timer(
                Timer::ChangeSuspectToDown {
                    member_id: two,
                    incarnation: 0,
                    token
                },
                &mut runtime
            )
        );
        assert_eq!(1, foca.num_members(), "member 2 is still active");
        assert!(
            runtime.is_empty(),
            "a cancelled timeout must have no effect at all (no datagram)"
        );
    }

    #[test]
    fn verif_d3_turnundead_does_not_bounce_between_down_members() {
        let mut c = config();
        c.notify_down_members = true;
        // two NON-renewable instances that consider each other Down
        let (one, two) = (ID::new(1), ID::new(2));
        let mut f1 = Foca::new(one, c.clone(), rng(), codec());
        let mut f2 = Foca::new(two, c, rng(), codec());
        let mut r1 = AccumulatingRuntime::new();
        let mut r2 = AccumulatingRuntime::new();
        assert_eq!(Ok(()), f1.apply(Member::down(two), &mut r1));
        assert_eq!(Ok(()), f2.apply(Member::down(one), &mut r2));
        r1.clear();
        r2.clear();
        assert_eq!(Ok(()), f1.announce(two, &mut r1));
        let mut deliveries = 0;
        loop {
            let mut progressed = false;
            while let Some((dst, data)) = r1.to_send() {
                assert_eq!(dst, two);
                let _ = f2.handle_data(&data, &mut r2);
                deliveries += 1;
                progressed = true;
            }
            while let Some((dst, data)) = r2.to_send() {
                assert_eq!(dst, one);
                let _ = f1.handle_data(&data, &mut r1);
                deliveries += 1;
                progressed = true;
            }
            if !progressed {
                break;
            }
            assert!(deliveries < 50, "TurnUndead storm: {deliveries} deliveries");
        }
    }

    #[test]
    fn verif_d4_announce_to_down_never_targets_own_address() {
        let mut c = config();
        c.periodic_announce_to_down_members = Some(config::PeriodicParams {
            frequency: Duration::from_secs(1),
            num_members: NonZeroUsize::new(3).unwrap(),
        });
        let me = ID::new_with_bump(1, 1);
        let mut foca = Foca::new(me, c, rng(), codec());
        let mut runtime = AccumulatingRuntime::new();
        // learn about a former identity of our own address and one live member
        assert_eq!(
            Ok(()),
            foca.apply(Member::alive(ID::new_with_bump(1, 0)), &mut runtime)
        );
        assert_eq!(Ok(()), foca.apply(Member::alive(ID::new(2)), &mut runtime));
        runtime.clear();
        let token = foca.timer_token();
        assert_eq!(
            Ok(()),
            foca.handle_timer(Timer::PeriodicAnnounceDown(token), &mut runtime)
        );
        while let Some((dst, _data)) = runtime.to_send() {
            assert_ne!(dst.addr(), me.addr(), "datagram sent to own address");
        }
    }

    #[test]
    fn verif_d5_oversized_broadcast_item_is_rejected() {
        // a handler that accepts everything
        struct AcceptAll;
        struct K;
        impl Invalidates for K {
            fn invalidates(&self, _other: &Self) -> bool {
                false
            }
        }
        impl BroadcastHandler<ID> for AcceptAll {
            type Key = K;
            type Error = BroadcastsDisabledError;
            fn receive_item(
                &mut self,
                _data: &[u8],
                _sender: Option<&ID>,
            ) -> core::result::Result<Option<K>, Self::Error> {
                Ok(Some(K))
            }
        }
        let mut c = config();
        c.max_packet_size = NonZeroUsize::new(200_000).unwrap();
        let mut foca = Foca::with_custom_broadcast(ID::new(1), c, rng(), codec(), AcceptAll);
        let mut runtime = AccumulatingRuntime::new();
        assert_eq!(Ok(()), foca.apply(Member::alive(ID::new(2)), &mut runtime));
        runtime.clear();
        let big = vec![7u8; 70_000];
        // either rejected up-front ...
        if foca.add_broadcast(&big).is_ok() {
            // ... or framed correctly; pre-fix this panics (debug) or truncates the
            // 16-bit length prefix (release)
            assert_eq!(Ok(()), foca.gossip(&mut runtime));
            let (_dst, data) = runtime.to_send().expect("gossip datagram");
            let mut f2 = Foca::with_custom_broadcast(
                ID::new(2),
                {
                    let mut c = config();
                    c.max_packet_size = NonZeroUsize::new(200_000).unwrap();
                    c
                },
                rng(),
                codec(),
                AcceptAll,
            );
            assert_eq!(Ok(()), f2.handle_data(&data, &mut runtime));
        }
    }

"""C16 - custom broadcasts: delivered intact, only where allowed, invalidated promptly."""
from .lib import query as q
from .lib.budget import buffer_id
from .lib.effects import Effects
from .lib.symx import show
from . import c07, c15

CB = q.self_field('custom_broadcasts')
HANDLER = q.self_field('broadcast_handler')


def slice_source(p, v):
    """Normalise a slice value to what it was cut from: ('param', n) | ('index', base, end) | None"""
    calls = {c['id']: c for c in p.calls()}
    if v[0] == 'param':
        return ('param', v[2])
    if v[0] == 'ref' and v[1][0] == 'deref':
        inner = v[1][1]
        if inner[0] == 'param':
            return ('param', inner[2])
        if inner[0] == 'call' and inner[1] in calls:
            c = calls[inner[1]]
            if c['res'].endswith('Index for [T]>::index'):
                return ('index', c['id'])
    if v[0] == 'load' and v[1][0] == 'deref' and v[1][1][0] == 'call':
        return slice_source(p, ('ref', v[1], False))
    return None


def accepted_key(f, p, i, recv_id, key):
    """`key` is the `Some` payload of the `Ok` payload of receive_item #recv_id - however the Result/Option were
    unwrapped (`.map_err(..)?` + `if let Some(key)`, or one `match` with Ok(Some(key)) / Ok(None) / Err arms)."""
    opt = q.some_payload(p, key)
    return opt is not None and q.ok_payload_of(p, opt) == recv_id


def r1_acceptance(ctx, f, rep):
    rep.rule('C16-R1', 'custom_broadcasts.add_or_replace is called at 2 sites, each guarded by receive_item(..) = Ok(Some(key)), '
                       'storing that key and a copy of exactly the bytes that were shown to the handler; add_broadcast refuses '
                       'empty and oversize input (packet size and u16::MAX) before the handler is called')
    found = {}
    for fn in ('Foca::add_broadcast', 'Foca::handle_custom_broadcasts'):
        b = f.fn(fn)
        for p in ctx.paths(f, b, 'none'):
            calls = {c['id']: c for c in p.calls()}
            for i, e in enumerate(p.events):
                if e['kind'] == 'call' and e['res'] == 'broadcast::Broadcasts::add_or_replace' and e['args'][0] == ('ref', CB, True):
                    ri = [c for c in p.events[:i] if c['kind'] == 'call' and c['decl'] == 'broadcast::BroadcastHandler::receive_item']
                    good = bool(ri)
                    if good:
                        r = ri[-1]
                        good = accepted_key(f, p, i, r['id'], e['args'][1])
                        data = e['args'][2]
                        good = good and data[0] == 'call' and calls[data[1]]['res'] == 'alloc::slice::<impl [T]>::to_vec'
                        if good:
                            stored = slice_source(p, calls[data[1]]['args'][0])
                            shown = slice_source(p, r['args'][1])
                            good = stored is not None and stored == shown
                        good = good and r['args'][0] == ('ref', HANDLER, True)
                    found.setdefault(fn, []).append(good)
                    rep.check(good, 'C16-R1', fn, 'backlog gets (key returned by the handler, copy of the very slice it was shown)',
                              site=e['span'], construct='accept')
    for fn in ('Foca::add_broadcast', 'Foca::handle_custom_broadcasts'):
        rep.floor('C16-R1', len(found.get(fn, [])), 1, 'acceptance site in ' + fn)
    # the other direction: an item the handler accepted (receive_item = Ok(Some(key))) is always put in the backlog -
    # before the next item is looked at and before the function returns, whatever else is the case
    nacc = 0
    for fn in ('Foca::add_broadcast', 'Foca::handle_custom_broadcasts'):
        b = f.fn(fn)
        for p in ctx.paths(f, b, 'none'):
            if p.end != 'return':
                continue
            evs = p.events
            ris = [i for i, e in enumerate(evs) if e['kind'] == 'call' and e['decl'] == 'broadcast::BroadcastHandler::receive_item']
            for k, i in enumerate(ris):
                end = ris[k + 1] if k + 1 < len(ris) else len(evs)
                rid = evs[i]['id']
                accepted = False
                for c in evs[i + 1:end]:
                    if c['kind'] == 'cond' and c['expr'][0] == 'discr' and q.cond_variants(f, c) == {'Some'} and \
                            q.ok_payload_of(p, c['expr'][1]) == rid:
                        accepted = True
                if not accepted:
                    continue
                nacc += 1
                put = [e for e in evs[i + 1:end] if e['kind'] == 'call' and e['res'] == 'broadcast::Broadcasts::add_or_replace'
                       and e['args'][0] == ('ref', CB, True)]
                rep.check(len(put) == 1, 'C16-R1', fn, 'an item the handler accepted is always queued (once)', site=evs[i]['span'],
                          construct='accepted-is-queued')
    rep.floor('C16-R1', nacc, 2, 'accepted items on returning paths')
    sites = sorted({c[0].nname for c in f.callers_of(lambda x: x == 'broadcast::BroadcastHandler::receive_item')})
    rep.check(sites == ['Foca::add_broadcast', 'Foca::handle_custom_broadcasts'], 'C16-R1', 'BroadcastHandler::receive_item',
              'the handler is fed from exactly these two functions', construct='receive_item-callers', facts={'callers': sites})
    # add_broadcast validation precedes the handler
    b = f.fn('Foca::add_broadcast')
    n = 0
    for p in ctx.paths(f, b, 'none'):
        calls = {c['id']: c for c in p.calls()}
        for i, e in enumerate(p.events):
            if e['kind'] == 'call' and e['decl'] == 'broadcast::BroadcastHandler::receive_item':
                n += 1
                nonempty = fits_pkt = fits_u16 = False
                for c in q.conds_before(p, i):
                    ex = c['expr']
                    if ex[0] == 'call' and calls[ex[1]]['res'].endswith('is_empty') and q.cond_truth(c) is False:
                        nonempty = True
                    # `len <= bound` established, however the comparison is spelled (`!(len > b)`, `len <= b`, `b >= len`)
                    is_len = lambda v: v[0] == 'call' and v[1] in calls and calls[v[1]]['res'].endswith('::len')
                    nrm = q.cmp_norm(c)
                    if nrm and nrm[0] == 'ge' and is_len(nrm[2]):
                        for bound in q.min_operands(p, nrm[1]):     # `len <= a`, or `len <= min(a, b)` for both at once
                            if q.loads_self_field(bound, 'config', 'max_packet_size'):
                                fits_pkt = True
                            pr = q.peel(bound)
                            if pr[0] == 'const' and pr[2] is not None and pr[2] <= 65535:
                                fits_u16 = True
                rep.check(nonempty and fits_pkt and fits_u16 and e['args'][1] == ('param', 0, 2) and
                          q.is_variant(e['args'][2], 'Option', 'None') or
                          (nonempty and fits_pkt and fits_u16 and e['args'][2][0] == 'agg' and e['args'][2][3] == 'None'),
                          'C16-R1', b.nname, 'the handler sees local data only after the empty / max_packet_size / u16::MAX '
                          'checks, with sender None', site=e['span'], construct='add_broadcast-validation',
                          facts={'nonempty': nonempty, 'fits_packet': fits_pkt, 'fits_u16': fits_u16})
                break
        if n:
            break
    rep.floor('C16-R1', n, 1, 'receive_item call in add_broadcast')


def r2_receive_loop(ctx, f, rep):
    rep.rule('C16-R2', 'handle_custom_broadcasts, per iteration: pkt_len = get_u16(); rejected if 0 or larger than what is '
                       'left; the handler gets &data[..pkt_len] and the sender parameter; advance(pkt_len) follows the handler '
                       'call on the normal path (each item seen exactly once); trailing bytes are rejected; the only call '
                       'site passes Some(&src)')
    b = f.fn('Foca::handle_custom_broadcasts')
    n = 0
    for p in ctx.paths(f, b, 'none'):
        calls = {c['id']: c for c in p.calls()}
        evs = p.events
        for i, e in enumerate(evs):
            if e['kind'] != 'call' or e['decl'] != 'broadcast::BroadcastHandler::receive_item':
                continue
            n += 1
            sl = e['args'][1]
            src = slice_source(p, sl)
            good = src is not None and src[0] == 'index'
            if good:
                ix = calls[src[1]]
                end = q.agg_field(ix['args'][1], 'end') if ix['args'][1][0] == 'agg' and ix['args'][1][2].endswith('RangeTo') else None
                lenv = end
                while lenv is not None and lenv[0] == 'cast':
                    lenv = lenv[2]
                good = lenv is not None and lenv[0] == 'call' and calls[lenv[1]]['decl'] == 'bytes::Buf::get_u16' and \
                    buffer_id(ix['args'][0]) == buffer_id(calls[lenv[1]]['args'][0])
                # guards: != 0 and <= remaining
                nz = big = False
                gi = [k for k, x in enumerate(evs) if x['kind'] == 'call' and x.get('id') == lenv[1]][0] if good else 0
                for c in [x for x in evs[gi:i] if x['kind'] == 'cond']:
                    # `len != 0` and `len <= what is left`, in any spelling and orientation
                    if q.zero_test(c, lambda v: v == end) == 'pos':
                        nz = True
                    nrm = q.cmp_norm(c)
                    if nrm and nrm[0] == 'ge' and nrm[2] == end and nrm[1][0] == 'call' and nrm[1][1] in calls and \
                            calls[nrm[1][1]]['res'].endswith('::len'):
                        big = True
                good = good and nz and big and e['args'][2] == ('param', 0, 3)
                # advance(pkt_len) after the handler on the normal path
                okmap = q.try_ok_of(p, len(evs))
                adv = [x for x in evs[i:] if x['kind'] == 'call' and x['res'] == '<&[u8] as bytes::Buf>::advance']
                nxt = [k for k, x in enumerate(evs) if k > i and x['kind'] == 'call' and x['decl'] == 'bytes::Buf::get_u16']
                seg_end = nxt[0] if nxt else len(evs)
                adv_here = [x for x in evs[i:seg_end] if x['kind'] == 'call' and x['res'] == '<&[u8] as bytes::Buf>::advance']
                if not q.path_is_error_propagation(p) or nxt:
                    if seg_end < len(evs) or p.end == 'return':
                        good = good and len(adv_here) == 1 and adv_here[0]['args'][1] == end and \
                            buffer_id(adv_here[0]['args'][0]) == buffer_id(ix['args'][0])
            rep.check(good, 'C16-R2', b.nname, 'item = &data[..get_u16()], 0 < len <= remaining, shown to the handler with the '
                      'sender, then skipped exactly once', site=e['span'], construct='receive-iteration')
        if p.end == 'return' and p.ret[0] == 'agg' and p.ret[3] == 'Ok' and not q.path_is_error_propagation(p):
            hr = [c for c in p.conds() if q.norm_bool(c)[0][0] == 'call' and q.norm_bool(c)[0][1] in calls and
                  calls[q.norm_bool(c)[0][1]]['decl'].endswith('has_remaining')]
            rep.check(bool(hr) and q.norm_bool(hr[-1])[1] is False or not p.calls() or
                      all(c['res'].endswith('is_empty') for c in p.calls()[:1]) and len(p.calls()) == 1, 'C16-R2', b.nname,
                      'Ok(()) only when nothing is left over', construct='no-trailing-bytes')
    rep.floor('C16-R2', n, 4, 'receive_item occurrences in the loop')
    cs = f.callers_of(lambda x: x == 'Foca::handle_custom_broadcasts')
    names = sorted({c[0].nname for c in cs})
    rep.check(names == ['Foca::handle_data'], 'C16-R2', b.nname, 'called only from handle_data', construct='callers')
    hd = f.fn('Foca::handle_data')
    n = 0
    for p in ctx.paths(f, hd, 'none'):
        for e in p.calls():
            if e['res'] == 'Foca::handle_custom_broadcasts':
                n += 1
                s = e['args'][2]
                good = s[0] == 'agg' and s[3] == 'Some' and s[5][0][0] == 'ref'
                if good:
                    v = e['argvals'][2][5][0]
                    good = v[0] == 'fieldv' and v[2] == 'src'
                rep.check(good, 'C16-R2', hd.nname, 'the handler is told the sender: Some(&header.src)', site=e['span'],
                          construct='sender-arg')
                break
        if n:
            break
    rep.floor('C16-R2', n, 1, 'handle_custom_broadcasts call')
    # every datagram accepted from an active sender has its custom section shown to the handler - whatever the updates it
    # carried did to our own connection state
    n = 0
    for p in ctx.paths(f, hd, 'none'):
        if p.end != 'return':
            continue
        am = [i for i, e in enumerate(p.events) if e['kind'] == 'call' and e['res'] == 'Foca::apply_many']
        if not am:
            continue
        okmap = q.try_ok_of(p, len(p.events))
        if okmap.get(p.events[am[0]]['id']) != 'ok':
            continue
        n += 1
        hc_ = [i for i, e in enumerate(p.events) if e['kind'] == 'call' and e['res'] == 'Foca::handle_custom_broadcasts']
        rep.check(len(hc_) == 1 and hc_[0] > am[0], 'C16-R2', hd.nname, 'after the updates were applied the custom section is '
                  'always handed to handle_custom_broadcasts (exactly once), also when the instance just stopped being '
                  'connected', construct='custom-section-always-handled')
    rep.floor('C16-R2', n, 10, 'handle_data paths past apply_many')


def r3_gating(ctx, f, rep):
    rep.rule('C16-R3', 'custom items are attached only in send_message under allow_custom_broadcasts() && '
                       'should_add_broadcast_data(&dst) (kinds: everything but Announce and TurnUndead); accounting and '
                       'invalidation are those of C15-R2 (length-prefixed sibling) and C15-R1 with the handler\'s key')
    cs = sorted({c[0].nname for c in f.callers_of(lambda x: x == 'broadcast::Broadcasts::fill_with_len_prefix')})
    rep.check(cs == ['Foca::send_message'], 'C16-R3', 'broadcast::Broadcasts::fill_with_len_prefix', 'single caller',
              construct='callers', facts={'callers': cs})
    tabs = c07.tables(ctx, f, c15._Quiet(rep, 'C16'))
    ac = tabs.get('payload::Message::allow_custom_broadcasts')
    if ac:
        rep.check({k for k, v in ac.items() if not v} == {'Announce', 'TurnUndead'}, 'C16-R3', 'payload::Message',
                  'custom items may ride on every kind except Announce and TurnUndead', construct='allowed-kinds')
    b = f.fn('Foca::send_message')
    n = 0
    for p in ctx.paths(f, b, 'none'):
        for i, e in enumerate(p.events):
            if e['kind'] == 'call' and e['res'] == 'broadcast::Broadcasts::fill_with_len_prefix':
                n += 1
                g = c07.pred_conds(p, i, b)
                rep.check(g.get('allow_custom_broadcasts') is True and g.get('should_add_broadcast_data') is True and
                          g.get('should_add_broadcast_data#arg') == ('ref', ('local', 0, 2), False) and
                          e['args'][0] == ('ref', CB, True), 'C16-R3', b.nname, 'attachment gate', site=e['span'],
                          construct='gate')
    rep.floor('C16-R3', n, 1, 'fill_with_len_prefix occurrences')
    # the other direction: a datagram that is sent without the backlog having been offered must say why - no room at
    # all, a kind that does not carry custom items, or the handler's veto; nothing else (a minimum of free bytes, a
    # member count) may keep pending items off a datagram they would fit into
    nsk = 0
    for p in ctx.paths(f, b, 'none'):
        if p.end != 'return' or q.path_is_error_propagation(p):
            continue
        sends = [i for i, e in enumerate(p.events) if e['kind'] == 'call' and e['decl'] == 'runtime::Runtime::send_to']
        if not sends or any(e['res'] == 'broadcast::Broadcasts::fill_with_len_prefix' for e in p.calls()):
            continue
        nsk += 1
        calls = {c['id']: c for c in p.calls()}
        g = c07.pred_conds(p, sends[0], b)
        norm = g.get('has_remaining_mut') is False
        for c in q.conds_before(p, sends[0]):
            z = q.zero_test(c, lambda v: v[0] == 'call' and v[1] in calls and calls[v[1]]['decl'] == 'bytes::BufMut::remaining_mut'
                            and c07.touches_packet(p, calls[v[1]], mutably=False))
            if z == 'zero':
                norm = True
        rep.check(norm or g.get('allow_custom_broadcasts') is False or g.get('should_add_broadcast_data') is False,
                  'C16-R3', b.nname, 'the backlog is not offered only for: no byte left, a kind without custom items, the '
                  'handler\'s veto', construct='skip-justified',
                  facts={k: v for k, v in g.items() if not k.endswith('#arg')})
    rep.floor('C16-R3', nsk, 2, 'send_message paths that send without offering the custom backlog')
    c15.r2_accounting(ctx, f, _Rel(rep, 'C15-R2', 'C16-R3'))
    c15.r1_add_or_replace(ctx, f, _Rel(rep, 'C15-R1', 'C16-R3'), Effects(f))


class _Rel:
    def __init__(self, rep, old, new):
        self._rep, self._old, self._new = rep, old, new

    def _r(self, r):
        return self._new if r == self._old else r

    def rule(self, rid, text):
        pass

    def ok(self, rule, *a, **k):
        self._rep.ok(self._r(rule), *a, **k)

    def violation(self, rule, *a, **k):
        self._rep.violation(self._r(rule), *a, **k)

    def check(self, cond, rule, *a, **k):
        return self._rep.check(cond, self._r(rule), *a, **k)

    def floor(self, rule, *a, **k):
        self._rep.floor(self._r(rule), *a, **k)

    def __getattr__(self, n):
        return getattr(self._rep, n)


def backlog_empty(p, calls, c):
    """What a cond established about the custom-broadcast backlog: True (empty) / False (non-empty) / None.  Accepts
    `custom_broadcast_backlog() == 0`, `custom_broadcasts.len() == 0`, `custom_broadcasts.is_empty()` in any spelling."""
    is_backlog = lambda v: v[0] == 'call' and v[1] in calls and (
        calls[v[1]]['res'] == 'Foca::custom_broadcast_backlog' or
        (calls[v[1]]['res'] == 'broadcast::Broadcasts::len' and calls[v[1]]['args'][0] == ('ref', CB, False)))
    z = q.zero_test(c, is_backlog)
    if z:
        return z == 'zero'
    e0, t0 = q.norm_bool(c)
    if e0[0] == 'call' and e0[1] in calls and calls[e0[1]]['res'] == 'broadcast::Broadcasts::is_empty' and \
            calls[e0[1]]['args'][0] == ('ref', CB, False) and t0 is not None:
        return t0
    return None


def r4_broadcast(ctx, f, rep):
    rep.rule('C16-R4', 'broadcast() returns before touching rng, choice_buf or the runtime when the backlog is empty; targets '
                       'come from choose_active_members(num_indirect_probes, handler.should_add_broadcast_data); only '
                       'Message::Broadcast is sent; after each send the loop stops as soon as the backlog is empty')
    b = f.fn('Foca::broadcast')
    n = 0
    for p in ctx.paths(f, b, 'none'):
        calls = {c['id']: c for c in p.calls()}
        evs = p.events
        first = [c for c in p.conds()][:1]
        empty = None
        if first:
            empty = backlog_empty(p, calls, first[0])
        if empty is True:
            n += 1
            rep.check(len(p.calls()) == 1 and not p.writes() and p.ret[0] == 'agg' and p.ret[3] == 'Ok', 'C16-R4', b.nname,
                      'empty backlog: Ok(()) with no other effect', construct='empty-backlog')
            continue
        if empty is None:
            rep.violation('C16-R4', b.nname, 'no-backlog-test', 'broadcast() does not start by testing the backlog')
            continue
        sends = [(i, e) for i, e in enumerate(evs) if e['kind'] == 'call' and e['res'] == 'Foca::send_message']
        pick = [e for e in p.calls() if e['res'] == 'member::Members::choose_active_members']
        n += 1
        good = len(pick) == 1
        if good:
            w = pick[0]['args'][1]
            good = w[0] == 'unop' and q.loads_self_field(w, 'config', 'num_indirect_probes')
            clo = pick[0]['args'][4]
            good = good and clo[0] == 'agg' and clo[1] == 'closure' and clo[5] == (('ref', HANDLER, False),)
            if good:
                cb = f.fn(clo[2])
                cps = ctx.paths(f, cb, 'none')
                good = len(cps) == 1 and cps[0].ret[0] == 'call'
                if good:
                    cc = {c['id']: c for c in cps[0].calls()}[cps[0].ret[1]]
                    good = cc['decl'] == 'broadcast::BroadcastHandler::should_add_broadcast_data' and cc['args'][1] in (('param', 0, 2), ('ref', ('deref', ('param', 0, 2)), False))
        rep.check(good, 'C16-R4', b.nname, 'targets = choose_active_members(num_indirect_probes, |m| handler.should_add_'
                  'broadcast_data(m))', construct='targets')
        if pick:
            # ... into a cleared scratch buffer: left-overs of an earlier, interrupted pop loop would be contacted too
            # (more than num_indirect_probes recipients, members that have since gone Down or that the handler rejects)
            pi = [k for k, x in enumerate(evs) if x is pick[0]][0]
            dest = pick[0]['args'][2]
            cl = [k for k, x in enumerate(evs[:pi]) if x['kind'] == 'call' and x['res'] == 'alloc::vec::Vec::clear' and x['args'][0] == dest]
            dirty = [k for k, x in enumerate(evs[:pi]) if x['kind'] == 'call' and x['res'] != 'alloc::vec::Vec::clear' and
                     any(a == dest or a == ('ref', q.SELF, True) for a in x['args'])]
            rep.check(bool(cl) and not (dirty and dirty[-1] > cl[-1]), 'C16-R4', b.nname, 'the targets are chosen into a buffer '
                      'cleared just before', site=pick[0]['span'], construct='targets-buffer-cleared')
        for i, e in sends:
            rep.check(q.is_variant(e['args'][2], 'Message', 'Broadcast'), 'C16-R4', b.nname, 'only Broadcast datagrams',
                      site=e['span'], construct='kind')
            # after a successful send the backlog is tested before the next pop
            nxt_pop = [k for k in range(i + 1, len(evs)) if evs[k]['kind'] == 'call' and evs[k]['res'] == 'alloc::vec::Vec::pop']
            if nxt_pop:
                seg = evs[i + 1:nxt_pop[0]]
                t = [x for x in (backlog_empty(p, calls, c) for c in seg if c['kind'] == 'cond') if x is not None]
                rep.check(len(t) == 1 and t[0] is False, 'C16-R4', b.nname, 'another member is tried only while '
                          'the backlog is still non-empty', site=e['span'], construct='stop-when-drained')
    rep.floor('C16-R4', n, 4, 'broadcast() paths')


def check(ctx):
    rep = ctx.report
    rep.explanation = (
        'Static decision of: what enters the custom backlog and that it is byte-for-byte what the handler was shown, with '
        'validation before the handler (R1); the receive loop: framing, bounds, sender, each item consumed exactly once, '
        'trailing bytes rejected (R2); attachment gate and per-transmission accounting/invalidation (R3, re-running the '
        'C15 rules on the length-prefixed sibling); control flow of broadcast() (R4). Handler-specific invalidation '
        'relations are user code.')
    rep.not_decided = ['handler-specific invalidation relations and recipient predicates (user code)']
    rep.assumptions = ['BroadcastHandler::receive_item does not retain the slice beyond the call (it cannot: it is borrowed)']
    for cfgname in ctx.configs(quick=('base',), thorough=('base', 'wire', 'nostd')):
        f = ctx.facts(cfgname)
        rep.cur_config = cfgname
        from . import common as _cm
        _cm.check_helpers(ctx, f, rep, 'C16-R0', {'choose_members', 'backlog'})
        _cm.check_state_fields(f, rep, 'C16-R0', ('custom_broadcasts',))
        r1_acceptance(ctx, f, rep)
        r2_receive_loop(ctx, f, rep)
        r3_gating(ctx, f, rep)
        # what is attached must be readable as custom items by the peer: the member count always precedes them
        from . import c07 as _c07
        _c07.count_always_present(ctx, f, rep, 'C16-R3')
        # ... the datagram they ride in starts empty on every path, and nothing but the section writers touches it (the
        # items of the one datagram sent after a failed header encode were unreadable in S195): C07-R3, and the count that
        # precedes them is patched in place on every path (C07-R4)
        _c07.r3_sections(ctx, f, _Rel(rep, 'C07-R3', 'C16-R3'), _c07.tables(ctx, f, c15._Quiet(rep, 'C16')))
        _c07.r4_count(ctx, f, _Rel(rep, 'C07-R4', 'C16-R3'))
        r4_broadcast(ctx, f, rep)
        # what "choose_active_members(n, picker)" means: n members drawn among those that are active AND pass the picker
        # (sampling first and filtering afterwards wastes slots on ineligible members): C07-R6
        c07.r6_feed(ctx, f, _Rel(rep, 'C07-R6', 'C16-R4'))
    rep.cur_config = None

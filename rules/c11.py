"""C11 - suspicion timeout takes effect iff unrefuted; Down is final until forgotten."""
from .lib import query as q
from . import common as _cmn
from .lib.effects import Effects
from .lib.symx import show
from . import c01, c08, c09

EVENT = ('param', 0, 2)


def tf(name):
    return ('fieldv', EVENT, name, 'ChangeSuspectToDown')


def arm_paths(ctx, f, inline='ctor'):
    b = f.fn('Foca::handle_timer')
    out = []
    for p in ctx.paths(f, b, inline):
        cs = p.conds()
        if cs and cs[0]['expr'] == ('discr', EVENT, 'runtime::Timer') and q.cond_variants(f, cs[0]) == {'ChangeSuspectToDown'}:
            out.append(p)
    return b, out


def is_effect(e):
    if e['kind'] == 'write':
        return True
    if e['kind'] != 'call':
        return False
    if e['decl'].startswith('runtime::Runtime::'):
        return True
    return any(a[0] == 'ref' and a[2] for a in e['args'])


def r1_guards(ctx, f, rep):
    rep.rule('C11-R1', 'in the ChangeSuspectToDown arm every effect is guarded by self.timer_token == token, and with a current '
                       'token the update is always attempted; the record is '
                       'touched only through apply_existing_if with the condition `member.incarnation() == incarnation` '
                       '(the timer\'s snapshot) and the applied value is Member(member_id, incarnation, Down) from the same '
                       'timer fields')
    b, paths = arm_paths(ctx, f)
    rep.floor('C11-R1', len(paths), 5, 'paths through the ChangeSuspectToDown arm')
    n = 0
    for p in paths:
        tok = None
        for i, e in enumerate(p.events):
            if e['kind'] == 'cond':
                es = q.eq_sides(e['expr'])
                if es and {es[1], es[2]} == {('load', q.self_field('timer_token'), 0), tf('token')}:
                    tok = (q.cond_truth(e) == es[0])
            if is_effect(e):
                n += 1
                rep.check(tok is True, 'C11-R1', b.nname, 'effect %s happens only for the current epoch'
                          % (e.get('res') or e.get('decl') or 'write'), site=e['span'], construct='epoch-guard')
        if tok is False:
            rep.check(not any(is_effect(e) for e in p.events) and p.ret[0] == 'agg' and p.ret[3] == 'Ok', 'C11-R1', b.nname,
                      'a stale-epoch timeout returns Ok(()) without any effect', construct='stale-epoch')
        if tok is True and p.end == 'return':
            # the other direction: with a current token nothing but the record itself (the condition handed to
            # apply_existing_if) can call the timeout off - no extra guard in front of the attempt
            rep.check(any(e['res'] == 'member::Members::apply_existing_if' for e in p.calls()), 'C11-R1', b.nname,
                      'a current-epoch timeout always attempts the Down update', construct='always-attempted')
        for e in p.calls():
            if e['res'] == 'member::Members::apply_existing_if':
                m = e['args'][1]
                good = m[0] == 'agg' and q.agg_field(m, 'id') == tf('member_id') and \
                    q.agg_field(m, 'incarnation') == tf('incarnation') and q.is_variant(q.agg_field(m, 'state'), 'State', 'Down')
                clo = e['args'][2]
                cgood = False
                if clo[0] == 'agg' and clo[1] == 'closure':
                    cb = f.fn(clo[2])
                    cps = ctx.paths(f, cb, 'small')
                    if len(cps) == 1 and cps[0].ret[0] == 'binop' and cps[0].ret[1] == 'Eq':
                        a_, b_ = cps[0].ret[2], cps[0].ret[3]
                        rec = [x for x in (a_, b_) if x[0] == 'load' and q.field_path(x[1])[1][-1:] == ['incarnation']
                               and q.field_path(x[1])[0] == ('deref', ('param', 0, 2))]
                        cap = [x for x in (a_, b_) if x not in rec]
                        cgood = len(rec) == 1 and len(cap) == 1 and (q.upvar_of(cb, cap[0]) == 'incarnation' or
                                                                     (cap[0][0] == 'load' and q.upvar_of(cb, cap[0][1][1] if cap[0][1][0] == 'deref' else cap[0]) == 'incarnation'))
                    # the capture is the timer's incarnation
                    capv = clo[5][0] if clo[5] else None
                    cgood = cgood and capv is not None and capv[0] == 'ref'
                rep.check(good and cgood, 'C11-R1', b.nname, 'apply_existing_if(Member(member_id, incarnation, Down), '
                          '|m| m.incarnation() == incarnation) with the timer\'s own fields', site=e['span'],
                          construct='conditional-apply', facts={'applied': show(m, b), 'condition_ok': cgood})
    rep.floor('C11-R1', n, 5, 'effects in the arm')
    # who else touches members in this arm: nothing
    for p in paths:
        for e in p.calls():
            touches = any(a[0] == 'ref' and a[2] and a[1] == q.self_field('members') for a in e['args'])
            if touches:
                rep.check(e['res'] == 'member::Members::apply_existing_if', 'C11-R1', b.nname,
                          'the member list is modified only through apply_existing_if', site=e['span'], construct='members-access')


def r2_creation(ctx, f, rep):
    rep.rule('C11-R2', 'ChangeSuspectToDown timers are created at one site only (probe_random_member), from the failed '
                       'record\'s own identity and incarnation, stamped with the current token')
    sites = []
    for b in f.bodies:
        if '_serde' in b.nname or 'core::' in b.nname:
            continue
        for bl in b.blocks:
            for s in bl['stmts']:
                if 'rv' in s and s['rv']['k'] == 'aggregate' and s['rv']['name'].startswith('runtime::Timer') and \
                        s['rv']['variant'] == 'ChangeSuspectToDown':
                    sites += [(nm, s['span']) for nm in f.attributed(b)]
    rep.check([s[0] for s in sites] == ['Foca::probe_random_member'], 'C11-R2', 'runtime::Timer',
              'single construction site of ChangeSuspectToDown', construct='creation-sites',
              facts={'sites': [s[0] for s in sites]})
    b = f.fn('Foca::probe_random_member')
    n = 0
    for p in ctx.paths(f, b, 'ctor'):
        calls = {c['id']: c for c in p.calls()}
        for e in p.calls():
            if e['decl'] == 'runtime::Runtime::submit_after' and q.variant_name(e['args'][1]) == 'ChangeSuspectToDown':
                n += 1
                t = e['args'][1]
                ap = [c for c in p.calls() if c['res'] == 'member::Members::apply_existing_if']
                m = ap[0]['args'][1] if ap else None
                good = m is not None and m[0] == 'agg' and q.agg_field(t, 'member_id') == q.agg_field(m, 'id') and \
                    q.agg_field(t, 'incarnation') == q.agg_field(m, 'incarnation') and \
                    q.is_self_field_load(q.agg_field(t, 'token'), 'timer_token') and \
                    q.loads_self_field(e['args'][2], 'config', 'suspect_to_down_after')
                rep.check(good, 'C11-R2', b.nname, 'timer snapshot = (identity, incarnation) just applied as Suspect, current '
                          'token, after config.suspect_to_down_after', site=e['span'], construct='snapshot',
                          facts={'timer': show(t, b)})
                break
        if n > 3:
            break
    rep.floor('C11-R2', n, 1, 'ChangeSuspectToDown submissions')


def r3_no_effect_unless_applied(ctx, f, rep):
    rep.rule('C11-R3', 'a timeout that did not take effect has no effect at all: every send/notify/timer in the arm is '
                       'control-dependent on a success flag of the returned summary (apply_successful / '
                       'changed_active_set) - directly, or inside handle_apply_summary (C08-R2, C11-R4) - and '
                       'adjust_connection_state only compares num_active, which is unchanged when the flags are false')
    b, paths = arm_paths(ctx, f)
    n = 0
    for p in paths:
        calls = {c['id']: c for c in p.calls()}
        ap = [c for c in p.calls() if c['res'] == 'member::Members::apply_existing_if']
        if not ap:
            continue
        summ = ('fieldv', ('call', ap[0]['id']), '0', 'Some')
        for i, e in enumerate(p.events):
            if e['kind'] != 'call':
                continue
            direct = e['res'] == 'Foca::send_message' or e['decl'].startswith('runtime::Runtime::')
            if not direct:
                continue
            n += 1
            g = False
            for c in q.conds_before(p, i):
                if c['expr'] in (('fieldv', summ, 'apply_successful', None), ('fieldv', summ, 'changed_active_set', None)):
                    g = q.cond_truth(c) is True
            rep.check(g, 'C11-R3', b.nname, '%s is sent only when the summary says the member was actually switched to Down'
                      % (e['res'] or e['decl']).split('::')[-1], site=e['span'],
                      construct='effect-needs-success:' + (e['res'] or e['decl']).split('::')[-1])
        for e in p.calls():
            if e['res'].startswith('Foca::') and e['res'] not in ('Foca::handle_apply_summary', 'Foca::adjust_connection_state',
                                                                    'Foca::send_message'):
                rep.violation('C11-R3', b.nname, 'unexpected-callee:' + e['res'], 'the arm calls %s, whose effects are not '
                              'covered by the success-flag argument' % e['res'], site=e['span'])
    rep.floor('C11-R3', n, 1, 'direct effects in the arm')
    # handle_apply_summary: every effect is under a success flag (with flags false it does nothing)
    hb = f.fn('Foca::handle_apply_summary')
    S = ('param', 0, 2)
    n = 0
    for p in ctx.paths(f, hb, 'none'):
        flags = {}
        for i, e in enumerate(p.events):
            if e['kind'] == 'cond' and e['expr'][0] == 'fieldv' and e['expr'][1] == S:
                flags[e['expr'][2]] = q.cond_truth(e)
            if e['kind'] == 'cond' and e['expr'][0] == 'discr' and e['expr'][1] == ('fieldv', S, 'conflict', None):
                flags['replaced'] = q.cond_variants(f, e) == {'Replaced'}
            if e['kind'] == 'call' and (e['decl'].startswith('runtime::Runtime::') or
                                        e['res'] in ('Foca::serialize_member', 'broadcast::Broadcasts::add_or_replace')):
                n += 1
                good = flags.get('apply_successful') is True or flags.get('changed_active_set') is True or \
                    flags.get('replaced') is True
                rep.check(good, 'C11-R3', hb.nname, 'effects of handle_apply_summary need apply_successful, '
                          'changed_active_set or a replacement', site=e['span'], construct='summary-effect-guard')
    rep.floor('C11-R3', n, 6, 'effects inside handle_apply_summary')
    # Lost / FailedCondition / no-op summaries have all flags false (C08-R4 re-checked here for the early returns)
    eb = f.fn('member::Members::apply_existing_if')
    for p in ctx.paths(f, eb, 'none'):
        if p.end == 'return' and p.ret[0] == 'agg' and p.ret[3] == 'Some':
            s = p.ret[5][0]
            conf = q.variant_name(q.agg_field(s, 'conflict'))
            if conf in ('Lost', 'FailedCondition') or (q.agg_field(s, 'apply_successful') == ('const', 'bool', 0, 'false')):
                rep.check(q.agg_field(s, 'apply_successful') == ('const', 'bool', 0, 'false') and
                          q.agg_field(s, 'changed_active_set') == ('const', 'bool', 0, 'false') and
                          conf != 'Replaced', 'C11-R3', eb.nname, 'refused application (%s) reports no success, no change, '
                          'no replacement' % conf, construct='refused:%s' % conf)
    # adjust_connection_state depends on num_active only
    ab = f.fn('Foca::adjust_connection_state')
    for p in ctx.paths(f, ab, 'none'):
        isna = q.num_active_term(p)

        def leaf(v):
            return q.is_const(v) or isna(v) or q.is_self_field_load(v, 'connection_state') or v[0] == 'variant' or \
                (v[0] == 'discr' and q.is_self_field_load(v[1], 'connection_state'))
        for c in p.conds():
            ex = c['expr']
            ok_ = leaf(ex) or (ex[0] == 'binop' and leaf(ex[2]) and leaf(ex[3]))
            if not ok_:
                rep.violation('C11-R3', ab.nname, 'adjust-depends-on:' + q.describe(p, ex, ab), 'adjust_connection_state '
                              'depends on something other than connection_state and num_active()', site=c['span'])


def r4_effects_when_applied(ctx, f, rep):
    rep.rule('C11-R4', 'when the timeout takes effect: the Down update is queued for gossip (apply_successful && '
                       'do_broadcast, do_broadcast = true here), a RemoveDown(id) timer is submitted after '
                       'config.remove_down_after when the member is no longer active, MemberDown per C08-R2, and TurnUndead '
                       'is sent to the member iff notify_down_members')
    b, paths = arm_paths(ctx, f)
    n = 0
    for p in paths:
        for e in p.calls():
            if e['res'] == 'Foca::handle_apply_summary':
                n += 1
                rep.check(e['args'][3] == ('const', 'bool', 1, 'true'), 'C11-R4', b.nname, 'do_broadcast = true',
                          site=e['span'], construct='do-broadcast')
        if p.end == 'return' and not q.path_is_error_propagation(p):
            calls = {c['id']: c for c in p.calls()}
            ap = [c for c in p.calls() if c['res'] == 'member::Members::apply_existing_if']
            if not ap:
                continue
            summ = ('fieldv', ('call', ap[0]['id']), '0', 'Some')
            succ = [c for c in p.conds() if c['expr'] == ('fieldv', summ, 'apply_successful', None)]
            nd = [c for c in p.conds() if q.is_self_field_load(c['expr'], 'config', 'notify_down_members')]
            sm = [c for c in p.calls() if c['res'] == 'Foca::send_message']
            if succ and q.cond_truth(succ[-1]) is True:
                want = bool(nd) and q.cond_truth(nd[-1]) is True
                good = (len(sm) == 1) == want and bool(nd)
                if sm:
                    good = good and sm[0]['args'][1] == tf('member_id') and q.is_variant(sm[0]['args'][2], 'Message', 'TurnUndead')
                rep.check(good, 'C11-R4', b.nname, 'TurnUndead goes to the member declared down iff notify_down_members',
                          construct='turnundead:%s' % want)
    rep.floor('C11-R4', n, 3, 'handle_apply_summary calls in the arm')
    hb = f.fn('Foca::handle_apply_summary')
    S = ('param', 0, 2)
    n = 0
    for p in ctx.paths(f, hb, 'none'):
        if p.end != 'return' or q.path_is_error_propagation(p):
            continue
        calls = {c['id']: c for c in p.calls()}
        flags = {}
        for c in p.conds():
            if c['expr'][0] == 'fieldv' and c['expr'][1] == S:
                flags.setdefault(c['expr'][2], q.cond_truth(c))
            if c['expr'] == ('param', 0, 4):
                flags['do_broadcast'] = q.cond_truth(c)
        aor = [c for c in p.calls() if c['res'] == 'broadcast::Broadcasts::add_or_replace']
        tm = [c for c in p.calls() if c['decl'] == 'runtime::Runtime::submit_after']
        n += 1
        want_q = flags.get('apply_successful') is True and flags.get('do_broadcast') is True
        # is_active_now first tested inside the apply_successful block
        want_t = flags.get('apply_successful') is True and flags.get('is_active_now') is False
        good = (len(aor) == 1) == want_q and (len(tm) == 1) == want_t
        if aor:
            good = good and aor[0]['args'][0] == ('ref', q.self_field('updates'), True)
            d = aor[0]['args'][2]
            ser = [c for c in p.calls() if c['res'] == 'Foca::serialize_member']
            good = good and len(ser) == 1 and _cmn.member_arg(f, ser[0]) == ('param', 0, 3)
        if tm:
            t = tm[0]['args'][1]
            good = good and q.variant_name(t) == 'RemoveDown' and q.loads_self_field(tm[0]['args'][2], 'config', 'remove_down_after')
            idc = [c for c in p.calls() if c['res'] == 'member::Member::id' and c['args'][0] == ('ref', ('local', 0, 3), False)]
            good = good and bool(idc) and t[5][0] == ('load', ('deref', ('call', idc[0]['id'])), 0)
        rep.check(good, 'C11-R4', hb.nname, 'queue-for-gossip iff apply_successful && do_broadcast; RemoveDown(id of the update) '
                  'after remove_down_after iff apply_successful && !is_active_now',
                  construct='summary-effects:%s' % sorted((k, v) for k, v in flags.items()), facts={'flags': flags})
    rep.floor('C11-R4', n, 8, 'normal paths of handle_apply_summary')


def check(ctx):
    rep = ctx.report
    rep.explanation = (
        'Static decision of the case table of the ChangeSuspectToDown handler: epoch guard on every effect, conditional '
        'application on the snapshot incarnation with the timer\'s own fields (R1); single creation site of such timers '
        'from a stored record (R2); no datagram/notification/timer unless the summary reports success, including inside '
        'the callees it reaches (R3); the effects when it does take effect (R4); Down is final: the can_change row for '
        'Down is constant false (C01-R1 re-run), replacement only through the conflict branch (C01-R3 re-run), removal '
        'only by the exact forget-timer (C09-R5 re-run) (R5). Nothing about real time is decided.')
    rep.not_decided = ['real-time aspects (when the timer fires)']
    rep.assumptions = ['the runtime delivers the Timer value it was given']
    for cfgname in ctx.configs(quick=('base',), thorough=('base', 'wire', 'nostd')):
        f = ctx.facts(cfgname)
        rep.cur_config = cfgname
        from . import common as _common
        _common.check_frame(f, rep, 'C11-R0')
        _common.check_state_fields(f, rep, 'C11-R0', ('members', 'updates'))
        _common.check_derives(f, rep, 'C11-R0')
        r1_guards(ctx, f, rep)
        r2_creation(ctx, f, rep)
        # ... and it is created whenever a failed round leaves the member active - whether or not this very update changed
        # anything (a record that is already Suspect, with no live timer of this epoch, still needs its timeout): C12-R5
        from . import c12 as _c12
        _c12.r5_suspect_once(ctx, f, c09._Rename(rep, 'C12-R5', 'C11-R2'))
        r3_no_effect_unless_applied(ctx, f, rep)
        r4_effects_when_applied(ctx, f, rep)
        # the queued Down update stays queued: an entry leaves the backlog only by being transmitted or by being
        # replaced by a fresher update of the same address (C15-R1, re-run here) - going idle in the same call does
        # not drop it
        from . import c15 as _c15
        _c15.r1_add_or_replace(ctx, f, c09._Rename(rep, 'C15-R1', 'C11-R4'), Effects(f))
        rep.rule('C11-R5', 'Down is final: can_change(Down, *) is constant false; the only other ways a Down record changes '
                           'are the conflict replacement and remove_if_down (exact identity, state Down, forget-timer only)')
        table = c01.extract_can_change(ctx, f, c09._Rename(rep, 'C01-R1', 'C11-R5'))
        if table is not None:
            for o in c01.STATES:
                rep.check(table[('Down', o)] == ('const', False), 'C11-R5', 'member::Member::can_change',
                          'can_change(Down, %s) is constant false' % o, construct='down-row:' + o)
        c01.r3_writers(ctx, f, c09._Rename(rep, 'C01-R3', 'C11-R5'))
        c09.r5_forget(ctx, f, c09._Rename(rep, 'C09-R5', 'C11-R5'))
        rep.rule('C11-R6', 'the epoch the token check refers to really changes whenever the instance stops being active: every '
                           'function that leaves Connected or resets the instance bumps the token (C13-R1 re-run)')
        from . import c13
        from .lib.effects import Effects as _Eff
        c13.r1_bumps(ctx, f, c09._Rename(rep, 'C13-R1', 'C11-R6'), _Eff(f))
    rep.cur_config = None

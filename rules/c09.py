"""C09 - one record per address; identities only move forward; own address never active.

Structural almost in full: growth only for unknown addresses (R1), identity replacement is conflict-gated and
reported (R2), the own address never enters as an active record (R3), payload of inactive/superseded senders is
discarded (R4), forgetting is exact (R5).
"""
from .lib import query as q
from .lib.effects import Effects
from .lib.facts import strip_generics
from .lib.symx import show, place_root
from . import c01, c08


def r1_growth(ctx, f, rep):
    rep.rule('C09-R1', 'Members.inner grows at exactly one site: the push in the fallback closure of Members::apply, which '
                       'runs only when apply_existing_if returned None, which happens only when no record has the '
                       'update\'s address; no other mutator of inner adds a record; Members::new is called with Vec::new()')
    pushes = []
    mutators = {}
    for b in f.analysed_bodies():
        if not b.nname.startswith('member::Members'):
            continue
        for p in ctx.paths(f, b, 'none'):
            calls = {c['id']: c for c in p.calls()}
            for e in p.calls():
                for a in e['args'][:1]:
                    tgt = None
                    def is_inner(pl):
                        # Members.inner reached through self, through a closure capture, or through the `self` a helper
                        # was handed by such a closure
                        return pl == q.self_field('inner') or q.field_path(pl)[1][-1:] == ['inner'] or \
                            (pl[0] == 'deref' and (q.upvar_of(b, pl[1]) or '').endswith('inner'))
                    if a[0] == 'ref' and a[2]:
                        pl = a[1]
                        if is_inner(pl):
                            tgt = 'inner'
                        elif pl[0] == 'deref' and pl[1][0] == 'call' and calls[pl[1][1]]['res'].endswith('DerefMut>::deref_mut'):
                            inner = calls[pl[1][1]]['args'][0]
                            if inner[0] == 'ref' and is_inner(inner[1]):
                                tgt = 'inner'
                    if tgt:
                        nm = (e['res'] or e['decl'])
                        mutators.setdefault(nm, set()).add(b.nname)
                        if nm.split('::')[-1] in ('push', 'insert', 'extend', 'append', 'resize', 'extend_from_slice'):
                            pushes.append((b, e))
    allowed = {'alloc::vec::Vec::push', 'core::slice::<impl [T]>::swap', '<[T] as rand::prelude::SliceRandom>::shuffle',
               'alloc::vec::Vec::swap_remove', '<alloc::vec::Vec as core::ops::DerefMut>::deref_mut',
               'core::slice::<impl [T]>::iter_mut'}
    rep.check(set(mutators) <= allowed, 'C09-R1', 'member::Members', 'mutators of Members.inner are push/swap/shuffle/'
              'swap_remove/iter_mut only', construct='inner-mutators',
              facts={k: sorted(v) for k, v in mutators.items()})
    sites = {(e['body'], e['block']) for b, e in pushes}
    APPLY = 'member::Members::apply'
    rep.check(len(sites) == 1 and all(APPLY in (b.parent, b.nname) for b, e in pushes), 'C09-R1',
              APPLY, 'single growth site, inside Members::apply (or its fallback closure)',
              construct='growth-site', facts={'sites': sorted(s[0] for s in sites)})
    rep.floor('C09-R1', len(sites), 1, 'growth sites of Members.inner')
    # the push runs only when apply_existing_if(update.clone(), |_| true) returned None: either it sits in the closure
    # given to unwrap_or_else on that call, or it follows a None test of that call's result on the same path
    ab = f.fn(APPLY)

    def lookup_ok(p, ae):
        cond = ae['args'][2]
        always = False
        if cond[0] == 'agg' and cond[1] == 'closure':
            cps = ctx.paths(f, f.fn(cond[2]), 'none')
            always = len(cps) == 1 and cps[0].ret == ('const', 'bool', 1, 'true')
        return always and ae['args'][1] == ('param', 0, 2)
    good = bool(pushes)
    npush = 0
    for pb, pe in pushes:
        if pb.kind == 'Closure':
            found = False
            for p in ctx.paths(f, ab, 'none'):
                calls = {c['id']: c for c in p.calls()}
                for e in p.calls():
                    if e['res'] == 'core::option::Option::unwrap_or_else':
                        recv, clo = e['args'][0], e['args'][1]
                        if recv[0] == 'call' and calls[recv[1]]['res'] == 'member::Members::apply_existing_if' and \
                                clo[0] == 'agg' and clo[1] == 'closure' and clo[2] == pb.nname and \
                                lookup_ok(p, calls[recv[1]]) and p.ret == ('call', e['id']):
                            found = True
            good = good and found
            npush += 1
    for p in ctx.paths(f, ab, 'none'):
        calls = {c['id']: c for c in p.calls()}
        lk = [c for c in p.calls() if c['res'] == 'member::Members::apply_existing_if']
        for i, e in enumerate(p.events):
            if e['kind'] == 'call' and (e['body'], e['block']) in sites and e['res'].endswith('::push'):
                npush += 1
                good = good and len(lk) == 1 and lookup_ok(p, lk[0]) and p.events.index(lk[0]) < i and \
                    q.option_known(f, p, i, ('call', lk[0]['id'])) == 'None'
        if p.end == 'return' and lk and q.option_known(f, p, len(p.events), ('call', lk[0]['id'])) == 'Some':
            # a known address: the summary of apply_existing_if is returned as is and nothing is added
            good = good and q.some_payload(p, p.ret) == ('call', lk[0]['id']) and \
                not any(x['res'].endswith('::push') for x in p.calls())
    rep.check(good and npush >= 1, 'C09-R1', ab.nname, 'apply registers a record only when apply_existing_if(update, always-true) '
              'returned None, and otherwise returns its summary', construct='apply-shape')
    # apply_existing_if returns None only when the address lookup found nothing
    eb = f.fn('member::Members::apply_existing_if')
    n = 0
    for p in ctx.paths(f, eb, 'none'):
        if p.end == 'return' and (q.is_variant(p.ret, 'Option', 'None') or (p.ret[0] == 'agg' and p.ret[3] == 'None')):
            n += 1
            calls = {c['id']: c for c in p.calls()}
            cs = p.conds()
            t = q.option_test(f, p, cs[0]) if len(cs) == 1 else None
            good = t is not None and t[1] == 'None' and t[0][0] == 'call' and t[0][1] in calls and \
                (calls[t[0][1]]['decl'].endswith('Iterator::find') or calls[t[0][1]]['res'].endswith('Iterator>::find'))
            rep.check(good, 'C09-R1', eb.nname,
                      'None is returned exactly when the lookup by address finds no record', construct='none-iff-unknown')
    rep.floor('C09-R1', n, 1, 'None paths of apply_existing_if')
    # Members::new(Vec::new())
    for cb, bi, t in f.callers_of(lambda x: x == 'member::Members::new'):
        for p in ctx.paths(f, cb, 'none'):
            calls = {c['id']: c for c in p.calls()}
            for e in p.calls():
                if e['res'] == 'member::Members::new':
                    a = e['args'][0]
                    rep.check(a[0] == 'call' and calls[a[1]]['res'] in ('alloc::vec::Vec::new', 'alloc::vec::Vec::with_capacity',
                                                                         '<alloc::vec::Vec as core::default::Default>::default'),
                              'C09-R1', cb.nname,
                              'Members::new is given an empty Vec', site=e['span'], construct='members-new')
            break


def r3_own_address(ctx, f, rep):
    rep.rule('C09-R3', 'the own address never enters the member list as active: the sender update in handle_data is '
                       'preceded by failing `src == identity` and `src.addr() == identity.addr()` tests on the same '
                       'value; apply_many applies verbatim only when both tests fail and otherwise rebuilds the update as '
                       'Member::down; the two direct apply_existing_if sites apply Down, or Suspect for the identity '
                       'and incarnation of the probed (already active) record')
    hd = f.fn('Foca::handle_data')
    n = 0
    for p in ctx.paths(f, hd, 'ctor'):
        calls = {c['id']: c for c in p.calls()}
        for i, e in enumerate(p.events):
            if e['kind'] == 'call' and e['res'] == 'Foca::apply_update':
                n += 1
                m = e['args'][1]
                sid = q.agg_field(m, 'id') if m[0] == 'agg' else None
                inc = q.agg_field(m, 'incarnation') if m[0] == 'agg' else None
                id_ne = addr_ne = False
                for c in q.conds_before(p, i):
                    es = q.eq_sides(c['expr'])
                    if not es:
                        continue
                    is_eq, a, b = es
                    neq = q.cond_truth(c) != is_eq
                    if {a, b} == {sid, ('load', q.self_field('identity'), 0)} and neq:
                        id_ne = True
                    if a[0] == 'call' and b[0] == 'call' and neq:
                        ca, cb = calls[a[1]], calls[b[1]]
                        if ca['decl'] == cb['decl'] == 'identity::Identity::addr':
                            recv = {x['args'][0] for x in (ca, cb)}
                            srcref = [x for x in recv if x != ('ref', q.self_field('identity'), False)]
                            if ('ref', q.self_field('identity'), False) in recv and len(srcref) == 1 and \
                                    srcref[0][0] == 'ref' and ctx_read_same(srcref[0], sid):
                                addr_ne = True
                hdr_src = sid is not None and sid[0] == 'fieldv' and sid[2] == 'src'
                alive = m[0] == 'agg' and q.is_variant(q.agg_field(m, 'state'), 'State', 'Alive')
                inc_ok = inc is not None and inc[0] == 'fieldv' and inc[2] == 'src_incarnation' and inc[1] == sid[1]
                rep.check(id_ne and addr_ne and hdr_src and alive and inc_ok, 'C09-R3', hd.nname,
                          'sender update = Member(header.src, header.src_incarnation, Alive), applied only after both '
                          'own-identity and own-address tests on header.src failed', site=e['span'],
                          construct='sender-update', facts={'id_ne': id_ne, 'addr_ne': addr_ne, 'applied': show(m, hd)})
                # (no break: *every* apply_update reached on the path is a way into the member list)
    rep.floor('C09-R3', n, 1, 'apply_update in handle_data')
    cs = sorted({c[0].nname for c in f.callers_of(lambda x: x == 'Foca::apply_update')})
    rep.check(cs == ['Foca::apply_many', 'Foca::handle_data'], 'C09-R3', 'Foca::apply_update', 'apply_update is called only by '
              'handle_data (the sender update) and apply_many (routed updates)', construct='apply-update-callers',
              facts={'callers': cs})
    # apply_many branches are decided by C01-R4 (reused here so that C09 stands alone)
    c01.r4_routing(ctx, f, _Rename(rep, 'C01-R4', 'C09-R3'))
    # ... for every item of the batch: a loop that stops early (say, once the instance is defunct) silently drops the
    # conflict winners and Down notices that follow (C01-R5 re-run)
    c01.r5_state_transfer(ctx, f, _Rename(rep, 'C01-R5', 'C09-R3'))
    ht = f.fn('Foca::handle_timer')
    n = 0
    for p in ctx.paths(f, ht, 'ctor'):
        for e in p.calls():
            if e['res'] == 'member::Members::apply_existing_if':
                n += 1
                m = e['args'][1]
                rep.check(m[0] == 'agg' and q.is_variant(q.agg_field(m, 'state'), 'State', 'Down'), 'C09-R3', ht.nname,
                          'the suspicion timeout applies State::Down only', site=e['span'], construct='timeout-applies-down')
                break
    rep.floor('C09-R3', n, 1, 'apply_existing_if in handle_timer')
    pr = f.fn('Foca::probe_random_member')
    n = 0
    for p in ctx.paths(f, pr, 'ctor'):
        calls = {c['id']: c for c in p.calls()}
        for e in p.calls():
            if e['res'] == 'member::Members::apply_existing_if':
                n += 1
                m = e['args'][1]
                good = m[0] == 'agg' and q.is_variant(q.agg_field(m, 'state'), 'State', 'Suspect')
                if good:
                    i_, inc = q.agg_field(m, 'id'), q.agg_field(m, 'incarnation')
                    # both are fields of the value returned by Probe::take_failed
                    def from_failed(v):
                        return q.mentions(v, lambda x: x[0] == 'call' and x[1] in calls and
                                          calls[x[1]]['res'] == 'probe::Probe::take_failed')
                    good = from_failed(i_) and from_failed(inc)
                rep.check(good, 'C09-R3', pr.nname, 'probe failure applies Suspect with the identity and incarnation of the '
                          'record returned by take_failed()', site=e['span'], construct='probe-applies-suspect',
                          facts={'applied': show(m, pr)})
                break
    rep.floor('C09-R3', n, 1, 'apply_existing_if in probe_random_member')
    # Probe.direct is filled only by Probe::start, called only with the result of Members::next
    eff = Effects(f)
    w = sorted(eff.writers_of('probe::Probe', 'direct'))
    rep.check(set(w) <= {'probe::Probe::start', 'probe::Probe::clear', 'probe::Probe::take_failed'}, 'C09-R3', 'probe::Probe',
              'Probe.direct is written only by start/clear/take_failed', construct='direct-writers', facts={'writers': w})
    n = 0
    for cb, bi, t in f.callers_of(lambda x: x == 'probe::Probe::start'):
        for p in ctx.paths(f, cb, 'none'):
            calls = {c['id']: c for c in p.calls()}
            for e in p.calls():
                if e['res'] == 'probe::Probe::start':
                    n += 1
                    a = e['args'][1]
                    good = q.mentions(a, lambda x: x[0] == 'call' and x[1] in calls and calls[x[1]]['res'] == 'member::Members::next')
                    if not good:
                        # `next(..).cloned()` / `.map(Clone::clone)`: the Option handed on is a copy of what next returned
                        def copies_next(x):
                            if not (x[0] == 'call' and x[1] in calls):
                                return False
                            c_ = calls[x[1]]
                            return c_['res'] in ('core::option::Option::cloned', 'core::option::Option::copied') and \
                                c_['args'][0][0] == 'call' and c_['args'][0][1] in calls and \
                                calls[c_['args'][0][1]]['res'] == 'member::Members::next'
                        good = q.mentions(a, copies_next)
                    rep.check(good, 'C09-R3', cb.nname, 'the probed member is the one returned by Members::next',
                              site=e['span'], construct='probe-target-source')
            if n:
                break
    rep.floor('C09-R3', n, 1, 'Probe::start call')
    # Members::next returns only indices produced by position(is_active)
    nb = f.fn('member::Members::next')
    good = True
    for c in f.closures_of('member::Members::next'):
        cps = ctx.paths(f, c, 'small')
        if c.argc == 2 and all(p.ret[0] == 'const' or p.ret[0] == 'call' for p in cps) and \
                any(cc['expr'][0] == 'discr' for p in cps for cc in p.conds()):
            tab = {}
            for p in cps:
                vs = set(f.variant_names('member::State'))
                for cc in p.conds():
                    cv = q.cond_variants(f, cc)
                    if cv:
                        vs &= cv
                for v in vs:
                    tab[v] = p.ret
            if tab:
                good = good and tab.get('Down') == ('const', 'bool', 0, 'false') and \
                    tab.get('Alive') == ('const', 'bool', 1, 'true')
    rep.check(good, 'C09-R3', nb.nname, 'position predicates of Members::next are is_active()', construct='next-predicate')


def ctx_read_same(ref, val):
    """&place whose value is `val` (place of a by-value field of the header local)"""
    pl = ref[1]
    root, names = q.field_path(pl)
    return val is not None and val[0] == 'fieldv' and names[-1:] == [val[2]]


class _Rename:
    """Report proxy: re-labels rule ids of a reused rule so that evidence names the property at hand."""

    def __init__(self, rep, old, new):
        self._rep, self._old, self._new = rep, old, new

    def _r(self, rid):
        return self._new if rid == self._old else rid

    def rule(self, rid, text):
        self._rep.rule(self._r(rid), text)

    def ok(self, rule, *a, **k):
        self._rep.ok(self._r(rule), *a, **k)

    def violation(self, rule, *a, **k):
        self._rep.violation(self._r(rule), *a, **k)

    def check(self, cond, rule, *a, **k):
        return self._rep.check(cond, self._r(rule), *a, **k)

    def floor(self, rule, *a, **k):
        self._rep.floor(self._r(rule), *a, **k)

    def __getattr__(self, n):
        return getattr(self._rep, n)


def r4_inactive_payload(ctx, f, rep):
    rep.rule('C09-R4', 'apply_update reports the sender inactive for Lost / FailedCondition and otherwise is_active_now; in '
                       'handle_data everything that consumes the payload (apply_many, handle_custom_broadcasts, the reply '
                       'match) is guarded by that value being true')
    au = f.fn('Foca::apply_update')
    n = 0
    for p in ctx.paths(f, au, 'none'):
        if p.end != 'return' or q.path_is_error_propagation(p):
            continue
        calls = {c['id']: c for c in p.calls()}
        ap = [c for c in p.calls() if c['res'] == 'member::Members::apply']
        if not ap:
            continue
        summ = ('call', ap[0]['id'])
        vs = None
        for c in p.conds():
            if c['expr'][0] == 'discr' and c['expr'][1] == ('fieldv', summ, 'conflict', None):
                vs = q.cond_variants(f, c)
        r = p.ret
        val = r[5][0] if r[0] == 'agg' and r[3] == 'Ok' else None
        if val is None and r[0] == 'call' and r[1] in calls and calls[r[1]]['res'] == 'core::result::Result::map':
            # `handle_apply_summary(..).map(|()| update_is_active)`: the Ok value is what the closure returns - its capture
            clo = calls[r[1]]['args'][1]
            if clo[0] == 'agg' and clo[1] == 'closure' and len(clo[5]) == 1:
                cps = [cp for cp in ctx.paths(f, f.fn(clo[2]), 'none') if cp.end == 'return']
                rv = cps[0].ret if len(cps) == 1 else None
                if rv is not None and rv[0] == 'load' and rv[1][0] == 'deref':
                    rv = rv[1][1]           # a capture by reference, dereferenced
                if rv is not None and not cps[0].calls() and q.upvar_of(f.fn(clo[2]), rv) is not None:
                    val = clo[5][0]
                    if val[0] == 'ref':     # ... whose value at the call is recorded with the call
                        av = calls[r[1]].get('argvals') or []
                        val = av[1][5][0] if len(av) > 1 and av[1][0] == 'agg' and av[1][5] else None
        n += 1
        if vs and vs & {'Lost', 'FailedCondition'}:
            rep.check(val == ('const', 'bool', 0, 'false'), 'C09-R4', au.nname, 'Lost/FailedCondition -> sender not active',
                      construct='ret:lost')
        else:
            rep.check(val == ('fieldv', summ, 'is_active_now', None), 'C09-R4', au.nname,
                      'otherwise -> summary.is_active_now', construct='ret:other', facts={'ret': show(r, au)})
    rep.floor('C09-R4', n, 2, 'apply_update result paths')
    hd = f.fn('Foca::handle_data')
    n = 0
    for p in ctx.paths(f, hd, 'none'):
        calls = {c['id']: c for c in p.calls()}
        au_i = [i for i, e in enumerate(p.events) if e['kind'] == 'call' and e['res'] == 'Foca::apply_update']
        if not au_i:
            continue
        i0 = au_i[0]
        # the boolean produced by `?` on apply_update
        active = None
        for c in p.events[i0:]:
            if c['kind'] == 'cond' and c.get('dty') == 'bool' and q.ok_payload_of(p, c['expr']) is not None:
                active = q.cond_truth(c)
                break
        for j, e in enumerate(p.events):
            if e['kind'] != 'call' or j == i0:
                continue
            consumer = e['res'] in ('Foca::apply_many', 'Foca::handle_custom_broadcasts', 'probe::Probe::receive_ack',
                                    'probe::Probe::receive_indirect_ack')
            reply = e['res'] == 'Foca::send_message' and q.variant_name(e['args'][2]) != 'TurnUndead'
            if consumer or reply:
                n += 1
                # (a consumer placed in front of the sender check sees the payload of Down and superseded senders too)
                rep.check(j > i0 and active is True, 'C09-R4', hd.nname, '%s only for an active, non-superseded sender'
                          % (e['res'].split('::')[-1]), site=e['span'], construct='consumer:' + e['res'].split('::')[-1])
    rep.floor('C09-R4', n, 10, 'payload consumers in handle_data paths')
    # ... and a payload that was decoded but not consumed (inactive sender) is gone with the datagram
    from . import common as _cm
    _cm.scratch_cleared(ctx, f, rep, 'C09-R4')
    _cm.payload_staged_whole(ctx, f, rep, 'C09-R4')


def r5_forget(ctx, f, rep):
    rep.rule('C09-R5', 'remove_if_down is called only from the RemoveDown timer handler, with the timer\'s identity')
    cs = f.callers_of(lambda x: x == 'member::Members::remove_if_down')
    names = sorted({c[0].nname for c in cs})
    rep.check(names == ['Foca::handle_timer'], 'C09-R5', 'member::Members::remove_if_down', 'single caller: handle_timer',
              construct='callers', facts={'callers': names})
    ht = f.fn('Foca::handle_timer')
    n = 0
    for p in ctx.paths(f, ht, 'none'):
        for i, e in enumerate(p.events):
            if e['kind'] == 'call' and e['res'] == 'member::Members::remove_if_down':
                n += 1
                arm = None
                for c in q.conds_before(p, i):
                    if c['expr'][0] == 'discr' and c['expr'][1] == ('param', 0, 2):
                        arm = q.cond_variants(f, c)
                idv = e['derefs'][1]
                rep.check(arm == {'RemoveDown'} and idv == ('fieldv', ('param', 0, 2), '0', 'RemoveDown'), 'C09-R5', ht.nname,
                          'forgetting happens in the RemoveDown arm for exactly the identity carried by the timer',
                          site=e['span'], construct='forget-site', facts={'arm': sorted(arm or []), 'id': show(idv, ht)})
                break
    rep.floor('C09-R5', n, 1, 'remove_if_down call')
    c08.check_remove_predicate(ctx, f, rep, 'C09-R5')


def check(ctx):
    rep = ctx.report
    rep.explanation = (
        'Static decision of: the single growth site of the member list and its guard (R1); conflict-gated identity '
        'replacement reported as Rename (R2 = C01-R3 replacement guards + C08-R2 Rename guard, re-run here); that the '
        'own address can only enter as Down (R3); that payload of inactive or superseded senders is discarded (R4); '
        'exact forgetting (R5). Not decided: user calls of change_identity with a different address.')
    rep.not_decided = ['change_identity called by the user with an identity of a different address']
    rep.assumptions = ['Identity::addr is a pure function of the identity', 'win_addr_conflict is a strict order per address']
    for cfgname in ctx.configs(quick=('base',), thorough=('base', 'wire', 'nostd')):
        f = ctx.facts(cfgname)
        rep.cur_config = cfgname
        from . import common as _common
        _common.check_frame(f, rep, 'C09-R0')
        _common.check_derives(f, rep, 'C09-R0')
        _common.check_state_fields(f, rep, 'C09-R0', ('members',))
        r1_growth(ctx, f, rep)
        rep.rule('C09-R2', 'the only write to the identity of a stored record is the swap in apply_existing_if, guarded by '
                           'identities differing, by known.id NOT winning the conflict and by the caller condition; it '
                           'yields ConflictResult::Replaced(previous id)')
        c01.r3_writers(ctx, f, _Rename(rep, 'C01-R3', 'C09-R2'))
        eb = f.fn('member::Members::apply_existing_if')
        n = 0
        for p in ctx.paths(f, eb, 'none'):
            ws = [w for w in p.writes() if q.field_path(w['place'])[1][-1:] == ['id'] and place_root(w['place'])[0] == 'deref']
            if ws and p.end == 'return':
                n += 1
                s = p.ret[5][0]
                conf = q.agg_field(s, 'conflict')
                rep.check(q.variant_name(conf) == 'Replaced' and conf[5][0] == ws[0].get('old'), 'C09-R2', eb.nname,
                          'a replaced identity is reported as Replaced(previous identity)', site=ws[0]['span'],
                          construct='replaced-reports-old', facts={'conflict': show(conf, eb)})
        rep.floor('C09-R2', n, 1, 'replacement paths')
        # "(reported as Rename)": every summary - whoever produced it - goes through handle_apply_summary, the only place
        # that constructs Rename, which notifies it exactly when the conflict result is Replaced (C08-R1..R3, re-run here)
        c08.r1_sites(ctx, f, _Rename(rep, 'C08-R1', 'C09-R2'), c08.notif_sites(ctx, f))
        c08.r2_guards(ctx, f, _Rename(rep, 'C08-R2', 'C09-R2'))
        c08.r3_summary_flow(ctx, f, _Rename(rep, 'C08-R3', 'C09-R2'))
        r3_own_address(ctx, f, rep)
        from . import common as _cmx
        _cmx.routing_reads_current_identity(ctx, f, rep, 'C09-R3')
        r4_inactive_payload(ctx, f, rep)
        r5_forget(ctx, f, rep)
    rep.cur_config = None

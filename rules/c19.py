"""C19 - Foca never chooses its own address as a destination."""
from .lib import query as q
from .lib.symx import show
from . import c07, c09, c12, common

CHOICE = q.self_field('choice_buf')


def popped_from_choice(p, calls, v):
    """v = Member::into_identity(Vec::pop(&mut self.choice_buf).Some.0) -> the pop call event, else None"""
    if v[0] == 'call' and v[1] in calls and calls[v[1]]['res'] == 'member::Member::into_identity':
        a = calls[v[1]]['args'][0]
        opt = q.some_payload(p, a)        # `Some(m) = pop()` or `pop()?`
        if opt is not None and opt[0] == 'call' and opt[1] in calls:
            pc = calls[opt[1]]
            if pc['res'] == 'alloc::vec::Vec::pop' and pc['args'][0] == ('ref', CHOICE, True):
                return pc
    return None


def last_fill(p, upto):
    """The last event before index `upto` that fills or filters choice_buf: (kind, event)"""
    fill = None
    filt = []
    for e in p.events[:upto]:
        if e['kind'] != 'call':
            continue
        touches = any(a == ('ref', CHOICE, True) for a in e['args'])
        if not touches:
            continue
        nm = e['res']
        if nm in ('member::Members::choose_active_members', 'member::Members::choose_down_members'):
            fill = e
            filt = []
        elif nm == 'alloc::vec::Vec::retain':
            filt.append(e)
        elif nm == 'alloc::vec::Vec::clear':
            fill = None
            filt = []
    return fill, filt


def own_addr_filter(ctx, f, p, calls, ret_ev):
    """retain(|m| m.id().addr() != own_addr) with own_addr = self.identity.addr()"""
    clo = ret_ev['args'][1]
    if not (clo[0] == 'agg' and clo[1] == 'closure'):
        return False
    cap = clo[5]
    # captured: reference to a local holding Identity::addr(&self.identity)
    cap_ok = False
    for c in cap:
        v = c
        if v[0] == 'ref':
            # value of the captured local at closure creation: find the addr call on self.identity before the retain
            cap_ok = True
    addr_calls = [c for c in p.calls() if c['decl'] == 'identity::Identity::addr' and
                  c['args'][0] == ('ref', q.self_field('identity'), False)]
    cb = f.fn(clo[2])
    cps = ctx.paths(f, cb, 'small')
    if len(cps) != 1:
        return False
    r = cps[0].ret
    cc = {c['id']: c for c in cps[0].calls()}
    if not (r[0] == 'binop' and r[1] == 'Ne'):
        return False
    sides = [r[2], r[3]]
    member_addr = [x for x in sides if x[0] == 'call' and cc[x[1]]['decl'] == 'identity::Identity::addr']
    captured = [x for x in sides if x not in member_addr]
    if len(member_addr) != 1 or len(captured) != 1:
        return False
    recv = cc[member_addr[0][1]]['args'][0]
    of_member = recv[0] == 'ref' and q.field_path(recv[1])[1][-1:] == ['id'] and q.place_root(recv[1]) == ('deref', ('param', 0, 2))
    cap_name = None
    x = captured[0]
    for _ in range(3):
        cap_name = q.upvar_of(cb, x)
        if cap_name or x[0] != 'load' or x[1][0] != 'deref':
            break
        x = x[1][1]
    return of_member and cap_ok and bool(addr_calls) and cap_name is not None


def r1_destinations(ctx, f, rep):
    rep.rule('C19-R1', 'the destination of every send_message call is one of: (a) header.src after the own-identity and '
                       'own-address rejection; (b) an element popped from choice_buf last filled by choose_active_members '
                       '(active records never bear the own address, C09-R3); (c) the record returned by Members::next; (d) an '
                       'identity named by a peer or by the caller (relay targets, announce(dst), a timer\'s member_id - outside '
                       'the guarantee); (e) an element popped from choice_buf filled by choose_down_members, which must have '
                       'been filtered by addr != self.identity.addr() before popping')
    classes = {}
    n_sites = set()
    for b in f.analysed_bodies():
        if not b.nname.startswith('Foca::') or b.nname == 'Foca::send_message':
            continue
        if not any(t['res'].endswith('send_message') for _, t in f.calls_deep(b)):
            continue
        for p in ctx.paths(f, b, 'none'):
            calls = {c['id']: c for c in p.calls()}
            hdr = c12.header_parts(p) if b.nname == 'Foca::handle_data' else (None, None, None)
            for i, e in enumerate(p.events):
                if e['kind'] != 'call' or e['res'] != 'Foca::send_message':
                    continue
                site = (b.nname, e['tblock'])
                n_sites.add(site)
                dst = e['args'][1]
                cls = None
                good = True
                why = ''
                pc = popped_from_choice(p, calls, dst)
                if hdr[1] is not None and dst == hdr[1]:
                    cls = 'a:reply-to-src'
                    id_ne = addr_ne = False
                    for c in q.conds_before(p, i):
                        es = q.eq_sides(c['expr'])
                        if not es:
                            continue
                        neq = q.cond_truth(c) != es[0]
                        if {es[1], es[2]} == {hdr[1], ('load', q.self_field('identity'), 0)} and neq:
                            id_ne = True
                        if es[1][0] == 'call' and es[2][0] == 'call' and neq and \
                                all(calls[x[1]]['decl'] == 'identity::Identity::addr' for x in es[1:]):
                            addr_ne = True
                    good = id_ne and addr_ne
                    why = 'reply to header.src without the own-identity/own-address rejection before it'
                elif pc is not None:
                    pidx = [k for k, x in enumerate(p.events) if x is pc][0]
                    fill, filt = last_fill(p, pidx)
                    if fill is None:
                        # filled in an earlier loop iteration: look at any earlier fill on the path
                        fill, filt = last_fill(p, i)
                    if fill is not None and fill['res'] == 'member::Members::choose_active_members':
                        cls = 'b:active-member'
                    elif fill is not None and fill['res'] == 'member::Members::choose_down_members':
                        cls = 'e:down-member'
                        good = any(own_addr_filter(ctx, f, p, calls, r) for r in filt)
                        why = 'Down records may bear the own address (former own identities are kept as Down): the chosen ' \
                              'set must be filtered by addr != self.identity.addr() before sending'
                    else:
                        cls = '?:choice_buf-of-unknown-origin'
                        good = False
                        why = 'choice_buf is not filled by a known picker before being drained'
                elif q.derives_from(p, dst, lambda c: c['res'] == 'member::Members::next'):
                    cls = 'c:next-active-member'
                elif dst[0] == 'fieldv' and hdr[2] is not None and dst[1] == hdr[2]:
                    cls = 'd:peer-named-relay-target'
                elif dst == ('param', 0, 2) and b.nname == 'Foca::announce':
                    cls = 'd:caller-named'
                elif dst[0] == 'fieldv' and dst[1] == ('param', 0, 2) and b.nname == 'Foca::handle_timer':
                    cls = 'd:timer-named'
                else:
                    cls = '?:unknown'
                    good = False
                    why = 'destination provenance not recognised: %s' % show(dst, b)
                classes.setdefault(site, set()).add(cls)
                rep.check(good, 'C19-R1', b.nname, 'destination class %s is admissible' % cls, site=e['span'],
                          construct='dst:%s' % cls, facts={'dst': show(dst, b), 'why': why} if not good else {'dst': show(dst, b)})
    rep.floor('C19-R1', len(n_sites), 13, 'send_message call sites')
    by_cls = {}
    for site, cs in classes.items():
        for c in cs:
            by_cls.setdefault(c, set()).add(site[0])
    rep.ok('C19-R1', 'crate', 'destination classes of all send_message call sites',
           facts={k: sorted(v) for k, v in sorted(by_cls.items())})
    for need in ('a:reply-to-src', 'b:active-member', 'c:next-active-member', 'e:down-member'):
        rep.floor('C19-R1', len(by_cls.get(need, ())), 1, 'sites of class ' + need)
    # timer-named destinations: the only one is the courtesy TurnUndead to the member just declared down, whose
    # identity comes from a ChangeSuspectToDown timer created from an active record (C11-R2)
    tn = by_cls.get('d:timer-named', set())
    rep.check(tn <= {'Foca::handle_timer'}, 'C19-R1', 'Foca::handle_timer', 'timer-named destinations only in handle_timer',
              construct='timer-named')


def r2_pickers(ctx, f, rep):
    rep.rule('C19-R2', 'the pickers are what R1 assumes: choose_active_members selects is_active() && picker(id), '
                       'choose_down_members selects !is_active(), Members::next returns positions found with is_active()')
    c07.r6_feed(ctx, f, c09._Rename(rep, 'C07-R6', 'C19-R2'))
    b = f.fn('member::Members::choose_down_members')
    for p in ctx.paths(f, b, 'none'):
        for e in p.calls():
            if e['res'] == 'member::Members::choose_members':
                clo = e['args'][4]
                good = clo[0] == 'agg' and clo[1] == 'closure'
                if good:
                    cb = f.fn(clo[2])
                    tab = {}
                    for cp in ctx.paths(f, cb, 'small'):
                        vs = set(f.variant_names('member::State'))
                        for c in cp.conds():
                            cv = q.cond_variants(f, c)
                            if cv:
                                vs &= cv
                        for v in vs:
                            tab[v] = cp.ret
                    good = tab.get('Down') == ('const', 'bool', 1, 'true') and tab.get('Alive') == ('const', 'bool', 0, 'false') \
                        and tab.get('Suspect') == ('const', 'bool', 0, 'false')
                rep.check(good, 'C19-R2', b.nname, 'down picker selects exactly the Down records', site=e['span'],
                          construct='down-picker')
    # Members::next (reuse the predicate check of C09-R3) and the own-address exclusion for active records
    c09.r3_own_address(ctx, f, c09._Rename(rep, 'C09-R3', 'C19-R2'))


def check(ctx):
    rep = ctx.report
    rep.explanation = (
        'For every send_message call site in the crate (13) the destination operand is traced to its source and the '
        'source class must exclude the own address: replies go to header.src after the own-identity/own-address rejection; '
        'random targets are popped from choice_buf filled by an active-member picker (no active record bears the own '
        'address, C09-R3 re-run) or by the down picker followed by an own-address filter; probes go to Members::next. '
        'Destinations named by a peer (relay targets), by the caller (announce) or by a timer are outside the guarantee '
        'and are listed.')
    rep.not_decided = ['relays towards a target named by a peer (outside the guarantee by the statement)']
    rep.assumptions = ['Identity::addr is a pure function of the identity']
    for cfgname in ctx.configs(quick=('base',), thorough=('base', 'wire', 'nostd')):
        f = ctx.facts(cfgname)
        rep.cur_config = cfgname
        from . import common as _cm
        _cm.check_helpers(ctx, f, rep, 'C19-R0', {'choose_members', 'Members::is_active'})
        common.check_derives(f, rep, 'C19-R0')
        r1_destinations(ctx, f, rep)
        r2_pickers(ctx, f, rep)
        common.routing_reads_current_identity(ctx, f, rep, 'C19-R2')
    rep.cur_config = None

"""C17 - deterministic, and rejected input leaves no trace."""
import re

from .lib import query as q
from .lib.facts import strip_generics
from .lib.symx import show, is_prefix
from . import c13

DENY = ('std::time', 'core::time::Instant', 'Instant::now', 'SystemTime', 'std::env', 'std::thread', 'RandomState',
        'std::collections::hash', 'HashMap', 'HashSet', 'hashbrown', 'thread_rng', 'rand::rng', 'rand::random', 'getrandom', 'std::process',
        'std::fs', 'std::net::', 'std::io::stdin', 'OsRng', 'std::sync', 'core::sync::atomic')

SCRATCH = {('updates_buf',), ('codec',)}


def r1_nondeterminism(ctx, f, rep):
    rep.rule('C17-R1', 'no ambient nondeterminism: no resolved callee is a clock, environment, thread, hash-randomisation, '
                       'global RNG or I/O routine; no pointer is turned into an integer; every call into rand:: receives the '
                       'RNG type parameter (Foca.rng or a caller-supplied generator)')
    n = 0
    bad = []
    for b, bi, t in f.all_calls():
        if '_serde' in b.nname:
            continue
        n += 1
        for nm in (t['decl'], t['res']):
            if any(d in nm for d in DENY):
                bad.append((b.nname, nm, t['span']))
    for fn, nm, sp in bad:
        rep.violation('C17-R1', fn, 'ambient:' + strip_generics(nm), 'call to an ambient-nondeterminism source: %s' % nm, site=sp)
    if not bad:
        rep.ok('C17-R1', 'crate', 'no call to a clock/env/thread/hash-random/global-RNG/I-O routine', facts={'calls_scanned': n})
    casts = 0
    for b in f.bodies:
        for bl in b.blocks:
            for s in bl['stmts']:
                if 'rv' in s and s['rv']['k'] == 'cast' and ('Expose' in s['rv']['kind'] or 'PtrToInt' in s['rv']['kind']):
                    casts += 1
                    rep.violation('C17-R1', b.nname, 'ptr-to-int', 'pointer-to-integer cast (address-dependent behaviour)', site=s['span'])
    rng_calls = 0
    for b, bi, t in f.all_calls():
        d = strip_generics(t['decl'])
        if d.startswith('rand::') or strip_generics(t['res']).startswith('<[T] as rand::'):
            rng_calls += 1
            tys = [a.get('place', {}).get('ty', a.get('ty', '')) for a in t['args']] + [t.get('selfty', ''), t.get('gargs', '')]
            # the generator is a type parameter of the enclosing function (`RNG`, `impl Rng`, `R: Rng` ...), never a
            # concrete generator type that could have been seeded from the environment
            concrete = ('rand::rngs', 'ThreadRng', 'OsRng', 'StdRng', 'SmallRng', 'rand_core::', 'rand_chacha', 'getrandom')
            good = not any(c in x for x in tys for c in concrete) and \
                any(('RNG' in x) or ('impl Rng' in x) or ('impl rand::Rng' in x) or
                    re.search(r'(^|[&<\s(])(mut )?[A-Z][A-Za-z0-9]{0,3}($|[>,)\s/])', x) for x in tys)
            rep.check(good, 'C17-R1', b.nname, 'rand:: routine is driven by the caller-supplied generator', site=t['span'],
                      construct='rng-source:' + d.split('::')[-1], facts={'types': [x for x in tys if x][:4]})
    rep.floor('C17-R1', rng_calls, 3, 'calls into rand::')
    rep.floor('C17-R1', n, 500, 'call sites scanned')


def effect_of(e):
    """None, or a short description of an externally visible / state-changing effect of this event."""
    if e['kind'] == 'write':
        root, names = q.field_path(e['place'])
        if root == q.SELF and names and tuple(names[:1]) not in SCRATCH:
            return 'write self.' + '.'.join(names)
        if root == q.SELF and names and tuple(names[:1]) in SCRATCH:
            return None
        return None
    if e['kind'] != 'call':
        return None
    if e['decl'].startswith('runtime::Runtime::'):
        return 'runtime.' + e['decl'].split('::')[-1]
    if e['decl'].startswith('broadcast::BroadcastHandler::receive_item'):
        return 'handler.receive_item'
    for a in e['args']:
        if a[0] == 'ref' and a[2]:
            root, names = q.field_path(a[1])
            if root == q.SELF:
                if not names:
                    return '&mut self -> ' + (e['res'] or e['decl']).split('::')[-1]
                if tuple(names[:1]) not in SCRATCH:
                    return '&mut self.%s -> %s' % ('.'.join(names), (e['res'] or e['decl']).split('::')[-1])
    return None


def classify_handle_data_exit(f, p):
    """Name of the rejection class a handle_data path ends in, or None."""
    calls = {c['id']: c for c in p.calls()}
    if p.end != 'return':
        return None
    r = p.ret
    decs = [c for c in p.calls() if c['decl'] in ('codec::Codec::decode_header', 'codec::Codec::decode_member')]
    dec_cls = {'codec::Codec::decode_header': 'undecodable-header', 'codec::Codec::decode_member': 'undecodable-member-list'}
    if r[0] == 'agg' and r[3] == 'Err' and not q.path_is_error_propagation(p):
        v = q.variant_name(r[5][0])
        if v == 'Decode' and decs:
            # an explicit `Err(e) => return Err(Error::Decode(..))`: the error of the last decode call on the path
            return dec_cls[decs[-1]['decl']]
        return {'DataTooBig': 'too-big', 'DataFromOurselves': 'from-ourselves', 'MalformedPacket': 'malformed-after-header'}.get(v)
    if q.path_is_error_propagation(p):
        # which `?` failed: the last Try::branch before from_residual
        last_br = None
        for e in p.events:
            if e['kind'] == 'call' and e['decl'].endswith('Try::branch'):
                last_br = e
        if last_br is None:
            return None
        src = last_br['args'][0]
        while src[0] == 'call' and src[1] in calls and calls[src[1]]['res'] == 'core::result::Result::map_err':
            src = calls[src[1]]['args'][0]
        if src[0] == 'call' and src[1] in calls and calls[src[1]]['decl'] in dec_cls:
            return dec_cls[calls[src[1]]['decl']]
        return None
    if r[0] == 'agg' and r[3] == 'Ok':
        ap = [c for c in p.conds() if c['expr'][0] == 'call' and calls[c['expr'][1]]['res'] == 'Foca::accept_payload']
        if ap and q.cond_truth(ap[0]) is False:
            return 'not-addressed-to-us'
    return None


def r2_rejections(ctx, f, rep):
    rep.rule('C17-R2', 'rejection paths are effect-free: every path of handle_data that returns DataTooBig, a header/member '
                       'Decode error, DataFromOurselves, MalformedPacket, or Ok(()) for a payload not addressed to the '
                       'instance performs nothing but Codec::decode_* calls and scratch writes to updates_buf (cleared before '
                       'every use); add_broadcast (MalformedPacket, DataTooBig), set_config (InvalidConfig), change_identity '
                       '(SameIdentity), reuse_down_identity (NotUndead) reject before any effect; the generator is untouched')
    hd = f.fn('Foca::handle_data')
    seen = {}
    for p in ctx.paths(f, hd, 'none'):
        cls = classify_handle_data_exit(f, p)
        if cls is None:
            continue
        effs = [x for x in (effect_of(e) for e in p.events) if x]
        seen.setdefault(cls, []).append(not effs)
        rep.check(not effs, 'C17-R2', hd.nname, 'rejection (%s) leaves no trace' % cls, construct='reject:' + cls,
                  facts={'effects': effs[:4]})
    for cls in ('too-big', 'undecodable-header', 'from-ourselves', 'malformed-after-header', 'not-addressed-to-us',
                'undecodable-member-list'):
        rep.floor('C17-R2', len(seen.get(cls, [])), 1, 'handle_data rejection class ' + cls)
    # the too-big check is first, and compares with max_packet_size
    for p in ctx.paths(f, hd, 'none'):
        if classify_handle_data_exit(f, p) == 'too-big':
            cs = p.conds()
            nrm = q.cmp_norm(cs[0]) if len(cs) == 1 else None
            good = nrm is not None and nrm[0] == 'gt' and q.loads_self_field(nrm[2], 'config', 'max_packet_size') and \
                q.derives_from(p, nrm[1], lambda c: c['decl'] == 'bytes::Buf::remaining') and \
                not any(c['decl'].startswith('codec::') for c in p.calls())
            rep.check(good, 'C17-R2', hd.nname, 'oversized input is refused before decoding anything', construct='too-big-first')
    # framing that is malformed right after the header is refused *before* anything happens: a single trailing byte, and
    # an Announce carrying anything at all.  (a) both refusals exist, (b) no path gets to its first effect without having
    # established that what follows the header is not exactly one byte
    causes = set()
    n_first = 0
    for p in ctx.paths(f, hd, 'none'):
        calls = {c['id']: c for c in p.calls()}
        dec = [i for i, e in enumerate(p.events) if e['kind'] == 'call' and e['decl'] == 'codec::Codec::decode_header']
        if not dec:
            continue
        is_rem = lambda v: v[0] == 'call' and v[1] in calls and calls[v[1]]['decl'] == 'bytes::Buf::remaining' and \
            [k for k, x in enumerate(p.events) if x['kind'] == 'call' and x['id'] == v[1]][0] > dec[0]

        def one_byte(c):
            e, t = q.norm_bool(c)
            es = q.eq_sides(e)
            if not es or t is None:
                return None
            a, b = es[1], es[2]
            if q.is_const(a, 1) and is_rem(b):
                a, b = b, a
            if not (is_rem(a) and q.is_const(b, 1)):
                return None
            return t == es[0]
        if classify_handle_data_exit(f, p) == 'malformed-after-header':
            cs = p.conds()
            if cs and one_byte(cs[-1]) is True:
                causes.add('one-trailing-byte')
            elif any(q.zero_test(c, is_rem) == 'pos' for c in cs[-2:]):
                causes.add('announce-with-payload')
        firsts = [i for i, e in enumerate(p.events) if effect_of(e)]
        if firsts:
            n_first += 1
            okc = any(one_byte(c) is False for c in q.conds_before(p, firsts[0]))
            rep.check(okc, 'C17-R2', hd.nname, 'a datagram with exactly one byte after its header is refused before the first '
                      'effect', site=p.events[firsts[0]].get('span'), construct='one-byte-framing-first')
    rep.check(causes == {'one-trailing-byte', 'announce-with-payload'}, 'C17-R2', hd.nname, 'both malformed-framing refusals '
              '(one trailing byte; an Announce with a payload) are made right after the header', construct='framing-causes',
              facts={'seen': sorted(causes)})
    rep.floor('C17-R2', n_first, 10, 'handle_data paths with an effect')
    # updates_buf is scratch: cleared before it is filled/taken
    from . import common as _cm
    _cm.scratch_cleared(ctx, f, rep, 'C17-R2')
    _cm.payload_staged_whole(ctx, f, rep, 'C17-R2')
    # nothing before the accept_payload decision has an effect either (validation precedes the first state change)
    n = 0
    for p in ctx.paths(f, hd, 'none'):
        calls = {c['id']: c for c in p.calls()}
        for i, e in enumerate(p.events):
            if e['kind'] == 'cond' and e['expr'][0] == 'call' and calls[e['expr'][1]]['res'] == 'Foca::accept_payload':
                n += 1
                effs = [x for x in (effect_of(x) for x in p.events[:i]) if x]
                rep.check(not effs, 'C17-R2', hd.nname, 'no effect precedes the destination check', construct='validate-before-effect',
                          facts={'effects': effs[:3]})
                break
    rep.floor('C17-R2', n, 10, 'paths reaching the destination check')
    # the sender update (first state change) comes after the member list was decoded completely
    n = 0
    for p in ctx.paths(f, hd, 'none'):
        au = [i for i, e in enumerate(p.events) if e['kind'] == 'call' and e['res'] == 'Foca::apply_update']
        dm = [i for i, e in enumerate(p.events) if e['kind'] == 'call' and e['decl'] == 'codec::Codec::decode_member']
        if au:
            n += 1
            rep.check(not dm or max(dm) < au[0], 'C17-R2', hd.nname, 'the member list is decoded completely before the first '
                      'state change', construct='decode-before-apply')
    rep.floor('C17-R2', n, 10, 'paths reaching apply_update')
    # API calls
    api = [('Foca::add_broadcast', {'MalformedPacket', 'DataTooBig'}), ('Foca::set_config', {'InvalidConfig'}),
           ('Foca::change_identity', {'SameIdentity'}), ('Foca::reuse_down_identity', {'NotUndead'})]
    for fn, errs in api:
        b = f.fn(fn)
        got = set()
        for p in ctx.paths(f, b, 'none'):
            if p.end == 'return' and p.ret[0] == 'agg' and p.ret[3] == 'Err' and q.variant_name(p.ret[5][0]) in errs:
                v = q.variant_name(p.ret[5][0])
                got.add(v)
                effs = [x for x in (effect_of(e) for e in p.events) if x]
                rep.check(not effs, 'C17-R2', fn, '%s is returned before any effect' % v, construct='api-reject:' + v,
                          facts={'effects': effs[:3]})
        rep.check(got == errs, 'C17-R2', fn, 'rejects with %s' % sorted(errs), construct='api-errors', facts={'seen': sorted(got)})
    # stale timers: C13-R2 (re-run under this property's id)
    from .c09 import _Rename
    c13.r2_stale_inert(ctx, f, _Rename(rep, 'C13-R2', 'C17-R2'))
    # ... and "stale" must mean "of an earlier epoch": every leave of the Connected state really changes the token
    # (a saturating or conditional bump leaves timers of the previous epoch effective) - C13-R1 re-run here
    from .lib.effects import Effects
    c13.r1_bumps(ctx, f, _Rename(rep, 'C13-R1', 'C17-R2'), Effects(f))


def r3_accept_payload(ctx, f, rep):
    rep.rule('C17-R3', 'accept_payload = (dst == identity) || (message == Announce && dst.addr() == identity.addr())')
    b = f.fn('Foca::accept_payload')
    # the header is the `&Header<T>` parameter; the identity is self.identity, read here or handed in as `&self.identity` by
    # every caller (the function may be a method or an associated function)
    hk = [k for k in range(1, b.argc + 1) if 'Header<' in str(b.locals[k])]
    H = ('deref', ('param', 0, hk[0] if len(hk) == 1 else 2))
    ik = [k for k in range(1, b.argc + 1) if str(b.locals[k]) in ('&T',)]
    id_param = None
    if len(ik) == 1 and 'Foca<' not in str(b.locals[1]):
        ok_callers = 0
        for cb in {c[0].nname: c[0] for c in f.callers_of(lambda n: n == 'Foca::accept_payload')}.values():
            for cp in ctx.paths(f, cb, 'none'):
                for c in cp.calls():
                    if c['res'] == 'Foca::accept_payload':
                        if c['args'][ik[0] - 1] == ('ref', q.self_field('identity'), False):
                            ok_callers += 1
                        else:
                            ok_callers = -10 ** 6
        if ok_callers > 0:
            id_param = ik[0]
    is_ident = lambda x: q.is_self_field_load(x, 'identity') or (
        id_param is not None and x in (('load', ('deref', ('param', 0, id_param)), 0),))
    ident_refs = {('ref', q.self_field('identity'), False)}
    if id_param is not None:
        ident_refs |= {('param', 0, id_param), ('ref', ('deref', ('param', 0, id_param)), False)}
    rows = []
    for p in ctx.paths(f, b, 'none'):
        calls = {c['id']: c for c in p.calls()}
        conds = []
        for c in p.conds():
            es = q.eq_sides(c['expr'])
            lab = None
            if es:
                sides = [es[1], es[2]]
                if any(x[0] == 'load' and x[1] == ('field', H, 'dst', None) for x in sides) and \
                        any(is_ident(x) for x in sides):
                    lab = 'dst==id'
                elif any(x[0] == 'load' and x[1] == ('field', H, 'message', None) for x in sides) and \
                        any(q.is_variant(x, 'Message', 'Announce') for x in sides):
                    lab = 'announce'
                elif all(x[0] == 'call' and calls[x[1]]['decl'] == 'identity::Identity::addr' for x in sides):
                    lab = 'addr=='
                if lab:
                    conds.append((lab, q.cond_truth(c) == es[0]))
            if not es:
                # `matches!(header.message, Message::Announce)` / `match header.message { .. }`: the same test as `==`
                vs = q.variant_test(f, c, lambda v: v[0] == 'load' and v[1] == ('field', H, 'message', None))
                if vs is not None and (vs == {'Announce'} or 'Announce' not in vs):
                    conds.append(('announce', vs == {'Announce'}))
        r = p.ret
        if r[0] == 'binop' and r[1] == 'Eq' and all(x[0] == 'call' and calls[x[1]]['decl'] == 'identity::Identity::addr' for x in r[2:4]):
            recv = {calls[x[1]]['args'][0] for x in r[2:4]}
            good_addr = len(recv) == 2 and ('ref', ('field', H, 'dst', None), False) in recv and bool(recv & ident_refs)
            rows.append((tuple(conds), 'addr==' if good_addr else 'other'))
        elif r[0] == 'const':
            rows.append((tuple(conds), bool(r[2])))
        else:
            rows.append((tuple(conds), 'other'))
    want = {((('dst==id', True),), True), ((('dst==id', False), ('announce', False)), False),
            ((('dst==id', False), ('announce', True)), 'addr==')}
    rep.check(set(rows) == want, 'C17-R3', b.nname, 'decision table of accept_payload', construct='table',
              facts={'rows': [str(r) for r in rows]})


def check(ctx):
    rep = ctx.report
    rep.explanation = (
        'Static decision of: absence of ambient nondeterminism (deny-list over every resolved callee, pointer-to-int casts, '
        'provenance of the generator passed to rand::) (R1); validation-before-effect on every rejection path of '
        'handle_data and of the failing API calls, including that the RNG, the runtime and every non-scratch field are '
        'untouched, and the scratch discipline of updates_buf (R2, with the stale-timer rules C13-R1/R2 re-run); the '
        'destination check table (R3). The wire configuration (unstable-notifications) is analysed in the quick tier so '
        'that the extra DataReceived notification is shown to sit after all checks.')
    rep.not_decided = []
    rep.assumptions = ['user-supplied Codec::decode_* has no side effect beyond consuming the buffer it is given',
                       'user code (Identity, Runtime, handler) is itself deterministic']
    for cfgname in ctx.configs(quick=('base', 'wire'), thorough=('base', 'wire', 'nostd')):
        f = ctx.facts(cfgname)
        rep.cur_config = cfgname
        r1_nondeterminism(ctx, f, rep)
        r2_rejections(ctx, f, rep)
        r3_accept_payload(ctx, f, rep)
    rep.cur_config = None

"""Entry point: python3 -m rules.run <PROPERTY> [--tier quick|thorough]

Re-exports the facts from the current tree ($VERIF_REPO, default /repo), runs the
property's rule module, writes evidence/<ID>.json and prints VIOLATION lines.
"""
import importlib
import os
import sys
import traceback

from .lib import export as exporter
from .lib.cfg import CFG
from .lib.facts import Facts, MissingAnchor
from .lib.report import Report, load_known_findings
from .lib.symx import Executor, PathLimit


def small_inline(caller, callee, depth):
    """Default inlining policy: small loop-free crate-local callees (accessors, constructors, predicates)."""
    if len(callee.blocks) > 14:
        return False
    cfg = callee.__dict__.get('_cfg')
    if cfg is None:
        cfg = callee._cfg = CFG(callee)
    return cfg.is_loop_free()


CTOR_LIKE = {'member::Member::new', 'member::Member::down', 'member::Member::alive', 'member::Member::id',
             'member::Member::incarnation', 'member::Member::state', 'member::Member::into_identity', 'Foca::identity'}


def ctor_inline(caller, callee, depth):
    """Only Member's constructors and single-projection accessors (so that applied values are visible)."""
    return callee.nname in CTOR_LIKE


INLINE = {'none': None, 'small': small_inline, 'ctor': ctor_inline}

_KNOWN = None


def known_fns():
    global _KNOWN
    if _KNOWN is None:
        p = os.path.join(os.path.dirname(os.path.abspath(__file__)), 'known_fns.txt')
        _KNOWN = {l.strip() for l in open(p) if l.strip() and not l.startswith('#')}
    return _KNOWN


def with_helpers(pol):
    """Every policy also inlines *unknown helpers*: crate functions that do not exist on the reference tree (a helper
    extracted by a refactoring). Rules then see through them instead of meeting an opaque call they know nothing about."""
    known = known_fns()

    def policy(caller, callee, depth):
        if callee.kind != 'Closure' and callee.nname not in known:
            return True
        return bool(pol and pol(caller, callee, depth))
    return policy


class Ctx:
    def __init__(self, report, tier):
        self.report = report
        self.tier = tier
        self._facts = {}
        self._paths = {}
        self._cfgs = {}

    def facts(self, config='base'):
        if config not in self._facts:
            raw = exporter.export(config)
            f = Facts(raw)
            f.known = known_fns()
            self._facts[config] = f
            self.report.configs.append({'config': config, 'features': f.features, 'bodies': len(f.bodies),
                                        'adts': len(f.adts), 'source_hash': f.meta.get('source_hash'),
                                        'export_s': f.meta.get('export_s'),
                                        'call_sites': sum(1 for _ in f.all_calls())})
        return self._facts[config]

    def configs(self, quick=('base',), thorough=('base', 'wire', 'nostd', 'all')):
        return list(thorough if self.tier == 'thorough' else quick)

    def cfg(self, body):
        k = id(body)
        if k not in self._cfgs:
            self._cfgs[k] = CFG(body)
        return self._cfgs[k]

    def paths(self, f, body, inline='none', max_visits=2, modset=None):
        if isinstance(body, str):
            body = f.fn(body)
        pol = with_helpers(INLINE[inline] if isinstance(inline, str) else inline)
        key = (id(f), body.name, inline if isinstance(inline, str) else id(inline), max_visits)
        if key not in self._paths:
            ex = Executor(f, inline=pol, max_visits=max_visits, modset=modset)
            self._paths[key] = ex.run(body)
        return self._paths[key]


def main(argv):
    if len(argv) < 2:
        print('usage: python3 -m rules.run <PROPERTY-ID> [--tier quick|thorough]')
        return 2
    prop = argv[1]
    tier = os.environ.get('VERIF_TIER', 'quick')
    if '--tier' in argv:
        tier = argv[argv.index('--tier') + 1]
    if tier not in ('quick', 'thorough'):
        tier = 'quick'
    try:
        seed = int(os.environ.get('VERIF_SEED', '0'))
    except ValueError:
        seed = 0
    rep = Report(prop, tier, seed)
    ctx = Ctx(rep, tier)
    known = load_known_findings()
    try:
        mod = importlib.import_module('rules.' + prop.lower())
    except ModuleNotFoundError:
        print('no rule module for %s' % prop)
        return 2
    try:
        mod.check(ctx)
    except MissingAnchor as e:
        rep.anchor_missing(prop + '-ANCHOR', str(e))
    except PathLimit as e:
        rep.violation(prop + '-ENGINE', '-', 'pathlimit:' + str(e).split(':')[0],
                      'function no longer extractable: ' + str(e))
    except SystemExit:
        raise
    except Exception as e:   # fail closed, but say it is the checker that broke
        traceback.print_exc()
        rep.violation(prop + '-ENGINE', '-', 'exception:' + type(e).__name__,
                      'rule module raised %r (fail closed)' % (e,))
    return rep.finish(known)


if __name__ == '__main__':
    sys.exit(main(sys.argv))

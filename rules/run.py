"""Entry point: python3 -m rules.run <PROPERTY> [--tier quick|thorough]

Re-exports the facts from the current tree ($VERIF_REPO, default /repo), runs the
property's rule module, writes evidence/<ID>.json and prints VIOLATION lines.
"""
import importlib
import json
import os
import re
import sys
import traceback

from .lib import export as exporter
from .lib.cfg import CFG
from .lib.facts import Facts, MissingAnchor
from .lib.report import Report, load_known_findings
from .lib.symx import Executor, PathLimit


def small_inline(caller, callee, depth):
    """Default inlining policy: small loop-free crate-local callees (accessors, constructors, predicates)."""
    if len(callee.blocks) > 14:
        return False
    cfg = callee.__dict__.get('_cfg')
    if cfg is None:
        cfg = callee._cfg = CFG(callee)
    return cfg.is_loop_free()


CTOR_LIKE = {'member::Member::new', 'member::Member::down', 'member::Member::alive', 'member::Member::id',
             'member::Member::incarnation', 'member::Member::state', 'member::Member::into_identity', 'Foca::identity'}


def ctor_inline(caller, callee, depth):
    """Only Member's constructors and single-projection accessors (so that applied values are visible)."""
    return callee.nname in CTOR_LIKE


def getter_inline(caller, callee, depth):
    """Pure accessors only: straight-line crate functions that write nothing through a reference and call nothing but
    other pure accessors (`num_members()`, `num_active()`, `identity()`, `Member::id()` ...).  Used to put conditions
    in a canonical form in which `self.num_members()` and `self.members.num_active()` are the same term."""
    g = callee.__dict__.get('_getter')
    if g is not None:
        return g
    callee._getter = False          # cycle guard
    ok = callee.kind != 'Closure'
    nb = 0
    for bl in callee.blocks:
        if bl['cleanup']:
            continue
        nb += 1
        for st in bl['stmts']:
            if 'lhs' in st and any(e['k'] == 'deref' for e in st['lhs']['proj']):
                ok = False
            if 'lhs' in st and st['rv']['k'] in ('ref', 'rawptr') and st['rv'].get('mut', True):
                ok = False
        t = bl['term']
        if t['k'] == 'call':
            from .lib.facts import strip_generics
            tgt = callee.facts.by_name.get(strip_generics(t['res']), [])
            if len(tgt) != 1 or not getter_inline(callee, tgt[0], depth + 1):
                ok = False
        elif t['k'] not in ('return', 'goto', 'drop', 'unreachable'):
            ok = False
    callee._getter = ok and nb <= 4
    return callee._getter


INLINE = {'none': None, 'small': small_inline, 'ctor': ctor_inline, 'getters': getter_inline}

_KNOWN = None


def known_fns():
    global _KNOWN
    if _KNOWN is None:
        p = os.path.join(os.path.dirname(os.path.abspath(__file__)), 'known_fns.txt')
        _KNOWN = {l.strip() for l in open(p) if l.strip() and not l.startswith('#')}
    return _KNOWN


def with_helpers(pol):
    """Every policy also inlines *unknown helpers*: crate functions that do not exist on the reference tree (a helper
    extracted by a refactoring). Rules then see through them instead of meeting an opaque call they know nothing about."""
    known = known_fns()

    def policy(caller, callee, depth):
        if callee.kind != 'Closure' and callee.nname not in known:
            return True
        if callee.kind == 'Closure' and caller.kind != 'Closure' and caller.nname not in known:
            # a closure handed to a higher-order helper that does not exist on the reference tree (`fill_each(.., |buf,
            # node| ..)`): seen through together with the helper
            return True
        return bool(pol and pol(caller, callee, depth))
    return policy


_SIGS = None


def known_sigs():
    global _SIGS
    if _SIGS is None:
        p = os.path.join(os.path.dirname(os.path.abspath(__file__)), 'known_sigs.json')
        _SIGS = json.load(open(p)) if os.path.exists(p) else {}
    return _SIGS


def undo_renames(raw):
    """Rename tolerance.  A private function of the reference tree that is missing, while exactly one new private
    function with the same container (`Foca::`, `member::Members::` ...) and the same signature exists - and no other
    missing function shares that container and signature - is taken to be that function under a new name: the facts
    are rewritten to the reference name, so that the rules (which anchor on names) judge the renamed function instead
    of failing on a missing anchor.  Anything ambiguous is left alone (the anchor is then reported missing)."""
    from .lib.facts import strip_generics
    known, sigs = known_fns(), known_sigs()
    present = {}
    for b in raw['bodies']:
        if b['kind'] != 'Closure':
            present[strip_generics(b['name'])] = b
    missing = [k for k in known if k not in present and k in sigs and not k.startswith('<')]
    if not missing:
        return raw, {}
    new = [n for n, b in present.items() if n not in known and not b['reachable'] and not n.startswith('<')]
    cont = lambda n: n.rsplit('::', 1)[0] if '::' in n else ''
    sig_of = lambda b: [strip_generics(str(t)) for t in b['locals'][:b['argc'] + 1]]

    def fp_of(b):
        fp = set()
        for bl in b['blocks']:
            if bl['cleanup']:
                continue
            for st in bl['stmts']:
                if 'lhs' in st:
                    for e in st['lhs']['proj']:
                        if e['k'] == 'field' and e.get('owner'):
                            fp.add('W:%s.%s' % (strip_generics(e['owner']), e['name']))
            t = bl['term']
            if t['k'] == 'call':
                fp.add(strip_generics(t['res'] or t['decl']))
        return fp

    def sim(a, b_):
        a, b_ = set(a), set(b_)
        return len(a & b_) / float(len(a | b_) or 1)
    renames = {}
    groups = {}
    for k in missing:
        groups.setdefault((cont(k), tuple(sigs[k]['sig'])), []).append(k)
    for (c, sg), ks in groups.items():
        cands = [n for n in new if cont(n) == c and tuple(sig_of(present[n])) == sg]
        if not cands:
            continue
        if len(ks) == 1 and len(cands) == 1:
            renames[cands[0]] = ks[0]
            continue
        # several same-signature functions renamed at once: pair them by what their bodies do, when that is unambiguous
        taken = set()
        for k in ks:
            scored = sorted(((sim(sigs[k]['fp'], fp_of(present[n])), n) for n in cands), reverse=True)
            best = scored[0]
            second = scored[1][0] if len(scored) > 1 else 0.0
            if best[0] >= 0.5 and best[0] - second >= 0.2 and best[1] not in taken:
                renames[best[1]] = k
                taken.add(best[1])
    # Move tolerance: a missing private function whose *name* reappears, exactly once, on a new private function of
    # another container (a method turned into a free function of the module, or moved to another impl block / type) is
    # taken to be that function; the rules then judge the moved body (parameters are found by type, and values handed
    # in by the callers are traced - see common.value_or_param_satisfies)
    moves = {}
    for k in missing:
        if k in renames.values():
            continue
        last = k.rsplit('::', 1)[-1]
        cands = [n for n in new if n.rsplit('::', 1)[-1] == last and n not in renames and cont(n) != cont(k)]
        if len(cands) == 1 and not any(m for m in missing if m != k and m.rsplit('::', 1)[-1] == last):
            moves[cands[0]] = k
    if not renames and not moves:
        return raw, {}
    text = json.dumps(raw)
    done = {}
    for newn, oldn in moves.items():
        text = re.sub(r'"%s(?=[":<])' % re.escape(newn), '"' + oldn, text)
        done[newn] = oldn
    for newn, oldn in renames.items():
        a, b_ = newn.rsplit('::', 1)[-1], oldn.rsplit('::', 1)[-1]
        # the new last segment must not name anything else in the crate
        others = [n for n in present if n != newn and (n.endswith('::' + a) or ('::' + a + '::') in n)]
        if others or a == b_:
            continue
        text = re.sub(r'::%s(?![A-Za-z0-9_])' % re.escape(a), '::' + b_, text)
        done[newn] = oldn
    return (json.loads(text), done) if done else (raw, {})


_FIELDS = None


def undo_field_renames(raw):
    """Rename tolerance for private fields: a struct/variant of the reference tree that still has the same number of
    fields with the same types in the same order, but one or more different *names* for non-public fields, is taken to
    have had those fields renamed; field projections, aggregates and the type table are rewritten to the reference
    names.  Any other difference (a field added, removed, retyped, reordered) is left alone."""
    global _FIELDS
    from .lib.facts import strip_generics
    if _FIELDS is None:
        p = os.path.join(os.path.dirname(os.path.abspath(__file__)), 'known_fields.json')
        _FIELDS = json.load(open(p)) if os.path.exists(p) else {}
    ren = {}        # (adt, variant, new name) -> old name
    for a in raw['adts']:
        n = strip_generics(a['name'])
        ref = _FIELDS.get(n)
        if not ref:
            continue
        for v in a['variants']:
            rf = ref.get(v['name'])
            if rf is None or len(rf) != len(v['fields']):
                continue
            if [strip_generics(f['ty']) for f in v['fields']] != [t for _, t in rf]:
                continue
            for f, (oldn, _) in zip(v['fields'], rf):
                if f['name'] != oldn and f.get('vis') != 'Public' and not f['name'].isdigit():
                    ren[(n, v['name'], f['name'])] = oldn
    if not ren:
        return raw, {}
    by_adt = {}
    for (adt, var, newn), oldn in ren.items():
        by_adt.setdefault(adt, {})[newn] = oldn

    def fix_place(pl):
        for e in pl.get('proj', []):
            if e.get('k') == 'field' and e.get('owner'):
                m = by_adt.get(strip_generics(e['owner']))
                if m and e['name'] in m:
                    e['name'] = m[e['name']]

    def fix_operand(o):
        if isinstance(o, dict) and 'place' in o and isinstance(o['place'], dict):
            fix_place(o['place'])
    for a in raw['adts']:
        m = by_adt.get(strip_generics(a['name']))
        if m:
            for v in a['variants']:
                for f in v['fields']:
                    f['name'] = m.get(f['name'], f['name'])
    allren = {}
    for m in by_adt.values():
        allren.update(m)
    for b in raw['bodies'] + [p for b in raw['bodies'] for p in b.get('promoted', [])]:
        for dv in b.get('debug', []):
            if dv.get('place'):
                fix_place(dv['place'])
            if b.get('kind') == 'Closure' and '__' in (dv.get('name') or ''):
                # captured places are named after their path: `self__records` -> `self__inner`
                parts = dv['name'].split('__')
                dv['name'] = '__'.join([parts[0]] + [allren.get(x, x) for x in parts[1:]])
        for bl in b['blocks']:
            for st in bl['stmts']:
                if 'lhs' in st:
                    fix_place(st['lhs'])
                    rv = st['rv']
                    if 'place' in rv and isinstance(rv['place'], dict):
                        fix_place(rv['place'])
                    for k in ('op', 'a', 'b'):
                        fix_operand(rv.get(k))
                    for o in rv.get('ops', []):
                        fix_operand(o)
                    if rv.get('k') == 'aggregate' and rv.get('fields'):
                        m = by_adt.get(strip_generics(rv.get('name') or ''))
                        if m:
                            rv['fields'] = [m.get(x, x) for x in rv['fields']]
            t = bl['term']
            for k in ('dest', 'place'):
                if isinstance(t.get(k), dict) and 'proj' in t[k]:
                    fix_place(t[k])
            for k in ('discr', 'cond', 'func'):
                fix_operand(t.get(k))
            for o in t.get('args', []) + t.get('ops', []):
                fix_operand(o)
    return raw, {'%s.%s' % (adt, newn): '%s.%s' % (adt, oldn) for (adt, var, newn), oldn in ren.items()}


class Ctx:
    def __init__(self, report, tier):
        self.report = report
        self.tier = tier
        self._facts = {}
        self._paths = {}
        self._cfgs = {}

    def facts(self, config='base'):
        if config not in self._facts:
            raw = exporter.export(config)
            raw, renames = undo_renames(raw)
            raw, frenames = undo_field_renames(raw)
            renames = dict(renames, **frenames)
            f = Facts(raw)
            f.known = known_fns()
            f.renames = renames
            if renames:
                self.report.meta.setdefault('renamed_functions', {}).update(renames)
            self._facts[config] = f
            self.report.configs.append({'config': config, 'features': f.features, 'bodies': len(f.bodies),
                                        'adts': len(f.adts), 'source_hash': f.meta.get('source_hash'),
                                        'export_s': f.meta.get('export_s'),
                                        'call_sites': sum(1 for _ in f.all_calls())})
        return self._facts[config]

    def configs(self, quick=('base',), thorough=('base', 'wire', 'nostd', 'all')):
        return list(thorough if self.tier == 'thorough' else quick)

    def cfg(self, body):
        k = id(body)
        if k not in self._cfgs:
            self._cfgs[k] = CFG(body)
        return self._cfgs[k]

    def paths(self, f, body, inline='none', max_visits=None, modset=None):
        if max_visits is None:
            # thorough: loops are traversed up to twice per path (three visits of the head) instead of once
            max_visits = 3 if self.tier == 'thorough' else 2
        if isinstance(body, str):
            body = f.fn(body)
        pol = with_helpers(INLINE[inline] if isinstance(inline, str) else inline)
        key = (id(f), body.name, inline if isinstance(inline, str) else id(inline), max_visits)
        if key not in self._paths:
            ex = Executor(f, inline=pol, max_visits=max_visits, modset=modset)
            self._paths[key] = ex.run(body)
            st = self.report.meta.setdefault('path_enumeration', {'functions': 0, 'paths': 0, 'events': 0})
            st['functions'] += 1
            st['paths'] += len(self._paths[key])
            st['events'] += sum(len(p.events) for p in self._paths[key])
        return self._paths[key]


def main(argv):
    if len(argv) < 2:
        print('usage: python3 -m rules.run <PROPERTY-ID> [--tier quick|thorough]')
        return 2
    prop = argv[1]
    tier = os.environ.get('VERIF_TIER', 'quick')
    if '--tier' in argv:
        tier = argv[argv.index('--tier') + 1]
    if tier not in ('quick', 'thorough'):
        tier = 'quick'
    try:
        seed = int(os.environ.get('VERIF_SEED', '0'))
    except ValueError:
        seed = 0
    rep = Report(prop, tier, seed)
    ctx = Ctx(rep, tier)
    known = load_known_findings()
    try:
        mod = importlib.import_module('rules.' + prop.lower())
    except ModuleNotFoundError:
        print('no rule module for %s' % prop)
        return 2
    try:
        mod.check(ctx)
    except MissingAnchor as e:
        rep.anchor_missing(prop + '-ANCHOR', str(e))
    except PathLimit as e:
        rep.violation(prop + '-ENGINE', '-', 'pathlimit:' + str(e).split(':')[0],
                      'function no longer extractable: ' + str(e))
    except SystemExit:
        raise
    except Exception as e:   # fail closed, but say it is the checker that broke
        traceback.print_exc()
        rep.violation(prop + '-ENGINE', '-', 'exception:' + type(e).__name__,
                      'rule module raised %r (fail closed)' % (e,))
    if tier == 'thorough' and not os.environ.get('VERIF_NO_CANARY'):
        try:
            run_canaries(prop, rep)
        except Exception as e:   # the self-test must never mask the verdict on the real tree
            rep.meta['canaries'] = {'error': repr(e)}
    return rep.finish(known)


def run_canaries(prop, rep, limit=4):
    """Thorough tier: show on this very tree that the check can fire. A few single-site breakages from the mutant corpus
    that are listed for this property are applied to scratch copies of the repository; the check (quick tier, separate
    process, output captured) must report a violation on each. A canary whose source pattern no longer occurs is
    skipped; a canary that applies but is not reported means the check has lost its teeth and fails closed."""
    import shutil
    import subprocess
    import tempfile
    here = os.path.dirname(os.path.dirname(os.path.abspath(__file__)))
    sys.path.insert(0, os.path.join(here, 'selftest'))
    import mutants as M
    repo = exporter.repo_dir()
    chosen = [m for m in M.MUTANTS if prop in m['props'] and m['edits'] and not m.get('revert')][:limit]
    res = []
    for m in chosen:
        d = tempfile.mkdtemp(prefix='verif-canary-')
        try:
            subprocess.check_call(['rsync', '-a', '--exclude', 'target', '--exclude', '.git', repo + '/', d + '/'])
            applicable = True
            for e in m['edits']:
                pth = os.path.join(d, e[0])
                src = open(pth).read()
                if src.count(e[1]) != 1:
                    applicable = False
                    break
                open(pth, 'w').write(src.replace(e[1], e[2]))
            if not applicable:
                res.append({'canary': m['name'], 'status': 'skipped: pattern not present in this tree'})
                continue
            env = dict(os.environ, VERIF_REPO=d, VERIF_EVIDENCE_DIR=os.path.join(d, '.evidence'), VERIF_TIER='quick',
                       VERIF_NO_CANARY='1')
            r = subprocess.run([sys.executable, '-m', 'rules.run', prop, '--tier', 'quick'], cwd=here, env=env,
                               stdout=subprocess.PIPE, stderr=subprocess.STDOUT, text=True)
            fired = r.returncode == 1 and 'VIOLATION' in r.stdout
            rules = sorted({l.split('rule=')[1].split()[0] for l in r.stdout.splitlines() if 'rule=' in l})
            if r.returncode == 3:
                res.append({'canary': m['name'], 'status': 'skipped: mutated tree does not compile'})
            else:
                res.append({'canary': m['name'], 'why': m['why'], 'status': 'reported' if fired else 'NOT REPORTED', 'rules': rules})
                if not fired:
                    rep.violation(prop + '-SELFTEST', '-', 'canary:' + m['name'], 'the check did not report a seeded breakage '
                                  'it is known to catch (%s): it has lost its teeth on this tree' % m['why'])
        finally:
            shutil.rmtree(d, ignore_errors=True)
            import glob
            import hashlib
            tag = hashlib.sha1(os.path.abspath(d).encode()).hexdigest()[:8]
            for t in glob.glob(os.path.join(exporter.CACHE, 'target', '*-' + tag)):
                shutil.rmtree(t, ignore_errors=True)
    rep.meta['canaries'] = res


if __name__ == '__main__':
    sys.exit(main(sys.argv))

"""C13 - timer epochs: recurring loops are never lost, duplicated or resurrected."""
from .lib import query as q
from .lib.effects import Effects
from .lib.symx import show
from . import common

EVENT = ('param', 0, 2)
TOKEN_FIELD = {'ProbeRandomMember': '0', 'SendIndirectProbe': 'token', 'ChangeSuspectToDown': 'token',
               'PeriodicAnnounce': '0', 'PeriodicGossip': '0', 'PeriodicAnnounceDown': '0'}
PERIODIC = {'PeriodicAnnounce': 'periodic_announce', 'PeriodicGossip': 'periodic_gossip',
            'PeriodicAnnounceDown': 'periodic_announce_to_down_members'}


def r1_bumps(ctx, f, rep, eff):
    rep.rule('C13-R1', 'Foca.timer_token changes only at an epoch boundary and every epoch boundary changes it: each write is '
                       'wrapping_add(self.timer_token, 1); on every path of every function, leaving the Connected state '
                       '(a write of connection_state other than Connected, directly or through a private function that '
                       'only does that part) goes together with exactly one bump and one Probe::clear, and a bump never '
                       'happens without such a write; entering Connected does not touch the token')
    tokw = set(eff.writers_of('Foca', 'timer_token'))
    conw = set(eff.writers_of('Foca', 'connection_state'))
    rep.check(tokw <= conw | {c for w in conw for c in eff.callers(w)}, 'C13-R1', 'Foca',
              'writers of timer_token are functions that write connection_state or their callers', construct='writers',
              facts={'writers': sorted(tokw)})
    leave_only = set()      # private functions that leave Connected without bumping: their callers must do it
    results = {}
    for _round in range(3):
        results = {}
        todo = tokw | conw | {c for lo in leave_only for c in eff.callers(lo)}
        for fn in sorted(todo):
            bs = f.by_name.get(fn, [])
            if len(bs) != 1 or f.is_unknown_helper(bs[0]) or bs[0].kind == 'Closure':
                continue
            b = bs[0]
            rows = []
            for p in ctx.paths(f, b, 'none'):
                if p.end != 'return':
                    continue
                calls = {c['id']: c for c in p.calls()}
                cs = [x for x in p.writes() if x['place'] == q.self_field('connection_state')]
                leaving = [x for x in cs if not q.is_variant(x['value'], 'ConnectionState', 'Connected')]
                via = [c for c in p.calls() if c['res'] in leave_only and c['args'] and q.is_param(c['args'][0], 1)]
                tw = [x for x in p.writes() if x['place'] == q.self_field('timer_token')]
                clr = [c for c in p.calls() if c['res'] == 'probe::Probe::clear' and c['args'][0] == ('ref', q.self_field('probe'), True)]
                badv = []
                for t in tw:
                    v = t['value']
                    good = v[0] == 'call' and calls[v[1]]['res'] == 'core::num::<impl u8>::wrapping_add' and \
                        q.is_self_field_load(calls[v[1]]['args'][0], 'timer_token') and calls[v[1]]['args'][1][2] == 1
                    if not good:
                        badv.append(t)
                rows.append((p, cs, leaving, via, tw, clr, badv))
            results[fn] = (b, rows)
        new_lo = set()
        for fn, (b, rows) in results.items():
            lv = [r for r in rows if r[2] or r[3]]
            if lv and all(not r[4] and not r[5] for r in lv) and not b.reachable:
                new_lo.add(fn)
        if new_lo == leave_only:
            break
        leave_only = new_lo
    n = 0
    for fn, (b, rows) in sorted(results.items()):
        for (p, cs, leaving, via, tw, clr, badv) in rows:
            for t in tw:
                rep.check(t not in badv, 'C13-R1', fn, 'token := wrapping_add(token, 1)', site=t['span'], construct='bump-value')
            if fn in leave_only:
                continue        # judged in its callers
            if leaving or via:
                n += 1
                rep.check(len(tw) == 1 and len(clr) == 1, 'C13-R1', fn, 'leaving Connected (or resetting) bumps the epoch exactly '
                          'once and clears the probe', site=(leaving[0]['span'] if leaving else via[0]['span']),
                          construct='leave-bumps')
            elif tw:
                rep.violation('C13-R1', fn, 'bump-without-leaving', 'the timer token is bumped on a path that does not leave '
                              'the Connected state: every running loop dies without a new epoch being started',
                              site=tw[0]['span'])
            elif cs:
                rep.check(not tw, 'C13-R1', fn, 'entering Connected does not change the epoch', construct='enter-keeps')
    for fn in sorted(leave_only):
        callers = eff.callers(fn)
        rep.check(bool(callers) and all(c in results and c not in leave_only for c in callers), 'C13-R1', fn,
                  'a private function that only leaves the Connected state is completed (bump + clear) by every caller',
                  construct='leave-only', facts={'callers': callers})
    rep.floor('C13-R1', n, 3, 'paths leaving the Connected/initial state')


def arm_of(f, p, upto=None):
    for c in (p.conds() if upto is None else q.conds_before(p, upto)):
        if c['expr'] == ('discr', EVENT, 'runtime::Timer'):
            return q.cond_variants(f, c)
    return None


def token_ok(p, i, variant):
    tokv = ('fieldv', EVENT, TOKEN_FIELD[variant], variant)
    ok_ = None
    for c in q.conds_before(p, i):
        es = q.eq_sides(c['expr'])
        if es and ((es[1] == tokv and q.is_self_field_load(es[2], 'timer_token')) or
                   (es[2] == tokv and q.is_self_field_load(es[1], 'timer_token'))):
            if es[1][0] == 'load' and es[1][2] != 0 or es[2][0] == 'load' and es[2][2] != 0:
                continue   # compared after something may have changed the token: not the entry guard
            ok_ = (q.cond_truth(c) == es[0])
    return ok_


def is_effect(e):
    if e['kind'] == 'write':
        return True
    if e['kind'] != 'call':
        return False
    if e['decl'].startswith('runtime::Runtime::'):
        return True
    return any(a[0] == 'ref' and a[2] for a in e['args'])


def r2_stale_inert(ctx, f, rep):
    rep.rule('C13-R2', 'in handle_timer, for every Timer variant carrying a token (all but RemoveDown) every effect of the arm '
                       'is guarded by token == self.timer_token; a stale timer returns Ok(()) having done nothing')
    b = f.fn('Foca::handle_timer')
    seen = {k: 0 for k in TOKEN_FIELD}
    stale = {k: 0 for k in TOKEN_FIELD}
    allv = set(f.variant_names('runtime::Timer'))
    rep.check(allv == set(TOKEN_FIELD) | {'RemoveDown'}, 'C13-R2', 'runtime::Timer', 'known Timer variants', construct='variants',
              facts={'variants': sorted(allv)})
    for p in ctx.paths(f, b, 'none'):
        arm = arm_of(f, p)
        if not arm or len(arm) != 1:
            continue
        v = next(iter(arm))
        if v not in TOKEN_FIELD:
            continue
        any_effect = False
        for i, e in enumerate(p.events):
            if is_effect(e):
                any_effect = True
                seen[v] += 1
                rep.check(token_ok(p, i, v) is True, 'C13-R2', b.nname, '%s: effect %s only for the current epoch'
                          % (v, (e.get('res') or e.get('decl') or 'write').split('::')[-1]), site=e['span'],
                          construct='epoch-guard:%s' % v)
        if p.end == 'return' and p.ret[0] == 'agg' and p.ret[3] == 'Err' and token_ok(p, len(p.events), v) is not True:
            # a timer is answered with an error only after its token was found current: a stale one is ignored silently
            # (a state test placed in front of the token test turns every late timer of an old epoch into an error)
            rep.violation('C13-R2', b.nname, 'error-before-token-test:%s' % v, '%s: an error is returned on a path that has '
                          'not established that the token is current' % v, facts={'ret': show(p.ret, b)[:80]})
        if token_ok(p, len(p.events), v) is False:
            stale[v] += 1
            rep.check(not any_effect and p.end == 'return' and p.ret[0] == 'agg' and p.ret[3] == 'Ok', 'C13-R2', b.nname,
                      '%s with a stale token: Ok(()) and no effect' % v, construct='stale:%s' % v)
    for v in TOKEN_FIELD:
        rep.floor('C13-R2', seen[v], 1, 'effects in arm ' + v)
        rep.floor('C13-R2', stale[v], 1, 'stale-token paths in arm ' + v)


def r3_loops(ctx, f, rep):
    rep.rule('C13-R3', 'loops start once per epoch: ProbeRandomMember is submitted exactly once in become_connected and exactly '
                       'once on every normal path of probe_random_member (including the IncompleteProbeCycle return); each '
                       'periodic timer has one arming site in become_connected guarded by its config being Some and one '
                       're-arming site in its own handler guarded by token, Connected and config Some, stamped with '
                       'self.timer_token and the configured frequency, before any fallible call of the arm; '
                       'SendIndirectProbe is submitted only after Probe::start')
    # all submit_after sites by variant and function
    sites = {}
    for b in f.bodies:
        if not b.nname.startswith('Foca::') or f.is_unknown_helper(b):
            continue        # (helpers that do not exist on the reference tree are seen inlined in their callers)
        for p in ctx.paths(f, b, 'none'):
            for e in p.calls():
                if e['decl'] == 'runtime::Runtime::submit_after':
                    sites.setdefault(q.variant_name(e['args'][1]), set()).add((b.nname, e['tblock']))
    want = {'ProbeRandomMember': {'Foca::become_connected', 'Foca::probe_random_member'},
            'SendIndirectProbe': {'Foca::probe_random_member'}, 'ChangeSuspectToDown': {'Foca::probe_random_member'},
            'RemoveDown': {'Foca::handle_apply_summary'},
            'PeriodicAnnounce': {'Foca::become_connected', 'Foca::handle_timer'},
            'PeriodicGossip': {'Foca::become_connected', 'Foca::handle_timer'},
            'PeriodicAnnounceDown': {'Foca::become_connected', 'Foca::handle_timer'}}
    for v, fns in want.items():
        got = {s[0] for s in sites.get(v, set())}
        rep.check(got == fns and len(sites.get(v, ())) == len(fns), 'C13-R3', 'runtime::Timer::' + v,
                  'submitted at exactly one site in each of %s' % sorted(fns), construct='sites:' + v,
                  facts={'sites': sorted(s[0] for s in sites.get(v, ()))})
    rep.check(set(sites) <= set(want), 'C13-R3', 'runtime::Timer', 'no other timer kind is submitted', construct='kinds',
              facts={'kinds': sorted(str(k) for k in sites)})
    # become_connected: exactly once each, periodic ones iff configured
    b = f.fn('Foca::become_connected')
    n = 0
    for p in ctx.paths(f, b, 'none'):
        if p.end != 'return':
            continue
        n += 1
        subs = [e for e in p.calls() if e['decl'] == 'runtime::Runtime::submit_after']
        kinds = [q.variant_name(e['args'][1]) for e in subs]
        cfgs = {}
        for c in p.conds():
            ex = c['expr']
            if ex[0] == 'discr' and ex[1][0] == 'load':
                root, names = q.field_path(ex[1][1])
                if names[:1] == ['config'] and len(names) == 2:
                    cfgs[names[1]] = q.cond_variants(f, c) == {'Some'}
        good = kinds.count('ProbeRandomMember') == 1
        for v, fld in PERIODIC.items():
            good = good and (kinds.count(v) == 1) == (cfgs.get(fld) is True) and fld in cfgs
        for e in subs:
            t = e['args'][1]
            tok = t[5][0]
            good = good and q.is_self_field_load(tok, 'timer_token')
            v = q.variant_name(t)
            if v == 'ProbeRandomMember':
                good = good and q.loads_self_field(e['args'][2], 'config', 'probe_period')
            else:
                good = good and q.loads_self_field(e['args'][2], 'config', PERIODIC[v]) and \
                    q.mentions(e['args'][2], lambda x: x[0] == 'load' and q.field_path(x[1])[1][-1:] == ['frequency'])
        rep.check(good, 'C13-R3', b.nname, 'become_connected arms the probe loop once and each configured periodic task once, '
                  'with the current token and the configured delays', construct='arm:%s' % sorted(cfgs.items()),
                  facts={'kinds': kinds})
    rep.floor('C13-R3', n, 8, 'become_connected paths (2^3 configurations)')
    # the probe tick itself: with a current token and while Connected the handler always goes into probe_random_member
    # (which re-arms, below) - nothing else (a member count, a flag) can end the loop
    hb0 = f.fn('Foca::handle_timer')
    nt = 0
    for p in ctx.paths(f, hb0, 'none'):
        arm = arm_of(f, p)
        if arm != {'ProbeRandomMember'} or p.end != 'return':
            continue
        tok = token_ok(p, len(p.events), 'ProbeRandomMember')
        conn = None
        for c in p.conds():
            es = q.eq_sides(c['expr'])
            if q.conn_state_test(f, c, 'Connected') is not None:
                conn = q.conn_state_test(f, c, 'Connected')
        if tok is True and conn is True:
            nt += 1
            rep.check(any(e['res'] == 'Foca::probe_random_member' for e in p.calls()), 'C13-R3', hb0.nname,
                      'a current probe tick of a Connected instance always runs probe_random_member (which re-arms the loop)',
                      construct='probe-tick-always-probes')
    rep.floor('C13-R3', nt, 1, 'current-token Connected paths of the ProbeRandomMember arm')
    # probe_random_member: exactly one ProbeRandomMember on every normal path
    b = f.fn('Foca::probe_random_member')
    n = 0
    for p in ctx.paths(f, b, 'none'):
        if p.end != 'return' or q.path_is_error_propagation(p):
            continue
        n += 1
        subs = [e for e in p.calls() if e['decl'] == 'runtime::Runtime::submit_after' and
                q.variant_name(e['args'][1]) == 'ProbeRandomMember']
        good = len(subs) == 1 and q.is_self_field_load(subs[0]['args'][1][5][0], 'timer_token') and \
            q.loads_self_field(subs[0]['args'][2], 'config', 'probe_period')
        rep.check(good, 'C13-R3', b.nname, 'the probe loop re-arms itself exactly once (current token, probe_period), also when '
                  'it reports IncompleteProbeCycle', construct='rearm-probe:%s' % (show(p.ret, b)[:40]))
        sip = [i for i, e in enumerate(p.events) if e['kind'] == 'call' and e['decl'] == 'runtime::Runtime::submit_after'
               and q.variant_name(e['args'][1]) == 'SendIndirectProbe']
        st = [i for i, e in enumerate(p.events) if e['kind'] == 'call' and e['res'] == 'probe::Probe::start']
        rep.check(len(sip) == len(st) and all(a > b_ for a, b_ in zip(sip, st)), 'C13-R3', b.nname,
                  'SendIndirectProbe is submitted exactly when a round was started, after Probe::start',
                  construct='indirect-after-start:%d' % len(st))
        for i in sip:
            e = p.events[i]
            t = e['args'][1]
            good = q.is_self_field_load(q.agg_field(t, 'token'), 'timer_token') and \
                q.loads_self_field(e['args'][2], 'config', 'probe_rtt')
            rep.check(good, 'C13-R3', b.nname, 'SendIndirectProbe carries the current token and fires after probe_rtt',
                      site=e['span'], construct='indirect-timer')
    rep.floor('C13-R3', n, 4, 'normal paths of probe_random_member')
    # periodic handlers
    hb = f.fn('Foca::handle_timer')
    cnt = {v: 0 for v in PERIODIC}
    for p in ctx.paths(f, hb, 'none'):
        arm = arm_of(f, p)
        if not arm or len(arm) != 1 or next(iter(arm)) not in PERIODIC:
            continue
        v = next(iter(arm))
        if p.end != 'return':
            continue
        calls = {c['id']: c for c in p.calls()}
        tok = token_ok(p, len(p.events), v)
        conn = None
        cfg = None
        for c in p.conds():
            es = q.eq_sides(c['expr'])
            if q.conn_state_test(f, c, 'Connected') is not None:
                conn = q.conn_state_test(f, c, 'Connected')
            ex = c['expr']
            if ex[0] == 'discr' and ex[1][0] == 'load' and q.field_path(ex[1][1])[1] == ['config', PERIODIC[v]]:
                cfg = q.cond_variants(f, c) == {'Some'}
        subs = [(i, e) for i, e in enumerate(p.events) if e['kind'] == 'call' and e['decl'] == 'runtime::Runtime::submit_after']
        should = tok is True and conn is True and cfg is True
        cnt[v] += 1
        # re-armed iff all three hold; *not* re-arming must be justified by one of the three being false - a path that
        # leaves the arm without the timer for any other reason (an empty backlog, say) loses the loop for good
        should_not = tok is False or conn is False or cfg is False
        good = (len(subs) == 1 and should) or (len(subs) == 0 and should_not)
        if subs:
            i, e = subs[0]
            t = e['args'][1]
            # the token it re-arms with is the current one: read from self, or the event's own token on a path that has
            # just shown it equal to self.timer_token and has not called anything that could bump it since
            tokval = t[5][0]
            cur = q.is_self_field_load(tokval, 'timer_token') or (
                tokval == ('fieldv', EVENT, TOKEN_FIELD[v], v) and tok is True and
                not any(x['kind'] == 'call' and any(a == ('ref', q.SELF, True) for a in x['args']) for x in p.events[:i]))
            good = good and q.variant_name(t) == v and cur and \
                q.mentions(e['args'][2], lambda x: x[0] == 'load' and q.field_path(x[1])[1][-1:] == ['frequency'] and
                           q.field_path(x[1])[1][:2] == ['config', PERIODIC[v]])
            fallible = [j for j, x in enumerate(p.events) if x['kind'] == 'call' and x['res'] in
                        ('Foca::choose_and_send', 'Foca::announce_to_down', 'Foca::send_message', 'Foca::gossip')]
            good = good and all(j > i for j in fallible)
        rep.check(good, 'C13-R3', hb.nname, '%s re-arms itself exactly once iff token is current, Connected and still '
                  'configured; before doing anything that can fail' % v,
                  construct='rearm:%s:%s:%s:%s' % (v, tok, conn, cfg))
    for v in PERIODIC:
        rep.floor('C13-R3', cnt[v], 3, 'paths through the %s arm' % v)


def r4_set_config(ctx, f, rep):
    rep.rule('C13-R4', 'set_config cannot create or retime a loop: the write to Foca.config is unreachable on any path where '
                       'probe_period or probe_rtt differ, or where a periodic task would go from None to Some; the error '
                       'paths write nothing')
    b = f.fn('Foca::set_config')
    new = ('param', 0, 2)
    n_ok = n_err = 0
    for p in ctx.paths(f, b, 'none'):
        if p.end != 'return':
            continue
        calls = {c['id']: c for c in p.calls()}
        wrote = [w for w in p.writes() if w['place'] == q.self_field('config')]
        same = {}
        was_none = {}
        new_some = {}
        for c in p.conds():
            es = q.eq_sides(c['expr'])
            if es:
                for a, b_ in ((es[1], es[2]), (es[2], es[1])):
                    if a[0] == 'load' and q.field_path(a[1])[1][:1] == ['config'] and b_[0] == 'fieldv' and b_[1] == new \
                            and q.field_path(a[1])[1][1:] == [b_[2]]:
                        same[b_[2]] = (q.cond_truth(c) == es[0])
            ex, truth = q.norm_bool(c)      # (the last operand of the chain may reach the test negated, through a local)
            if truth is not None and ex[0] == 'call' and ex[1] in calls:
                cc = calls[ex[1]]
                short = cc['res'].split('::')[-1]
                if short in ('is_none', 'is_some') and cc['args'][0][0] == 'ref':
                    root, names = q.field_path(cc['args'][0][1])
                    isnone = truth if short == 'is_none' else not truth
                    if names[:1] == ['config'] and root == q.SELF:
                        was_none[names[1]] = isnone
                    elif root == ('local', 0, 2):
                        new_some[names[0]] = not isnone
        if wrote:
            n_ok += 1
            good = same.get('probe_period') is True and same.get('probe_rtt') is True
            for fld in PERIODIC.values():
                enabling = was_none.get(fld) is True and new_some.get(fld) is not False
                good = good and fld in was_none and not enabling
            good = good and wrote[0]['value'] == new and p.ret[0] == 'agg' and p.ret[3] == 'Ok'
            rep.check(good, 'C13-R4', b.nname, 'config is replaced only when probe timings are unchanged and no periodic task is '
                      'being enabled', site=wrote[0]['span'], construct='accept', facts={'same': same, 'was_none': was_none,
                                                                                        'new_some': new_some})
        else:
            n_err += 1
            rep.check(not p.writes() and p.ret[0] == 'agg' and p.ret[3] == 'Err' and
                      q.is_variant(p.ret[5][0], 'Error', 'InvalidConfig'), 'C13-R4', b.nname,
                      'a refused configuration changes nothing and yields InvalidConfig', construct='refuse')
    rep.floor('C13-R4', n_ok, 8, 'accepting paths of set_config')
    rep.floor('C13-R4', n_err, 5, 'refusing paths of set_config')


def r5_ordering(ctx, f, rep):
    rep.rule('C13-R5', 'Timer::seq is injective over the variants and orders SendIndirectProbe before ProbeRandomMember; '
                       'PartialOrd/Ord compare seq only')
    b = f.fn('runtime::Timer::seq')
    tab = {}
    for p in ctx.paths(f, b, 'none'):
        vs = None
        for c in p.conds():
            cv = q.cond_variants(f, c)
            if cv:
                vs = cv if vs is None else vs & cv
        if vs and len(vs) == 1 and p.ret[0] == 'const':
            tab[next(iter(vs))] = p.ret[2]
    allv = set(f.variant_names('runtime::Timer'))
    rep.check(set(tab) == allv and len(set(tab.values())) == len(tab), 'C13-R5', b.nname, 'seq is injective over all variants',
              construct='seq-injective', facts=tab)
    rep.check(tab.get('SendIndirectProbe', 99) < tab.get('ProbeRandomMember', -1), 'C13-R5', b.nname,
              'SendIndirectProbe sorts before ProbeRandomMember', construct='seq-order')
    pb = f.fn('<runtime::Timer as core::cmp::PartialOrd>::partial_cmp')
    import re
    INTCMP = re.compile(r'(PartialOrd|Ord) for u8>::(partial_cmp|cmp)$')
    for p in ctx.paths(f, pb, 'none'):
        if p.end != 'return':
            continue
        calls = p.calls()
        seqs = [c for c in calls if c['res'] == 'runtime::Timer::seq']
        cmpc = [c for c in calls if INTCMP.search(c['res'])]
        isself = lambda a: a in (('ref', q.SELF, False), ('param', 0, 1))
        isother = lambda a: a in (('ref', ('deref', ('param', 0, 2)), False), ('param', 0, 2))
        good = len(seqs) == 2 and len(cmpc) == 1 and len(calls) == 3
        if good:
            ss = [s_ for s_ in seqs if isself(s_['args'][0])]
            so = [s_ for s_ in seqs if isother(s_['args'][0])]
            good = len(ss) == 1 and len(so) == 1 and cmpc[0]['derefs'] == [('call', ss[0]['id']), ('call', so[0]['id'])]
            r = p.ret
            if cmpc[0]['res'].endswith('partial_cmp'):
                good = good and r == ('call', cmpc[0]['id'])
            else:
                good = good and r[0] == 'agg' and r[3] == 'Some' and r[5][0] == ('call', cmpc[0]['id'])
        rep.check(good, 'C13-R5', pb.nname, 'partial_cmp compares self.seq() with other.seq(), in this order, and nothing else',
                  construct='partial_cmp')
    ob = f.fn('<runtime::Timer as core::cmp::Ord>::cmp')
    for p in ctx.paths(f, ob, 'none'):
        names = [c['res'].split('::')[-1] for c in p.calls()]
        rep.check(names == ['partial_cmp', 'expect'], 'C13-R5', ob.nname, 'cmp delegates to partial_cmp', construct='cmp',
                  facts={'calls': names})


def r6_validate(ctx, f, rep):
    rep.rule('C13-R6', 'IncompleteProbeCycle is returned iff Probe::validate() is false, whose table is direct.is_none() || '
                       'reached_indirect_probe_stage; the stage flag is set by the SendIndirectProbe handler before any early '
                       'return other than the token check')
    vb = f.fn('probe::Probe::validate')
    tab = []
    for p in ctx.paths(f, vb, 'small'):
        tab.append(([(q.describe(p, c['expr'], vb), c['taken']) for c in p.conds()], show(p.ret, vb)))
    good = len(tab) == 2 and any(r == 'true' for c, r in tab) and any('reached_indirect_probe_stage' in r for c, r in tab)
    rep.check(good, 'C13-R6', vb.nname, 'validate() = direct.is_none() || reached_indirect_probe_stage', construct='validate-table',
              facts={'table': tab})
    b = f.fn('Foca::probe_random_member')
    n = 0
    for p in ctx.paths(f, b, 'none'):
        if p.end != 'return' or q.path_is_error_propagation(p):
            continue
        calls = {c['id']: c for c in p.calls()}
        valid = None
        for c in p.conds():
            ex, tr = q.norm_bool(c)         # (any number of negations folded: `!validate()`, `ensure(!was_incomplete, ..)`)
            if tr is not None and ex[0] == 'call' and ex[1] in calls and calls[ex[1]]['res'] == 'probe::Probe::validate':
                valid = tr
                break
        if valid is None:
            continue
        n += 1
        is_err = p.ret[0] == 'agg' and p.ret[3] == 'Err' and q.is_variant(p.ret[5][0], 'Error', 'IncompleteProbeCycle')
        rep.check(is_err == (not valid), 'C13-R6', b.nname, 'IncompleteProbeCycle iff the previous round skipped its indirect stage',
                  construct='incomplete-iff:%s' % valid)
    rep.floor('C13-R6', n, 4, 'probe_random_member paths testing validate()')
    hb = f.fn('Foca::handle_timer')
    n = 0
    for p in ctx.paths(f, hb, 'none'):
        arm = arm_of(f, p)
        if arm != {'SendIndirectProbe'} or p.end != 'return':
            continue
        tok = token_ok(p, len(p.events), 'SendIndirectProbe')
        marks = [c for c in p.calls() if c['res'] == 'probe::Probe::mark_indirect_probe_stage_reached']
        n += 1
        rep.check((len(marks) == 1) == (tok is True), 'C13-R6', hb.nname, 'the indirect stage is marked reached on every '
                  'current-epoch firing of SendIndirectProbe, whatever happens next', construct='stage-marked:%s' % tok)
        if marks:
            first = [c for c in p.calls()][0]
            rep.check(first is marks[0], 'C13-R6', hb.nname, 'marking is the first thing the handler does after the token check',
                      construct='stage-marked-first')
    rep.floor('C13-R6', n, 4, 'SendIndirectProbe paths')


def check(ctx):
    rep = ctx.report
    rep.explanation = (
        'Static decision of the epoch mechanism: who bumps the token and that every leave-Connected write is paired with a '
        'bump and a probe clear (R1); every effect of every token-carrying timer arm is guarded by the token check, and a '
        'stale timer does nothing (R2); each loop is armed once per epoch and re-arms itself exactly once per firing '
        'under the stated guards, before anything fallible (R3); set_config cannot enable or retime a loop (R4); the '
        'ordering helper (R5); IncompleteProbeCycle iff validate() is false and the stage flag discipline (R6). Paths '
        'leaving a handler through `?` on a failing user codec are outside the claim (the code itself flags this).')
    rep.not_decided = ['deadline-order delivery as a schedule property (decided as validate()/stage-flag structure only)']
    rep.assumptions = ['the runtime delivers each scheduled timer exactly once', 'user Codec does not fail (well-behaved user code)']
    for cfgname in ctx.configs(quick=('base',), thorough=('base', 'wire', 'nostd')):
        f = ctx.facts(cfgname)
        rep.cur_config = cfgname
        from . import common as _cm
        _cm.check_helpers(ctx, f, rep, 'C13-R0', {'Probe::mark', 'Probe::is_probing'})
        from . import common as _common
        _common.check_frame(f, rep, 'C13-R0')
        eff = Effects(f)
        common.check_derives(f, rep, 'C13-R0')
        r1_bumps(ctx, f, rep, eff)
        r2_stale_inert(ctx, f, rep)
        r3_loops(ctx, f, rep)
        r4_set_config(ctx, f, rep)
        r5_ordering(ctx, f, rep)
        r6_validate(ctx, f, rep)
        from . import c10, c11
        from .c09 import _Rename
        c10.r2_identity(ctx, f, _Rename(rep, 'C10-R2', 'C13-R1'), eff)
        c11.r2_creation(ctx, f, _Rename(rep, 'C11-R2', 'C13-R3'))
    rep.cur_config = None

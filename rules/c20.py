"""C20 - bundled codecs round-trip exactly and fail cleanly (configuration `wire`).

Decided: the fail-cleanly and consume-exactly clauses for the code that lives in this repository.  Not decided:
value-level round-trip equality through bincode/postcard (third-party numeric behaviour over derived serde impls).
"""
from .lib import query as q
from .lib.budget import Budget, buffer_id
from .lib.symx import show
from .lib.facts import strip_generics
from . import c07
from .c09 import _Rename

PC = '<codec::postcard_impl::PostcardCodec as codec::Codec>::'
BC = '<codec::bincode_impl::BincodeCodec as codec::Codec>::'
WB = '<codec::postcard_impl::WrappedBuf as postcard::ser_flavors::Flavor>::'


def r1_flavor(ctx, f, rep):
    rep.rule('C20-R1', 'bounded flavor: WrappedBuf::try_push writes one byte only under has_remaining_mut(), try_extend writes '
                       'the slice only under remaining_mut() >= data.len(); the failing edges return SerializeBufferFull '
                       'without writing and are taken only when the data does not fit (an exact fit is written); finalize is a no-op')
    for m, need in (('try_push', 'one'), ('try_extend', 'slice')):
        b = f.fn(WB + m)
        n = 0
        for p in ctx.paths(f, b, 'none'):
            calls = {c['id']: c for c in p.calls()}
            puts = [(i, e) for i, e in enumerate(p.events) if e['kind'] == 'call' and e['decl'].startswith('bytes::BufMut::put_')]
            n += 1
            if puts:
                i, e = puts[0]
                if need == 'one':
                    okc, fact = Budget(p, buffer_id(e['args'][0])).covers(i, 1, [])
                    good = e['decl'] == 'bytes::BufMut::put_u8' and e['args'][1] == ('param', 0, 2)
                else:
                    okc, fact = Budget(p, buffer_id(e['args'][0])).covers(i, 0, [e['args'][1]])
                    good = e['decl'] == 'bytes::BufMut::put_slice' and e['args'][1] in (('param', 0, 2), ('ref', ('deref', ('param', 0, 2)), False))
                good = good and okc and len(puts) == 1 and e['args'][0] == ('ref', q.self_field('0'), True) and \
                    p.ret[0] == 'agg' and p.ret[3] == 'Ok'
                rep.check(good, 'C20-R1', b.nname, 'writes exactly the given data, only when it fits', site=e['span'],
                          construct='bounded-write')
            else:
                good = p.end == 'return' and p.ret[0] == 'agg' and p.ret[3] == 'Err' and \
                    q.variant_name(p.ret[5][0]) == 'SerializeBufferFull' and not p.writes()
                rep.check(good, 'C20-R1', b.nname, 'no room: SerializeBufferFull and nothing written', construct='full')
                # ... and only when there really is no room: data that fits exactly must be written
                own = lambda v, name: v[0] == 'call' and v[1] in calls and calls[v[1]]['decl'] == 'bytes::BufMut::' + name \
                    and calls[v[1]]['args'][0][:2] == ('ref', q.self_field('0'))
                islen = lambda v: v[0] == 'call' and v[1] in calls and calls[v[1]]['res'].endswith('::len') and \
                    calls[v[1]]['args'][0] in (('param', 0, 2), ('ref', ('deref', ('param', 0, 2)), False))
                just = False
                for c in p.conds():
                    e, t = q.norm_bool(c)
                    nrm = q.cmp_norm(c)
                    if need == 'one':
                        just = just or (t is False and own(e, 'has_remaining_mut')) or \
                            q.zero_test(c, lambda v: own(v, 'remaining_mut')) == 'zero'
                    else:
                        just = just or (nrm is not None and nrm[0] == 'gt' and islen(nrm[1]) and own(nrm[2], 'remaining_mut'))
                rep.check(just, 'C20-R1', b.nname, 'refuses only when the data does not fit (%s)' %
                          ('no byte left' if need == 'one' else 'data.len() > remaining_mut()'), construct='full-exact',
                          facts={'conds': [q.describe(p, c['expr'], b) for c in p.conds()]})
        rep.floor('C20-R1', n, 2, b.nname + ' paths')
    b = f.fn(WB + 'finalize')
    for p in ctx.paths(f, b, 'none'):
        rep.check(not p.calls() and p.ret[0] == 'agg' and p.ret[3] == 'Ok', 'C20-R1', b.nname, 'finalize does nothing',
                  construct='finalize')


def r2_cursor(ctx, f, rep):
    rep.rule('C20-R2', 'postcard decoders: the cursor is advanced by remaining_before - rest.len() where rest is the tail returned '
                       'by take_from_bytes over buf.chunk(); nothing else consumes the buffer; a decode error returns before '
                       'touching the cursor')
    for m in ('decode_header', 'decode_member'):
        b = f.fn(PC + m)
        n = 0
        for p in ctx.paths(f, b, 'none'):
            if p.end != 'return':
                continue
            n += 1
            calls = {c['id']: c for c in p.calls()}
            adv = [e for e in p.calls() if e['decl'] == 'bytes::Buf::advance']
            take = [e for e in p.calls() if e['res'] == 'postcard::take_from_bytes']
            muts = [e for e in p.calls() if any(a[0] == 'ref' and a[2] for a in e['args'])]
            if q.path_is_error_propagation(p):
                rep.check(not adv and not muts, 'C20-R2', b.nname, 'decode error: cursor untouched', construct='error-clean')
                continue
            good = len(adv) == 1 and len(take) == 1 and muts == adv
            if good:
                amt = adv[0]['args'][1]
                good = amt[0] == 'binop' and amt[1] == 'Sub'
                if good:
                    rem, after = amt[2], amt[3]
                    good = rem[0] == 'call' and calls[rem[1]]['decl'] == 'bytes::Buf::remaining' and \
                        [k for k, e in enumerate(p.events) if e['kind'] == 'call' and e['id'] == rem[1]][0] < \
                        [k for k, e in enumerate(p.events) if e is take[0]][0]
                    # after = len(rest) / remaining(rest) with rest = (take result).1
                    good = good and after[0] == 'call' and calls[after[1]]['res'].split('::')[-1] in ('len', 'remaining')
                    if good:
                        a0 = calls[after[1]]['args'][0]
                        d0 = calls[after[1]]['derefs'][0]
                        pred = lambda x: x[0] == 'fieldv' and x[2] == '1' and x[1][0] == 'fieldv' and x[1][3] == 'Continue'
                        good = q.mentions(a0, pred) or (d0 is not None and q.mentions(d0, pred))
                    ch = take[0]['args'][0]
                    good = good and ch[0] == 'ref' and ch[1][0] == 'deref' and ch[1][1][0] == 'call' and \
                        calls[ch[1][1][1]]['decl'] == 'bytes::Buf::chunk'
                    # returned value is the decoded payload (.0 of the tuple)
                    good = good and p.ret[0] == 'agg' and p.ret[3] == 'Ok' and p.ret[5][0][0] == 'fieldv' and p.ret[5][0][2] == '0'
            rep.check(good, 'C20-R2', b.nname, 'advance(remaining - rest.len()) and return the decoded value', construct='cursor')
        rep.floor('C20-R2', n, 2, b.nname + ' returning paths')


def shape(p):
    """Normalised list of (callee short name, interesting arg shapes) for sibling comparison."""
    out = []
    for e in p.events:
        if e['kind'] == 'call':
            out.append(e['res'] or e['decl'])
        elif e['kind'] == 'cond':
            out.append('if:%s' % e['taken'])
        elif e['kind'] == 'assert':
            out.append('assert:' + e['akind'])
    return out


def r3_siblings(ctx, f, rep):
    rep.rule('C20-R3', 'sibling agreement: BincodeCodec\'s four methods all pass self.0 as configuration and use '
                       'encode_into_std_write(writer()) / decode_from_std_read(reader()) on the buffer they are given; '
                       'PostcardCodec\'s use serialize_with_flavor(WrappedBuf(buf)) / take_from_bytes; header and member '
                       'paths are structurally identical')
    for pre, enc, dec in ((BC, 'bincode::serde::encode_into_std_write', 'bincode::serde::decode_from_std_read'),
                          (PC, 'postcard::serialize_with_flavor', 'postcard::take_from_bytes')):
        shapes = {}
        for m in ('encode_header', 'encode_member', 'decode_header', 'decode_member'):
            b = f.fn(pre + m)
            ps = ctx.paths(f, b, 'none')
            shapes[m] = sorted(map(tuple, (shape(p) for p in ps)))
            for p in ps:
                if p.end != 'return':
                    continue
                calls = p.calls()
                tp = [c for c in calls if c['res'] in (enc, dec)]
                want = enc if m.startswith('encode') else dec
                good = len(tp) == 1 and tp[0]['res'] == want
                if good and pre == BC:
                    # config argument is self.0, stream is writer()/reader() of the buffer parameter
                    cfg = tp[0]['args'][-1]
                    good = cfg == ('load', q.self_field('0'), 0)
                    wr = [c for c in calls if c['decl'] in ('bytes::BufMut::writer', 'bytes::Buf::reader')]
                    good = good and len(wr) == 1 and q.is_param(wr[0]['args'][0], 3 if m.startswith('encode') else 2)
                    if m.startswith('encode'):
                        good = good and q.is_param(tp[0]['args'][0], 2)
                    # the stream handed to bincode is that very writer()/reader() adapter - nothing that buffers or
                    # reads ahead sits in between (the cursor must move by exactly what one item takes)
                    k = 1 if m.startswith('encode') else 0
                    sv = (tp[0].get('derefs') or [None, None])[k]
                    good = good and len(wr) == 1 and sv is not None and q.pre_havoc(sv) == ('call', wr[0]['id'])
                if good and pre == PC and m.startswith('encode'):
                    fl = tp[0]['args'][1]
                    good = q.is_param(tp[0]['args'][0], 2) and \
                        fl[0] == 'agg' and fl[2].endswith('WrappedBuf') and q.is_param(fl[5][0], 3)
                if not q.path_is_error_propagation(p) or tp:
                    rep.check(good, 'C20-R3', b.nname, 'uses %s on the buffer/value it was given' % want.split('::')[-1],
                              construct='third-party-entry')
        rep.check(shapes['encode_header'] == shapes['encode_member'], 'C20-R3', pre + 'encode_*',
                  'encode_header and encode_member are structurally identical', construct='encode-siblings')
        def norm(shs):
            lens = {'core::slice::<impl [T]>::len', '<&[u8] as bytes::Buf>::remaining'}
            return [['LEN' if x in lens else x for x in s_] for s_ in shs]
        rep.check(norm(shapes['decode_header']) == norm(shapes['decode_member']),
                  'C20-R3', pre + 'decode_*', 'decode_header and decode_member are structurally identical',
                  construct='decode-siblings')


def r4_derives(ctx, f, rep):
    rep.rule('C20-R4', 'each wire type (Header, Message, Member, State) has both Serialize and Deserialize impls, both produced '
                       'by derive expansion (no hand-written half)')
    for ty in ('payload::Header', 'payload::Message', 'member::Member', 'member::State'):
        mod = ty.split('::')[0]
        ser = [b for b in f.bodies if b.nname == '%s::_::<impl config::_::_serde::Serialize for %s>::serialize' % (mod, ty)
               or (b.nname.endswith('Serialize for %s>::serialize' % ty))]
        de = [b for b in f.bodies if b.nname.endswith('Deserialize for %s>::deserialize' % ty)]
        good = len(ser) == 1 and len(de) == 1
        if good:
            good = all('derive(' in b.raw['span']['mac'] and b.raw['span']['exp'] for b in ser + de)
        rep.check(good, 'C20-R4', ty, 'Serialize and Deserialize are both #[derive]d', construct='serde-derives',
                  facts={'serialize': [b.raw['span']['mac'] for b in ser], 'deserialize': [b.raw['span']['mac'] for b in de]})
        # ... and plain: no field attribute makes the two halves disagree on which fields are on the wire.  The formats
        # used here are positional, so a field skipped by the writer (`skip_serializing_if`), defaulted by the reader
        # (`default`) or routed through a hand-written function (`with`, `serialize_with`, ...) breaks the round trip.
        gen = [b for b in f.bodies if ('_serde' in b.nname or '::_::' in b.nname) and
               ('for %s>' % ty in b.nname or 'for %s ' % ty in b.nname)]
        odd = []
        for b in gen:
            for _, t in f.calls(b):
                nm = strip_generics(t['res'] or t['decl'])
                tgt = f.by_name.get(nm, [])
                if nm.endswith('::skip_field') or nm.endswith('SerializeStruct::skip_field'):
                    odd.append((b.nname, nm))
                elif nm.endswith('core::default::Default>::default') or nm == 'core::default::Default::default':
                    odd.append((b.nname, nm))
                elif tgt and not any(('_serde' in x.nname or '::_::' in x.nname) for x in tgt):
                    odd.append((b.nname, nm))
        rep.check(not odd and len(gen) >= 2, 'C20-R4', ty, 'the derived impls are plain: no field is skipped, defaulted or '
                  'routed through a hand-written function', construct='serde-plain',
                  facts={'generated_bodies': len(gen), 'offending': sorted(set(odd))[:6]})


def check(ctx):
    rep = ctx.report
    rep.explanation = (
        'Static decision, on the configuration with both codecs enabled, of: the bounded postcard flavor (R1), the cursor '
        'arithmetic of the postcard decoders (R2), sibling agreement of the four methods of each codec and their use of '
        'the third-party entry points on exactly the buffer/value given (R3), symmetric serde derives on the wire types '
        '(R4), and that Foca\'s datagram stays well-formed when encoding fails mid-feed (R5 = C07-R4 re-run). Value-level '
        'round-trip equality through bincode/postcard is NOT decided (third-party numeric behaviour).')
    rep.not_decided = ['value-level round-trip equality (encode then decode yields an equal value) - depends on bincode/postcard',
                       'absence of panics inside bincode/postcard on arbitrary bytes']
    rep.assumptions = ['postcard::take_from_bytes returns a suffix of its input as the rest',
                       'bincode Read/Write adapters of bytes advance the underlying buffer by what they consume/produce']
    for cfgname in ctx.configs(quick=('wire',), thorough=('wire', 'all')):
        f = ctx.facts(cfgname)
        rep.cur_config = cfgname
        r1_flavor(ctx, f, rep)
        r2_cursor(ctx, f, rep)
        r3_siblings(ctx, f, rep)
        r4_derives(ctx, f, rep)
        rep.rule('C20-R5', 'Foca stays well-formed when encoding fails mid-feed: truncate-and-stop (C07-R4), the size limit set once (C07-R3)')
        c07.r4_count(ctx, f, _Rename(rep, 'C07-R4', 'C20-R5'))
        # ... and nothing touches the datagram buffer (or its limit) but the writers of the sections (C07-R3)
        c07.r3_sections(ctx, f, _Rename(rep, 'C07-R3', 'C20-R5'), c07.tables(ctx, f, _Rename(rep, 'C07-R3', 'C20-R5')))
    rep.cur_config = None

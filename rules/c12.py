"""C12 - a probe succeeds only on genuine evidence; indirect probing is routed correctly."""
from .lib import query as q
from .lib.effects import Effects
from .lib.facts import strip_generics
from .lib.symx import show
from . import common

PROBE = 'probe::Probe'
HDR_ROOT = None


def pf(name):
    return q.self_field(name)


def closure_eq_table(ctx, f, clo, side_pred_a, side_pred_b):
    """closure is a single-path `a == b` with sides satisfying the two predicates (any order)."""
    if not (clo[0] == 'agg' and clo[1] == 'closure'):
        return False
    cb = f.fn(clo[2])
    ps = ctx.paths(f, cb, 'small')
    if len(ps) != 1 or ps[0].ret[0] != 'binop' or ps[0].ret[1] != 'Eq':
        return False
    a, b = ps[0].ret[2], ps[0].ret[3]
    return (side_pred_a(cb, ps[0], a) and side_pred_b(cb, ps[0], b)) or (side_pred_a(cb, ps[0], b) and side_pred_b(cb, ps[0], a))


def is_param_id(cb, p, v):
    """the closure's argument (an identity, or the id of the Member it is given)"""
    if v == ('param', 0, 2):
        return True
    if v[0] == 'load' and v[1][0] == 'field' and v[1][2] == 'id' and v[1][1] == ('deref', ('param', 0, 2)):
        return True
    if v[0] == 'load' and v[1] == ('deref', ('param', 0, 2)):
        return True
    return False


def is_upvar(name):
    """the closure capture called `name`; with name None: the closure's only capture (what it captures is checked at
    the call site from the closure aggregate, so the name the programmer gave the variable does not matter)"""
    def pred(cb, p, v):
        x = v
        for _ in range(3):
            u = q.upvar_of(cb, x)
            if u is not None and (u == name or (name is None and len(cb.upvar_names) == 1)):
                return True
            if x[0] == 'load' and x[1][0] == 'deref':
                x = x[1][1]
            else:
                break
        return False
    return pred


def evidence_params(b):
    """(index of the identity parameter, index of the probe-number parameter) of receive_ack / receive_indirect_ack:
    found by type, so that reordering the parameters of these private functions changes nothing."""
    ids = [i for i in range(2, b.argc + 1) if str(b.locals[i]).startswith('&') and 'Probe' not in str(b.locals[i])]
    nums = [i for i in range(2, b.argc + 1) if str(b.locals[i]) == 'u8']
    if len(ids) != 1 or len(nums) != 1:
        from .lib.facts import MissingAnchor
        raise MissingAnchor('%s no longer takes one identity reference and one probe number' % b.nname)
    return ids[0], nums[0]


def r1_evidence(ctx, f, rep, eff):
    rep.rule('C12-R1', 'Probe.direct_ack_ok is set only in receive_ack, guarded by probeno == probe_number and '
                       'direct.id() == from; Probe.indirect_ack_count is increased only in receive_indirect_ack, guarded '
                       'by the probe number and by `from` being one of the helpers asked (and that helper is removed, so no '
                       'double counting); both are reset only by clear(); succeeded() = direct_ack_ok || '
                       'indirect_ack_count > 0; take_failed() yields the target only when not succeeded')
    w = sorted(eff.writers_of(PROBE, 'direct_ack_ok'))
    rep.check(w == ['probe::Probe::clear', 'probe::Probe::receive_ack'], 'C12-R1', PROBE, 'writers of direct_ack_ok',
              construct='writers-direct', facts={'writers': w})
    w = sorted(eff.writers_of(PROBE, 'indirect_ack_count'))
    rep.check(w == ['probe::Probe::clear', 'probe::Probe::receive_indirect_ack'], 'C12-R1', PROBE,
              'writers of indirect_ack_count', construct='writers-indirect', facts={'writers': w})
    w = sorted(eff.writers_of(PROBE, 'indirect'))
    rep.check(set(w) <= {'probe::Probe::clear', 'probe::Probe::receive_indirect_ack', 'probe::Probe::expect_indirect_ack'},
              'C12-R1', PROBE, 'the list of asked helpers is touched only by clear / expect_indirect_ack / '
              'receive_indirect_ack', construct='writers-helpers', facts={'writers': w})
    # the round in flight (and the probe-number counter) lives in Foca.probe: the field is never reassigned, a Probe is
    # built only by the constructor, and it is cleared only where an epoch ends or a new round starts
    w = sorted(eff.writers_of('Foca', 'probe', kinds=('W',)))
    rep.check(w == [], 'C12-R1', 'Foca', 'Foca.probe is never reassigned (a running round is not dropped, probe numbers are not '
              'recycled)', construct='probe-never-replaced', facts={'writers': w})
    m = set(eff.writers_of('Foca', 'probe', kinds=('M',)))
    # (the epoch-ending functions are those that bump the timer token - C13-R1 shows each bump is an epoch boundary)
    enders = set(eff.writers_of('Foca', 'timer_token'))
    rep.check(m <= {'Foca::handle_data', 'Foca::handle_timer', 'Foca::probe_random_member'} | enders, 'C12-R1', 'Foca',
              'Foca.probe is lent mutably only to the probe handlers and the epoch-ending functions',
              construct='probe-borrowers', facts={'borrowers': sorted(m), 'epoch_enders': sorted(enders)})
    cs = sorted({c[0].nname for c in f.callers_of(lambda x: x == 'probe::Probe::new')})
    rep.check(cs == ['Foca::with_custom_broadcast'], 'C12-R1', PROBE, 'a Probe is constructed only by the constructor',
              construct='probe-new-callers', facts={'callers': cs})
    cs = set(c[0].nname for c in f.callers_of(lambda x: x == 'probe::Probe::clear'))
    good = True
    for fn in sorted(cs - {'Foca::probe_random_member', 'probe::Probe::start'}):
        # anywhere else a clear must be part of an epoch end: the same path bumps the timer token
        for p in ctx.paths(f, f.fn(fn), 'none'):
            if p.end != 'return':
                continue
            clr = [c for c in p.calls() if c['res'] == 'probe::Probe::clear']
            tw = [x for x in p.writes() if x['place'] == q.self_field('timer_token')]
            if clr and not tw:
                good = False
    rep.check(good, 'C12-R1', PROBE, 'Probe::clear is called only when an epoch ends or a new round '
              'starts', construct='probe-clear-callers', facts={'callers': sorted(cs)})
    b = f.fn('probe::Probe::receive_ack')
    FROM, NUM = evidence_params(b)      # the identity and the probe number, whatever their order
    n = 0
    for p in ctx.paths(f, b, 'none'):
        calls = {c['id']: c for c in p.calls()}
        ws = [x for x in p.writes() if x['place'] == pf('direct_ack_ok')]
        num = tgt = None
        for c in p.conds():
            es = q.eq_sides(c['expr'])
            if es and {es[1], es[2]} == {('param', 0, NUM), ('load', pf('probe_number'), 0)}:
                num = (q.cond_truth(c) == es[0])
            if c['expr'][0] == 'call' and calls[c['expr'][1]]['res'] == 'core::option::Option::is_some_and':
                isa = calls[c['expr'][1]]
                recv = isa['args'][0]
                src_ok = recv[0] == 'optref' and recv[1] == pf('direct') and not recv[2]
                clo_ok = closure_eq_table(ctx, f, isa['args'][1],
                                          lambda cb, pp, v: v[0] == 'call' or is_param_id(cb, pp, v), is_upvar(None)) and \
                    isa['args'][1][5] == (('ref', ('local', 0, FROM), False),)
                if src_ok and clo_ok:
                    tgt = q.cond_truth(c)
            if c['expr'][0] == 'call' and calls[c['expr'][1]]['res'] == 'probe::Probe::is_probing':
                # the same test through the helper (whose body is checked by common.check_helpers)
                ip = calls[c['expr'][1]]
                if q.is_param(ip['args'][0], 1) and q.is_param(ip['args'][1], FROM):
                    tgt = q.cond_truth(c)
        if tgt is None and ws:
            # the identity test spelled inline: match self.direct.as_ref() { Some(d) => d.id() == from, None => false }
            wi = [i for i, x in enumerate(p.events) if x is ws[0]][0]
            # (also when bound to a local first - `let from_direct = match ..; if !from_direct { return false }` - since
            # the branch on that local is a cond whose expression is the comparison itself)
            tgt = q.direct_target_is(f, p, wi, FROM)
        n += 1
        if ws:
            rep.check(num is True and tgt is True and ws[0]['value'] == ('const', 'bool', 1, 'true') and
                      q.path_bool(p, p.ret) is True, 'C12-R1', b.nname, 'direct evidence recorded only for the '
                      'current probe number from the probed identity', site=ws[0]['span'], construct='direct-evidence')
        else:
            rep.check(q.path_bool(p, p.ret) is False or p.end != 'return', 'C12-R1', b.nname,
                      'no evidence -> returns false', construct='direct-no-evidence:%s:%s' % (num, tgt))
            if p.end == 'return':
                # the other direction: an Ack with the current number from the probed member is never refused - whatever
                # stage the round is in, however late it comes
                if tgt is None:
                    tgt = q.direct_target_is(f, p, len(p.events), FROM)
                rep.check(num is False or tgt is False, 'C12-R1', b.nname, 'an Ack is refused only for a wrong probe '
                          'number or a wrong sender', construct='direct-refusal-justified')
    rep.floor('C12-R1', n, 3, 'receive_ack paths')
    b = f.fn('probe::Probe::receive_indirect_ack')
    FROM, NUM = evidence_params(b)
    n = 0
    for p in ctx.paths(f, b, 'none'):
        calls = {c['id']: c for c in p.calls()}
        ws = [(i, x) for i, x in enumerate(p.events) if x['kind'] == 'write' and x['place'] == pf('indirect_ack_count')]
        num = found = None
        posid = posval = None
        for c in p.conds():
            es = q.eq_sides(c['expr'])
            if es and {es[1], es[2]} == {('param', 0, NUM), ('load', pf('probe_number'), 0)}:
                num = (q.cond_truth(c) == es[0])
            if c['expr'][0] == 'discr' and c['expr'][1][0] == 'call' and calls[c['expr'][1][1]]['res'].endswith('Iterator>::position'):
                pc = calls[c['expr'][1][1]]
                over_helpers = any(x['res'] == '<alloc::vec::Vec as core::ops::Deref>::deref' and
                                   x['args'][0] == ('ref', pf('indirect'), False) for x in p.calls())
                clo_ok = closure_eq_table(ctx, f, pc['args'][1], is_param_id, is_upvar(None)) and \
                    pc['args'][1][5] == (('ref', ('local', 0, FROM), False),)
                if over_helpers and clo_ok:
                    found = q.cond_variants(f, c) == {'Some'}
                    posid = pc['id']
                    posval = ('fieldv', ('call', posid), '0', 'Some')
        if found is None:
            # the search written as a loop: `for (i, id) in self.indirect.iter().enumerate() { if id == from { .. i .. } }`
            for x in p.calls():
                if x['res'] != 'alloc::vec::Vec::swap_remove' or x['args'][0] != ('ref', pf('indirect'), True):
                    continue
                ix = x['args'][1]
                if not (ix[0] == 'fieldv' and ix[2] == '0' and ix[1][0] == 'fieldv' and ix[1][2] == '0' and ix[1][3] == 'Some'
                        and ix[1][1][0] == 'call' and ix[1][1][1] in calls):
                    continue
                nx = calls[ix[1][1][1]]
                if not nx['res'].endswith('Enumerate as core::iter::Iterator>::next'):
                    continue
                item = ix[1]
                chain = [y['res'] for y in p.calls()[:p.calls().index(nx)]]
                over_helpers = any(y['res'] == '<alloc::vec::Vec as core::ops::Deref>::deref' and
                                   y['args'][0] == ('ref', pf('indirect'), False) for y in p.calls()) and \
                    'core::slice::<impl [T]>::iter' in chain and 'core::iter::Iterator::enumerate' in chain and \
                    not any(y['res'].endswith(('::skip', '::rev', '::filter', '::step_by', '::zip', '::chain')) for y in p.calls())
                elem = ('fieldv', item, '1', None)
                same = False
                for c in p.conds():
                    es = q.eq_sides(q.norm_bool(c)[0])
                    if es and q.norm_bool(c)[1] == es[0]:
                        sides = [es[1], es[2]]
                        strip = lambda v: v[1][1] if v[0] == 'load' and v[1][0] == 'deref' else v
                        if {strip(sides[0]), strip(sides[1])} == {elem, ('param', 0, FROM)}:
                            same = True
                if over_helpers and same:
                    found = True
                    posval = ix
        n += 1
        if ws:
            i, wv = ws[0]
            v = wv['value']
            inc_ok = v[0] == 'binop' and v[1] == 'Add' and v[2] == ('load', pf('indirect_ack_count'), 0) and \
                v[3][0] == 'const' and v[3][2] == 1
            rm = [x for x in p.events[i:] if x['kind'] == 'call' and x['res'] == 'alloc::vec::Vec::swap_remove'
                  and x['args'][0] == ('ref', pf('indirect'), True) and x['args'][1] == posval]
            rep.check(num is True and found is True and inc_ok and len(rm) == 1 and len(ws) == 1 and
                      q.path_bool(p, p.ret) is True, 'C12-R1', b.nname, 'indirect evidence counted once, only for '
                      'the current probe number from an asked helper, which is then removed', site=wv['span'],
                      construct='indirect-evidence')
        else:
            rep.check(q.path_bool(p, p.ret) is False or p.end != 'return', 'C12-R1', b.nname, 'no evidence -> false',
                      construct='indirect-no-evidence:%s:%s' % (num, found))
            if p.end == 'return':
                if found is None:
                    # loop form of the search: exhausted (`next()` gave None) without any element comparing equal
                    nx = [c for c in p.calls() if c['res'].endswith('Enumerate as core::iter::Iterator>::next') or
                          c['res'] == '<core::slice::Iter as core::iter::Iterator>::next']
                    over = any(x['res'] == '<alloc::vec::Vec as core::ops::Deref>::deref' and
                               x['args'][0] == ('ref', pf('indirect'), False) for x in p.calls())
                    if nx and over and q.option_known(f, p, len(p.events), ('call', nx[-1]['id'])) == 'None':
                        hit = False
                        for c in p.conds():
                            e_, t_ = q.norm_bool(c)
                            es_ = q.eq_sides(e_)
                            if es_ and t_ is not None and ('param', 0, FROM) in (es_[1], es_[2]) and t_ == es_[0]:
                                hit = True
                        if not hit:
                            found = False
                rep.check(num is False or found is False, 'C12-R1', b.nname, 'a ForwardedAck is refused only for a wrong '
                          'probe number or a sender that was not asked', construct='indirect-refusal-justified')
    rep.floor('C12-R1', n, 3, 'receive_indirect_ack paths')
    b = f.fn('probe::Probe::clear')
    for p in ctx.paths(f, b, 'none'):
        ws = {q.field_path(x['place'])[1][-1]: x['value'] for x in p.writes()}
        rep.check(ws.get('direct_ack_ok') == ('const', 'bool', 0, 'false') and ws.get('indirect_ack_count', ('x',))[0] == 'const'
                  and ws.get('indirect_ack_count')[2] == 0 and 'probe_number' not in ws and
                  any(c['res'] == 'alloc::vec::Vec::clear' and c['args'][0] == ('ref', pf('indirect'), True) for c in p.calls()),
                  'C12-R1', b.nname, 'clear() resets the evidence and the asked helpers but not the probe number',
                  construct='clear')
    b = f.fn('probe::Probe::succeeded')
    # truth table over D = direct_ack_ok and I = (indirect_ack_count > 0), whatever the spelling (`a || b`, if/else,
    # `count > 0`, `0 < count`, `count != 0` ...)
    is_cnt = lambda v: v == ('load', pf('indirect_ack_count'), 0)

    def ev_bool(v, D, I):
        if v[0] == 'const' and v[1] == 'bool':
            return bool(v[2])
        if v == ('load', pf('direct_ack_ok'), 0):
            return D
        if v[0] == 'unop' and v[1] == 'Not':
            x = ev_bool(v[2], D, I)
            return None if x is None else (not x)
        if v[0] == 'binop' and v[1] in ('BitOr', 'BitAnd'):
            x, y = ev_bool(v[2], D, I), ev_bool(v[3], D, I)
            if x is None or y is None:
                return None
            return (x or y) if v[1] == 'BitOr' else (x and y)
        z = q.zero_test({'kind': 'cond', 'expr': v, 'taken': '1', 'dty': 'bool'}, is_cnt)
        if z == 'pos':
            return I
        if z == 'zero':
            return not I
        return None
    covered = set()
    good = True
    paths = [p for p in ctx.paths(f, b, 'none') if p.end == 'return']
    for p in paths:
        for D in (False, True):
            for I in (False, True):
                feas = True
                for c in p.conds():
                    x = ev_bool(c['expr'], D, I)
                    if x is None:
                        good = False
                    elif x != q.cond_truth(c):
                        feas = False
                if not feas:
                    continue
                covered.add((D, I))
                good = good and ev_bool(p.ret, D, I) == (D or I)
    good = good and len(covered) == 4 and not any(p.writes() or p.calls() for p in paths)
    rep.check(good, 'C12-R1', b.nname, 'succeeded() = direct_ack_ok || indirect_ack_count > 0 (truth table over the two atoms)',
              construct='succeeded-table', facts={'covered': sorted(covered)})
    b = f.fn('probe::Probe::take_failed')
    for p in ctx.paths(f, b, 'none'):
        calls = {c['id']: c for c in p.calls()}
        sc = [c for c in p.conds() if c['expr'][0] == 'call' and calls[c['expr'][1]]['res'] == 'probe::Probe::succeeded']
        took = q.takes_of(p, pf('direct'))
        if sc and q.cond_truth(sc[0]) is False:
            rep.check(len(took) == 1 and p.ret == took[0][1], 'C12-R1', b.nname,
                      'not succeeded -> yields (and clears) the probed member', construct='take-failed:failed')
        else:
            rep.check(not took and (q.is_variant(p.ret, 'Option', 'None') or (p.ret[0] == 'agg' and p.ret[3] == 'None')),
                      'C12-R1', b.nname, 'succeeded -> yields nothing', construct='take-failed:ok')


def message_kinds(f, p, upto, msg_pred):
    """Variants the handled message may have at event index `upto`, from all tests on it so far."""
    allk = set(f.variant_names('payload::Message'))
    ks = set(allk)
    for c in q.conds_before(p, upto):
        ex = c['expr']
        if ex[0] == 'discr' and ex[2] == 'payload::Message' and msg_pred(ex[1]):
            ks &= q.cond_variants(f, c)
        es = q.eq_sides(ex)
        if es:
            is_eq, a, b = es
            for x, y in ((a, b), (b, a)):
                if msg_pred(x) and y[0] == 'variant' and y[1] == 'payload::Message':
                    if q.cond_truth(c) == is_eq:
                        ks &= {y[2]}
                    else:
                        ks -= {y[2]}
    return ks


def header_parts(p):
    """(src value, message value) of the decoded header on this path (Continue.0 of the `?` on decode_header)."""
    calls = {c['id']: c for c in p.calls()}
    dec = [c for c in p.calls() if c['decl'] == 'codec::Codec::decode_header']
    if not dec:
        return None, None, None
    # header = Ok payload of decode_header, whichever way it is unwrapped (`?`, `.map_err(..)?`, `match`)
    for h in q.ok_payloads(p, dec[0]['id']):
        if q.path_mentions(p, h):
            return h, ('fieldv', h, 'src', None), ('fieldv', h, 'message', None)
    return None, None, None


def r2_reporters(ctx, f, rep):
    rep.rule('C12-R2', 'receive_ack is called only in the Ack arm of handle_data with (src, that arm\'s probe number); '
                       'receive_indirect_ack only in the ForwardedAck arm with src; expect_indirect_ack only in the '
                       'SendIndirectProbe handler with the identity each PingReq is then sent to')
    for fn, want in (('probe::Probe::receive_ack', ['Foca::handle_data']),
                     ('probe::Probe::receive_indirect_ack', ['Foca::handle_data']),
                     ('probe::Probe::expect_indirect_ack', ['Foca::handle_timer'])):
        cs = sorted({c[0].nname for c in f.callers_of(lambda x: x == fn)})
        rep.check(cs == want, 'C12-R2', fn, 'called only from %s' % want, construct='callers', facts={'callers': cs})
    hd = f.fn('Foca::handle_data')
    n = {'receive_ack': 0, 'receive_indirect_ack': 0}
    for p in ctx.paths(f, hd, 'none'):
        h, src, msg = header_parts(p)
        if h is None:
            continue
        for i, e in enumerate(p.events):
            if e['kind'] != 'call' or e['res'] not in ('probe::Probe::receive_ack', 'probe::Probe::receive_indirect_ack'):
                continue
            short = e['res'].split('::')[-1]
            n[short] += 1
            ks = message_kinds(f, p, i, lambda v: v == msg)
            FROM, NUM = evidence_params(f.fn(e['res']))
            frm = e['derefs'][FROM - 1]
            num = e['args'][NUM - 1]
            if short == 'receive_ack':
                good = ks == {'Ack'} and frm == src and num == ('fieldv', msg, '0', 'Ack')
            else:
                good = ks == {'ForwardedAck'} and frm == src and num == ('fieldv', msg, 'probe_number', 'ForwardedAck')
            rep.check(good, 'C12-R2', hd.nname, '%s(&src, probe number carried by the %s being handled)'
                      % (short, 'Ack' if short == 'receive_ack' else 'ForwardedAck'), site=e['span'],
                      construct='reporter:' + short, facts={'kinds': sorted(ks), 'from': show(frm, hd), 'number': show(num, hd)})
    for k, v in n.items():
        rep.floor('C12-R2', v, 1, k + ' call occurrences')


def r3_indirect_stage(ctx, f, rep):
    rep.rule('C12-R3', 'PingReq sends are guarded by token == timer_token, is_probing(probed_id), !succeeded() and '
                       'members.is_active(probed_id); helpers come from choose_active_members(num_indirect_probes, '
                       'candidate != probed_id); each helper is registered with expect_indirect_ack before the PingReq '
                       'goes to that same identity; PingReq.target = probed_id and .probe_number = probe.probe_number(); '
                       'choose_members pushes only while num_chosen < wanted')
    b = f.fn('Foca::handle_timer')
    EV = ('param', 0, 2)
    probed = ('fieldv', EV, 'probed_id', 'SendIndirectProbe')
    n = 0
    for p in ctx.paths(f, b, 'none'):
        calls = {c['id']: c for c in p.calls()}
        for i, e in enumerate(p.events):
            if e['kind'] != 'call' or e['res'] != 'Foca::send_message' or q.variant_name(e['args'][2]) != 'PingReq':
                continue
            n += 1
            g = {'token': None, 'probing': None, 'succeeded': None, 'active': None}
            for c in q.conds_before(p, i):
                ex = c['expr']
                es = q.eq_sides(ex)
                if es and {es[1], es[2]} == {('load', q.self_field('timer_token'), 0), ('fieldv', EV, 'token', 'SendIndirectProbe')}:
                    g['token'] = (q.cond_truth(c) == es[0])
                if ex[0] == 'call' and ex[1] in calls:
                    cc = calls[ex[1]]
                    if cc['res'] == 'probe::Probe::is_probing' and cc['derefs'][1] == probed:
                        g['probing'] = q.cond_truth(c)
                    if cc['res'] == 'probe::Probe::succeeded':
                        g['succeeded'] = q.cond_truth(c)
                    if cc['res'] == 'member::Members::is_active' and cc['derefs'][1] == probed:
                        g['active'] = q.cond_truth(c)
            good = g == {'token': True, 'probing': True, 'succeeded': False, 'active': True}
            rep.check(good, 'C12-R3', b.nname, 'PingReq only for the current epoch, while still probing that member, '
                      'without evidence yet, and while it is still active', site=e['span'], construct='pingreq-guards', facts=g)
            m = e['args'][2]
            pn = q.agg_field(m, 'probe_number')
            good = q.agg_field(m, 'target') == probed and pn[0] == 'call' and calls[pn[1]]['res'] == 'probe::Probe::probe_number'
            rep.check(good, 'C12-R3', b.nname, 'PingReq{target: probed_id, probe_number: probe.probe_number()}',
                      site=e['span'], construct='pingreq-payload', facts={'message': show(m, b)})
            dst = e['args'][1]
            exp = [c for c in p.events[:i] if c['kind'] == 'call' and c['res'] == 'probe::Probe::expect_indirect_ack']
            good = bool(exp) and exp[-1]['args'][1] == dst and dst[0] == 'call' and \
                calls[dst[1]]['res'] == 'member::Member::into_identity'
            if good:
                popped = calls[dst[1]]['args'][0]
                good = popped[0] == 'fieldv' and popped[3] == 'Some' and popped[1][0] == 'call' and \
                    calls[popped[1][1]]['res'] == 'alloc::vec::Vec::pop' and \
                    calls[popped[1][1]]['args'][0] == ('ref', q.self_field('choice_buf'), True)
            rep.check(good, 'C12-R3', b.nname, 'each helper popped from choice_buf is registered with expect_indirect_ack and '
                      'then sent the PingReq', site=e['span'], construct='helper-registered')
            pick = [c for c in p.events[:i] if c['kind'] == 'call' and c['res'] == 'member::Members::choose_active_members']
            good = len(pick) == 1
            if good:
                w = pick[0]['args'][1]
                good = w[0] == 'unop' and q.loads_self_field(w, 'config', 'num_indirect_probes') and \
                    pick[0]['args'][2] == ('ref', q.self_field('choice_buf'), True)
                clo = pick[0]['args'][4]
                good = good and clo[0] == 'agg' and clo[1] == 'closure'
                if good:
                    cb = f.fn(clo[2])
                    cps = ctx.paths(f, cb, 'small')
                    good = len(cps) == 1 and cps[0].ret[0] == 'binop' and cps[0].ret[1] == 'Ne' and \
                        clo[5] and clo[5][0][0] == 'ref' and ('param', 0, 2) in cps[0].ret[2:4]
                cl = [c for c in p.events[:i] if c['kind'] == 'call' and c['res'] == 'alloc::vec::Vec::clear'
                      and c['args'][0] == ('ref', q.self_field('choice_buf'), True)]
                good = good and bool(cl)
            rep.check(good, 'C12-R3', b.nname, 'helpers = choose_active_members(num_indirect_probes, candidate != probed_id) '
                      'into a cleared choice_buf', site=e['span'], construct='helper-selection')
    rep.floor('C12-R3', n, 2, 'PingReq send occurrences')
    cm = f.fn('member::Members::choose_members')
    n = 0
    for p in ctx.paths(f, cm, 'none'):
        for i, e in enumerate(p.events):
            if e['kind'] == 'call' and e['res'] == 'alloc::vec::Vec::push':
                n += 1
                g = False
                # `wanted` is the function's only usize parameter, wherever it stands
                wanted = [('param', 0, k) for k in range(1, cm.argc + 1) if str(cm.locals[k]) == 'usize']
                for c in reversed(q.conds_before(p, i)):
                    nrm = q.cmp_norm(c)
                    if nrm is not None and len(wanted) == 1 and wanted[0] in (nrm[1], nrm[2]):
                        g = nrm[0] == 'gt' and nrm[1] == wanted[0]
                        break
                rep.check(g, 'C12-R3', cm.nname, 'the reservoir grows only while num_chosen < wanted', site=e['span'],
                          construct='reservoir-bound')
    rep.floor('C12-R3', n, 1, 'reservoir pushes')


RELAY = {
    'Ping': ('Ack', 'src', {'0': ('0', 'Ping')}),
    'PingReq': ('IndirectPing', 'target', {'origin': 'src', 'probe_number': ('probe_number', 'PingReq')}),
    'IndirectPing': ('IndirectAck', 'src', {'target': ('origin', 'IndirectPing'), 'probe_number': ('probe_number', 'IndirectPing')}),
    'IndirectAck': ('ForwardedAck', 'target', {'origin': 'src', 'probe_number': ('probe_number', 'IndirectAck')}),
    'Announce': ('Feed', 'src', {}),
}
NAMED = {'PingReq': 'target', 'IndirectPing': 'origin', 'IndirectAck': 'target', 'ForwardedAck': 'origin'}


def named_vs_self(es, msg, k):
    a, b = es[1], es[2]
    named = ('fieldv', msg, NAMED[k], k)
    return (a == named and q.is_self_field_load(b, 'identity')) or (b == named and q.is_self_field_load(a, 'identity'))


def r4_relay(ctx, f, rep):
    rep.rule('C12-R4', 'reply/relay table of handle_data: Ping(n) -> Ack(n) to src; PingReq{target,n} -> '
                       'IndirectPing{origin: src, n} to target; IndirectPing{origin,n} -> IndirectAck{target: origin, n} to '
                       'src; IndirectAck{target,n} -> ForwardedAck{origin: src, n} to target; each relay arm is guarded by '
                       'the named identity != self.identity (IndirectForOurselves otherwise); every reply is guarded by '
                       'connection_state == Connected')
    hd = f.fn('Foca::handle_data')
    seen = {}
    rejected = {}
    for p in ctx.paths(f, hd, 'none'):
        h, src, msg = header_parts(p)
        if h is None:
            continue
        for i, e in enumerate(p.events):
            if e['kind'] == 'call' and e['res'] == 'Foca::send_message':
                sent = q.variant_name(e['args'][2])
                if sent == 'TurnUndead':
                    continue
                ks = message_kinds(f, p, i, lambda v: v == msg)
                if len(ks) != 1:
                    rep.violation('C12-R4', hd.nname, 'reply-kind-ambiguous:' + str(sent), 'a reply is sent without the handled '
                                  'kind being determined: %s' % sorted(ks), site=e['span'])
                    continue
                k = next(iter(ks))
                conn = None
                ours = None
                for c in q.conds_before(p, i):
                    es = q.eq_sides(c['expr'])
                    if q.conn_state_test(f, c, 'Connected') is not None:
                        conn = q.conn_state_test(f, c, 'Connected')
                    if es and k in NAMED and named_vs_self(es, msg, k):
                        ours = (q.cond_truth(c) == es[0])
                exp = RELAY.get(k)
                good = exp is not None and sent == exp[0] and conn is True
                facts = {'handled': k, 'sent': sent, 'connected': conn}
                if good:
                    want_dst = src if exp[1] == 'src' else ('fieldv', msg, exp[1], k)
                    good = e['args'][1] == want_dst
                    m = e['args'][2]
                    for fld, srcspec in exp[2].items():
                        got = q.agg_field(m, fld) if m[0] == 'agg' else None
                        want = src if srcspec == 'src' else ('fieldv', msg, srcspec[0], srcspec[1])
                        good = good and got == want
                    if k in NAMED:
                        good = good and ours is False
                        facts['named_is_self'] = ours
                seen.setdefault(k, []).append(good)
                rep.check(good, 'C12-R4', hd.nname, 'handling %s -> %s with origin/target/probe number preserved, only when '
                          'Connected%s' % (k, exp[0] if exp else '?', ' and the named identity is not ourselves' if k in NAMED else ''),
                          site=e['span'], construct='relay:%s' % k, facts=facts)
        if p.end == 'return' and p.ret[0] == 'agg' and p.ret[3] == 'Err' and q.is_variant(p.ret[5][0], 'Error', 'IndirectForOurselves'):
            ks = message_kinds(f, p, len(p.events), lambda v: v == msg)
            if len(ks) == 1:
                k = next(iter(ks))
                ours = None
                for c in p.conds():
                    es = q.eq_sides(c['expr'])
                    if es and k in NAMED and named_vs_self(es, msg, k):
                        ours = (q.cond_truth(c) == es[0])
                rejected.setdefault(k, []).append(ours is True and not any(x['res'] == 'Foca::send_message' and
                                                                            q.variant_name(x['args'][2]) != 'TurnUndead' for x in p.calls()))
    # the other direction: once the handled kind is one of the four, the instance is Connected and (for relays) the named
    # identity is not ours, the reply is always sent - nothing else can veto an Ack or a relay hop
    nconv = 0
    for p in ctx.paths(f, hd, 'none'):
        if p.end != 'return' or q.path_is_error_propagation(p):
            continue
        h, src, msg = header_parts(p)
        if h is None:
            continue
        ks = message_kinds(f, p, len(p.events), lambda v: v == msg)
        if len(ks) != 1 or next(iter(ks)) not in RELAY:
            continue
        k = next(iter(ks))
        conn = ours = None
        for c in p.conds():
            es = q.eq_sides(c['expr'])
            if q.conn_state_test(f, c, 'Connected') is not None:
                conn = q.conn_state_test(f, c, 'Connected')
            if es and k in NAMED and named_vs_self(es, msg, k):
                ours = (q.cond_truth(c) == es[0])
        if conn is not True or (k in NAMED and ours is not False):
            continue
        nconv += 1
        sent = [q.variant_name(e['args'][2]) for e in p.calls() if e['res'] == 'Foca::send_message']
        rep.check(RELAY[k][0] in sent, 'C12-R4', hd.nname, 'a %s handled while Connected is always answered with %s' % (k, RELAY[k][0]),
                  construct='always-replies:%s' % k, facts={'sent': sent})
    rep.floor('C12-R4', nconv, 4, 'handle_data paths that end in one of the four reply arms')
    for k in RELAY:
        rep.floor('C12-R4', len(seen.get(k, [])), 1, 'reply occurrences for ' + k)
    for k in NAMED:
        rep.check(bool(rejected.get(k)) and all(rejected[k]), 'C12-R4', hd.nname, '%s naming ourselves is rejected with '
                  'IndirectForOurselves and nothing is relayed' % k, construct='reject-self:' + k)
    extra = set(seen) - set(RELAY)
    rep.check(not extra, 'C12-R4', hd.nname, 'no other kind triggers a reply', construct='no-other-replies',
              facts={'extra': sorted(extra)})
    r4b_tail_does_not_veto(ctx, f, rep, 'C12-R4')


def r4b_tail_does_not_veto(ctx, f, rep, rule='C12-R4'):
    hd = f.fn('Foca::handle_data')
    # ... and nothing that happens to the rest of the datagram may get in the way: once the custom-broadcast tail has been
    # handed to handle_custom_broadcasts, a path may leave handle_data without having dispatched on the kind only because the
    # instance is not Connected - never because that tail was rejected (its error is reported after the reply)
    nleave = 0
    for p in ctx.paths(f, hd, 'none'):
        if p.end != 'return':
            continue
        h, src, msg = header_parts(p)
        hc = [i for i, e in enumerate(p.events) if e['kind'] == 'call' and e['res'] == 'Foca::handle_custom_broadcasts']
        if h is None or not hc:
            continue
        ks = message_kinds(f, p, len(p.events), lambda v: v == msg)
        conn = None
        for c in p.events[hc[0]:]:
            if c['kind'] == 'cond' and q.conn_state_test(f, c, 'Connected') is not None:
                conn = q.conn_state_test(f, c, 'Connected')
        undecided = [k for k in list(RELAY) + ['TurnUndead'] if k in ks and len(ks) > 1]
        if not undecided:
            continue
        nleave += 1
        rep.check(conn is False, rule, hd.nname, 'after the custom-broadcast tail was handled, handle_data returns without '
                  'dispatching on the kind only when the instance is not Connected', construct='tail-does-not-veto-reply',
                  facts={'kinds_still_possible': sorted(ks)})
    rep.floor(rule, nleave, 1, 'handle_data paths that return after the custom-broadcast tail without dispatching')


def r5_suspect_once(ctx, f, rep):
    rep.rule('C12-R5', 'State::Suspect is constructed at exactly one site outside tests (probe_random_member), from the record '
                       'returned by take_failed(); on the Some(summary) && is_active_now path exactly one '
                       'ChangeSuspectToDown timer follows; the probe number is advanced only by Probe::start '
                       '(wrapping_add(1)), which clears the previous round first; probe_random_member has one caller')
    sites = []
    for b in f.bodies:
        if '_serde' in b.nname or 'core::fmt' in b.nname:
            continue
        for bl in b.blocks:
            ops = []
            for s in bl['stmts']:
                if 'rv' in s:
                    rv = s['rv']
                    for k in ('op', 'a', 'b'):
                        if isinstance(rv.get(k), dict):
                            ops.append((rv[k], s['span']))
                    for o in rv.get('ops', []):
                        ops.append((o, s['span']))
                    if rv['k'] == 'aggregate' and strip_generics(rv['name']) == 'member::State' and rv['variant'] == 'Suspect':
                        sites += [(nm, s['span']) for nm in f.attributed(b)]
            t = bl['term']
            if t['k'] == 'call':
                for a in t['args']:
                    ops.append((a, t['span']))
            for o, sp in ops:
                if o['k'] == 'const' and strip_generics(o.get('adt', '')) == 'member::State' and o['val'] == '1':
                    sites += [(nm, sp) for nm in f.attributed(b)]
    fns = sorted({s[0] for s in sites})
    rep.check(fns == ['Foca::probe_random_member'], 'C12-R5', 'member::State', 'single construction site of State::Suspect',
              construct='suspect-sites', facts={'sites': fns})
    b = f.fn('Foca::probe_random_member')
    n = 0
    for p in ctx.paths(f, b, 'ctor'):
        if p.end != 'return' or q.path_is_error_propagation(p):
            continue
        calls = {c['id']: c for c in p.calls()}
        ap = [c for c in p.calls() if c['res'] == 'member::Members::apply_existing_if']
        tm = [c for c in p.calls() if c['decl'] == 'runtime::Runtime::submit_after' and
              q.variant_name(c['args'][1]) == 'ChangeSuspectToDown']
        if not ap:
            rep.check(not tm, 'C12-R5', b.nname, 'no suspicion timer without a failed round', construct='no-timer-without-failure')
            continue
        summ = ('fieldv', ('call', ap[0]['id']), '0', 'Some')
        some = [c for c in p.conds() if c['expr'][0] == 'discr' and c['expr'][1] == ('call', ap[0]['id'])]
        has = bool(some) and q.cond_variants(f, some[0]) == {'Some'}
        act = [c for c in p.conds() if c['expr'] == ('fieldv', summ, 'is_active_now', None)]
        active = has and bool(act) and q.cond_truth(act[-1]) is True
        n += 1
        rep.check((len(tm) == 1) == active, 'C12-R5', b.nname, 'exactly one ChangeSuspectToDown timer iff the suspected member '
                  'is still active', construct='one-timer:%s' % active)
        m = ap[0]['args'][1]
        tf = [c for c in p.calls() if c['res'] == 'probe::Probe::take_failed']
        good = len(tf) == 1 and m[0] == 'agg' and q.is_variant(q.agg_field(m, 'state'), 'State', 'Suspect')
        if good:
            failed = ('fieldv', ('call', tf[0]['id']), '0', 'Some')
            inc, mid = q.agg_field(m, 'incarnation'), q.agg_field(m, 'id')
            good = inc in (('fieldv', failed, 'incarnation', None),) and \
                mid in (('fieldv', failed, 'id', None),)
        rep.check(good, 'C12-R5', b.nname, 'the Suspect update is (identity, incarnation) of the record returned by take_failed(), '
                  'unchanged', construct='suspect-source', facts={'applied': show(m, b)})
    rep.floor('C12-R5', n, 3, 'probe_random_member paths with a failed round')
    sb = f.fn('probe::Probe::start')
    for p in ctx.paths(f, sb, 'none'):
        calls = {c['id']: c for c in p.calls()}
        evs = p.events
        ci = [i for i, e in enumerate(evs) if e['kind'] == 'call' and e['res'] == 'probe::Probe::clear']
        wi = [(i, e) for i, e in enumerate(evs) if e['kind'] == 'write' and e['place'] == pf('probe_number')]
        di = [i for i, e in enumerate(evs) if e['kind'] == 'write' and e['place'] == pf('direct')]
        good = len(ci) == 1 and len(wi) == 1 and len(di) == 1 and ci[0] < di[0]
        if good:
            v = wi[0][1]['value']
            good = v[0] == 'call' and calls[v[1]]['res'] == 'core::num::<impl u8>::wrapping_add' and \
                calls[v[1]]['args'][1][2] == 1 and q.is_load_of(calls[v[1]]['args'][0], pf('probe_number'))
        rep.check(good, 'C12-R5', sb.nname, 'start(): clear(), direct := Some(target), probe_number := wrapping_add(1)',
                  construct='start')
    eff = Effects(f)
    w = sorted(eff.writers_of(PROBE, 'probe_number'))
    rep.check(w == ['probe::Probe::start'], 'C12-R5', PROBE, 'probe_number advanced only by start()', construct='number-writers',
              facts={'writers': w})
    for fn_ in ('probe::Probe::start', 'member::Members::next'):
        cs_ = sorted({c[0].nname for c in f.callers_of(lambda x, n_=fn_: x == n_)})
        rep.check(cs_ == ['Foca::probe_random_member'], 'C12-R5', fn_, 'called only by probe_random_member (one round, one '
                  'target per probe tick)', construct='callers:' + fn_.split('::')[-1], facts={'callers': cs_})
    cs = sorted({c[0].nname for c in f.callers_of(lambda x: x == 'Foca::probe_random_member')})
    rep.check(cs == ['Foca::handle_timer'], 'C12-R5', 'Foca::probe_random_member', 'single caller (the probe timer handler)',
              construct='callers', facts={'callers': cs})
    # the Ping goes to the member just handed to Probe::start, with the number start() returned
    n = 0
    for p in ctx.paths(f, b, 'none'):
        calls = {c['id']: c for c in p.calls()}
        for e in p.calls():
            if e['res'] == 'Foca::send_message' and q.variant_name(e['args'][2]) == 'Ping':
                n += 1
                st = [c for c in p.calls() if c['res'] == 'probe::Probe::start']
                nx = [c for c in p.calls() if c['res'] == 'member::Members::next']
                good = len(st) == 1 and len(nx) == 1 and e['args'][2][5][0] == ('call', st[0]['id'])
                mid = [c for c in p.calls() if c['res'] == 'member::Member::id']
                good = good and q.mentions(e['args'][1], lambda x: x[0] == 'call' and x[1] in [m['id'] for m in mid])
                rep.check(good, 'C12-R5', b.nname, 'Ping(number returned by start) goes to the member returned by next()',
                          site=e['span'], construct='ping')
                break
        if n > 5:
            break
    rep.floor('C12-R5', n, 1, 'Ping sends')
    # ... and the other direction: every probe tick asks Members::next for a target, and whenever it yields one a round is
    # started for it and the Ping goes out - nothing else (a member count, a flag) can veto the round
    n = 0
    for p in ctx.paths(f, b, 'none'):
        if p.end != 'return' or q.path_is_error_propagation(p):
            continue
        nx = [c for c in p.calls() if c['res'] == 'member::Members::next']
        st = [c for c in p.calls() if c['res'] == 'probe::Probe::start']
        pings = [c for c in p.calls() if c['res'] == 'Foca::send_message' and q.variant_name(c['args'][2]) == 'Ping']
        n += 1
        if len(nx) != 1:
            rep.violation('C12-R5', b.nname, 'next-not-consulted', 'a probe tick returns without asking Members::next for a '
                          'target exactly once', facts={'calls': len(nx)})
            continue
        target = ('call', nx[0]['id'])
        for c_ in p.calls():        # `next(..).cloned()`: the Option tested is a copy of what next returned
            if c_['res'] in ('core::option::Option::cloned', 'core::option::Option::copied') and c_['args'][0] == target:
                target = ('call', c_['id'])
        known = q.option_known(f, p, len(p.events), target)
        payload = ('fieldv', target, '0', 'Some')
        if known == 'Some':
            good = len(st) == 1 and len(pings) == 1 and q.mentions(st[0]['args'][1], lambda x: x == payload)
        elif known == 'None':
            good = not st and not pings
        else:
            good = False
        rep.check(good, 'C12-R5', b.nname, 'a round starts (Probe::start + Ping) exactly when Members::next yields a member',
                  site=nx[0]['span'], construct='round-iff-target:%s' % known)
    rep.floor('C12-R5', n, 4, 'returning paths of probe_random_member')


def check(ctx):
    rep = ctx.report
    rep.explanation = (
        'Static decision of: what counts as probe evidence and who may record it (R1), who reports it and with which '
        'arguments (R2), the guards/selection/payload of the indirect stage (R3), the complete reply/relay table of '
        'handle_data extracted over all its paths, including the reject-self arms and the Connected gate (R4), and that '
        'a failed round suspects exactly once from the probed record (R5). Temporal clauses ("before the next round", '
        '"within probe_rtt") are decided only as orderings of handler code.')
    rep.not_decided = ['real-time clauses (probe_rtt, arrival relative to timers)']
    rep.assumptions = ['identities compare by their PartialEq (user code)']
    for cfgname in ctx.configs(quick=('base',), thorough=('base', 'wire', 'nostd')):
        f = ctx.facts(cfgname)
        rep.cur_config = cfgname
        from . import common as _cm
        _cm.check_helpers(ctx, f, rep, 'C12-R0', {'Probe::expect_indirect_ack', 'choose_members', 'Members::is_active', 'Probe::is_probing'})
        eff = Effects(f)
        common.check_derives(f, rep, 'C12-R0')
        r1_evidence(ctx, f, rep, eff)
        r2_reporters(ctx, f, rep)
        r3_indirect_stage(ctx, f, rep)
        r4_relay(ctx, f, rep)
        r5_suspect_once(ctx, f, rep)
        rep.rule('C12-R6', 'a round aborted by going idle, becoming defunct or changing identity leaves no evidence or target '
                           'behind: every function that leaves the Connected state or resets the instance clears the probe '
                           '(C13-R1 re-run)')
        from . import c13
        from .c09 import _Rename
        c13.r1_bumps(ctx, f, _Rename(rep, 'C13-R1', 'C12-R6'), eff)
    rep.cur_config = None

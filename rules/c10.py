"""C10 - incarnation discipline, self-refutation and reaction to one's own death."""
from .lib import query as q
from . import common as _cmn
from .lib.effects import Effects
from .lib.facts import strip_generics
from .lib.symx import show

INC = ('param', 0, 2)      # `incarnation` parameter of handle_self_update
STATE = ('param', 0, 3)


def r1_writers(ctx, f, rep, eff):
    rep.rule('C10-R1', 'Foca.incarnation is written only by the constructor, reset() (to 0) and handle_self_update; the '
                       'latter only in the Suspect arm, only when self.incarnation.cmp(&incoming) is Less or Equal, only '
                       'when max(incoming, own) != MAX, with the value saturating_add(max(incoming, own), 1); the write '
                       'precedes the gossip of that arm; reset is called only from change_identity and reuse_down_identity')
    w = sorted(eff.writers_of('Foca', 'incarnation'))
    rep.check(w == ['Foca::handle_self_update', 'Foca::reset'], 'C10-R1', 'Foca', 'writers of Foca.incarnation',
              construct='writers', facts={'writers': w})
    rb = f.fn('Foca::reset')
    for p in ctx.paths(f, rb, 'none'):
        ws = [x for x in p.writes() if x['place'] == q.self_field('incarnation')]
        rep.check(len(ws) == 1 and ws[0]['value'][0] == 'const' and ws[0]['value'][2] == 0, 'C10-R1', rb.nname,
                  'reset() sets incarnation to 0', construct='reset-zero')
    cb = f.fn('Foca::with_custom_broadcast')
    for p in ctx.paths(f, cb, 'none'):
        if p.end == 'return' and p.ret[0] == 'agg':
            v = q.agg_field(p.ret, 'incarnation')
            rep.check(v is not None and v[0] == 'const' and v[2] == 0, 'C10-R1', cb.nname, 'a new instance starts at incarnation 0',
                      construct='ctor-zero')
    hb = f.fn('Foca::handle_self_update')
    own = ('load', q.self_field('incarnation'), 0)
    n_w = 0
    n_paths = {'Less': 0, 'Equal': 0, 'Greater': 0}
    for p in ctx.paths(f, hb, 'none'):
        calls = {c['id']: c for c in p.calls()}
        arm = None
        order = None
        for c in p.conds():
            if c['expr'][0] == 'discr' and c['expr'][1] == STATE:
                arm = q.cond_variants(f, c)
            if c['expr'][0] == 'discr' and c['expr'][1][0] == 'call' and calls[c['expr'][1][1]]['res'].endswith('Ord for u16>::cmp'):
                cc = calls[c['expr'][1][1]]
                if cc['derefs'] == [own, INC]:
                    order = q.cond_variants(f, c)
        ws = [(i, x) for i, x in enumerate(p.events) if x['kind'] == 'write' and x['place'] == q.self_field('incarnation')]
        at_max = None
        mx = None
        for c in p.conds():
            ex = c['expr']
            if ex[0] == 'binop' and ex[1] == 'Eq' and ex[3][0] == 'const' and ex[3][2] == 65535 and ex[2][0] == 'call' \
                    and calls[ex[2][1]]['res'] == 'core::cmp::Ord::max' and set(calls[ex[2][1]]['args']) == {INC, own}:
                at_max = q.cond_truth(c)
                mx = ex[2]
        if arm == {'Suspect'} and order and len(order) == 1:
            n_paths[next(iter(order))] += 1
        for i, wv in ws:
            n_w += 1
            v = wv['value']
            val_ok = v[0] == 'call' and calls[v[1]]['res'] == 'core::num::<impl u16>::saturating_add' and \
                calls[v[1]]['args'][0] == mx and calls[v[1]]['args'][1][0] == 'const' and calls[v[1]]['args'][1][2] == 1
            good = arm == {'Suspect'} and order is not None and order <= {'Less', 'Equal'} and at_max is False and val_ok
            gos = [j for j, x in enumerate(p.events) if x['kind'] == 'call' and x['res'] == 'Foca::gossip']
            good = good and bool(gos) and gos[0] > i
            rep.check(good, 'C10-R1', hb.nname, 'own incarnation := saturating_add(max(incoming, own), 1), only for a '
                      'suspicion at an incarnation >= own and below MAX, before gossiping', site=wv['span'],
                      construct='bump', facts={'arm': sorted(arm or []), 'order': sorted(order or []), 'at_max': at_max,
                                               'value': q.describe(p, v, hb)})
        if arm == {'Suspect'} and order and order <= {'Less', 'Equal'} and at_max is False and p.end == 'return':
            rep.check(len(ws) == 1, 'C10-R1', hb.nname, 'a non-stale suspicion below MAX always bumps the incarnation',
                      construct='bump-always:%s' % sorted(order))
        if arm == {'Suspect'} and order == {'Greater'}:
            rep.check(not ws, 'C10-R1', hb.nname, 'a stale suspicion never changes the incarnation', construct='stale-no-bump')
        if arm and arm != {'Suspect'}:
            rep.check(not ws, 'C10-R1', hb.nname, 'Alive/Down updates never change the incarnation',
                      construct='other-arms:%s' % sorted(arm))
    rep.floor('C10-R1', n_w, 2, 'incarnation bump occurrences')
    for k, v in n_paths.items():
        rep.floor('C10-R1', v, 1, 'Suspect paths with ordering ' + k)
    cs = sorted({c[0].nname for c in f.callers_of(lambda x: x == 'Foca::reset')})
    rep.check(cs == ['Foca::change_identity', 'Foca::reuse_down_identity'], 'C10-R1', 'Foca::reset', 'callers of reset',
              construct='reset-callers', facts={'callers': cs})
    rb = f.fn('Foca::reuse_down_identity')
    for p in ctx.paths(f, rb, 'none'):
        for i, e in enumerate(p.events):
            if e['kind'] == 'call' and e['res'] == 'Foca::reset':
                g = False
                for c in q.conds_before(p, i):
                    es = q.eq_sides(c['expr'])
                    if q.conn_state_test(f, c, 'Undead') is not None:
                        g = q.conn_state_test(f, c, 'Undead')
                rep.check(g, 'C10-R1', rb.nname, 'reuse_down_identity resets only when Undead', construct='reuse-guard')


def r2_identity(ctx, f, rep, eff):
    rep.rule('C10-R2', 'Foca.identity is written only by the constructor and by change_identity (mem::replace), after the '
                       'failing edge of identity == new_id, and every normal path from that write passes through reset()')
    w = sorted(eff.writers_of('Foca', 'identity', kinds=('W', 'M')))
    rep.check(w == ['Foca::change_identity'], 'C10-R2', 'Foca', 'writers of Foca.identity', construct='writers',
              facts={'writers': w})
    b = f.fn('Foca::change_identity')
    n = 0
    for p in ctx.paths(f, b, 'none'):
        ws = [(i, x) for i, x in enumerate(p.events) if x['kind'] == 'write' and x['place'] == q.self_field('identity')]
        for i, wv in ws:
            n += 1
            g = False
            for c in q.conds_before(p, i):
                es = q.eq_sides(c['expr'])
                if es and {es[1], es[2]} == {('load', q.self_field('identity'), 0), ('param', 0, 2)}:
                    g = (q.cond_truth(c) != es[0])
            rs = [j for j, x in enumerate(p.events) if x['kind'] == 'call' and x['res'] == 'Foca::reset' and j > i]
            between = [x for x in p.events[i + 1:(rs[0] if rs else len(p.events))] if x['kind'] == 'call']
            rep.check(g and wv['value'] == ('param', 0, 2) and wv.get('via') == 'mem::replace' and bool(rs) and not between,
                      'C10-R2', b.nname, 'identity := new_id only when different, immediately followed by reset()',
                      site=wv['span'], construct='replace-then-reset')
        for j, x in enumerate(p.events):
            if x['kind'] == 'call' and x['res'] == 'Foca::reset':
                rep.check(any(i < j for i, _ in ws), 'C10-R2', b.nname, 'reset() happens only after the identity was replaced '
                          '(a refused change resets nothing)', site=x['span'], construct='reset-needs-replace')
    rep.floor('C10-R2', n, 1, 'identity writes')


INC_NAMES = ('incarnation', 'src_incarnation')


def mentions_inc(v, body):
    def pred(x):
        if x[0] == 'load' and x[1][0] == 'field' and x[1][2] in INC_NAMES:
            return True
        if x[0] == 'fieldv' and x[2] in INC_NAMES:
            return True
        if x[0] == 'param' and x[1] == 0 and body.local_names.get(x[2]) in INC_NAMES:
            return True
        return False
    return q.mentions(v, pred)


def body_mentions(b):
    """Cheap prefilter (performance only): does the body touch a field/variable called *incarnation*?"""
    import json
    key = '_c10_mentions'
    if key not in b.__dict__:
        b.__dict__[key] = 'incarnation' in json.dumps(b.raw['blocks']) or \
            any('incarnation' in (dv['name'] or '') for dv in b.raw['debug'])
    return b.__dict__[key]


def r3_no_fabrication(ctx, f, rep):
    rep.rule('C10-R3', 'incarnations read from records, headers, timers or updates never reach an arithmetic operation '
                       '(only comparisons/max); the single exception is the own-incarnation bump (positive control); every '
                       'Member::new outside tests takes its incarnation from such a read or from 0; what is serialised for '
                       'gossip is the applied update, or Member::down(own/previous identity)')
    arith = []
    for b in f.analysed_bodies():
        if '_serde' in b.nname or 'core::fmt' in b.nname:
            continue
        interesting = body_mentions(b)
        if not interesting:
            continue
        for p in ctx.paths(f, b, 'none'):
            calls = {c['id']: c for c in p.calls()}
            for e in p.events:
                if e['kind'] == 'call':
                    nm = e['res']
                    short = nm.split('::')[-1]
                    if nm.startswith('core::num::') and short in ('saturating_add', 'wrapping_add', 'saturating_sub',
                                                                   'wrapping_sub', 'checked_add', 'checked_sub'):
                        ops = [a if a[0] != 'call' or a[1] not in calls else a for a in e['args']]
                        expanded = []
                        for a in e['args']:
                            expanded.append(a)
                            if a[0] == 'call' and a[1] in calls:
                                expanded.extend(calls[a[1]]['args'])
                        if any(mentions_inc(a, b) for a in expanded):
                            arith.append((b.nname, e['block'], short, e['span']))
                if e['kind'] == 'assert' and e['akind'].startswith('Overflow'):
                    if any(mentions_inc(a, b) for a in e['ops']):
                        arith.append((b.nname, e['block'], e['akind'], e['span']))
    sites = sorted({(a[0], a[1], a[2]) for a in arith})
    expect = [s for s in sites if s[0] == 'Foca::handle_self_update' and s[2] == 'saturating_add']
    others = [s for s in sites if s not in expect]
    rep.check(len(expect) == 1, 'C10-R3', 'Foca::handle_self_update', 'positive control: the own-incarnation bump is seen by '
              'the taint rule', construct='taint-positive-control', facts={'sites': [list(s) for s in sites]})
    for s in others:
        sp = [a[3] for a in arith if (a[0], a[1], a[2]) == s][0]
        rep.violation('C10-R3', s[0], 'incarnation-arithmetic:' + s[2], 'an incarnation learned from a record/header/timer '
                      'flows into arithmetic: Foca would tell others about an incarnation nobody announced', site=sp)
    if not others:
        rep.ok('C10-R3', 'crate', 'no other arithmetic on learned incarnations')
    # Member::new call sites
    n = 0
    done = set()
    for cb, bi, t in f.callers_of(lambda x: x == 'member::Member::new'):
        if cb.nname.startswith('member::Member::'):
            continue    # alive()/down() pass Incarnation::default()
        for p in ctx.paths(f, cb, 'none'):
            if (cb.nname, bi) in done:
                break
            calls = {c['id']: c for c in p.calls()}
            for e in p.calls():
                if e['res'] == 'member::Member::new' and e['tblock'] == bi and (cb.nname, bi) not in done:
                    done.add((cb.nname, bi))
                    n += 1
                    inc = e['args'][1]
                    src = inc
                    if src[0] == 'call' and src[1] in calls and calls[src[1]]['res'] == 'member::Member::incarnation':
                        good = True
                    elif src[0] == 'fieldv' and src[2] in INC_NAMES:
                        good = True
                    elif src[0] == 'const' and src[2] == 0:
                        good = True
                    else:
                        good = False
                    rep.check(good, 'C10-R3', cb.nname, 'Member::new takes its incarnation verbatim from a record, header or '
                              'timer (or 0)', site=e['span'], construct='member-new-incarnation',
                              facts={'incarnation': q.describe(p, inc, cb)})
    rep.floor('C10-R3', n, 3, 'Member::new call sites in Foca')
    for fn in ('member::Member::alive', 'member::Member::down'):
        b = f.fn(fn)
        for p in ctx.paths(f, b, 'none'):
            for e in p.calls():
                if e['res'] == 'member::Member::new':
                    rep.check(e['args'][1][0] == 'const' and e['args'][1][2] == 0, 'C10-R3', fn,
                              'shortcut constructors use incarnation 0', construct='shortcut-zero')
    # what gets serialised
    n = 0
    done = set()
    for cb, bi, t in f.callers_of(lambda x: x == 'Foca::serialize_member'):
        for p in ctx.paths(f, cb, 'ctor'):
            if (cb.nname, bi) in done:
                break
            for e in p.calls():
                if e['res'] == 'Foca::serialize_member' and e['tblock'] == bi and (cb.nname, bi) not in done:
                    done.add((cb.nname, bi))
                    n += 1
                    m = _cmn.member_arg(f, e)
                    if cb.nname == 'Foca::handle_apply_summary':
                        good = m == ('param', 0, 3)
                        what = 'the applied update itself is what gets gossiped'
                    else:
                        good = m[0] == 'agg' and q.is_variant(q.agg_field(m, 'state'), 'State', 'Down') and \
                            q.agg_field(m, 'incarnation')[0] == 'const' and \
                            q.mentions(q.agg_field(m, 'id'), lambda x: x[0] == 'load' and x[1] == q.self_field('identity'))
                        what = 'Member::down(own / previous identity) is what gets gossiped'
                    rep.check(good, 'C10-R3', cb.nname, what, site=e['span'], construct='serialised-value',
                              facts={'value': show(m, cb)})
    rep.floor('C10-R3', n, 3, 'serialize_member call sites')


def r4_rejoin_or_defunct(ctx, f, rep):
    rep.rule('C10-R4', 'on learning that its identity is Down (or that it cannot refute at MAX) the instance either rejoins '
                       '(attempt_rejoin = true) or becomes Defunct on every normal path; change_identity is reached only '
                       'for renew() = Some(new) with new != identity and new winning the conflict; change_identity queues '
                       'Member::down(previous) unless the previous identity was already known Down, then gossips')
    hb = f.fn('Foca::handle_self_update')
    n = 0
    for p in ctx.paths(f, hb, 'none'):
        if p.end != 'return' or q.path_is_error_propagation(p):
            continue
        calls = {c['id']: c for c in p.calls()}
        arm = None
        at_max = None
        for c in p.conds():
            if c['expr'][0] == 'discr' and c['expr'][1] == STATE:
                arm = q.cond_variants(f, c)
            ex = c['expr']
            if ex[0] == 'binop' and ex[1] == 'Eq' and ex[3][0] == 'const' and ex[3][2] == 65535:
                at_max = q.cond_truth(c)
                subj = ex[2]
                own_ = ('load', q.self_field('incarnation'), 0)
                good_subj = subj[0] == 'call' and calls[subj[1]]['res'] == 'core::cmp::Ord::max' and \
                    set(calls[subj[1]]['args']) == {INC, own_}
                rep.check(good_subj, 'C10-R4', hb.nname, 'the cannot-refute test is max(suspected, own) == MAX (a suspicion AT '
                          'MAX cannot be refuted even when the own incarnation is lower)', site=c['span'],
                          construct='at-max-subject', facts={'subject': q.describe(p, subj, hb)})
        if arm == {'Down'} or (arm == {'Suspect'} and at_max is True):
            n += 1
            ar = [c for c in p.calls() if c['res'] == 'Foca::attempt_rejoin']
            und = [c for c in p.calls() if c['res'] == 'Foca::become_undead']
            vals = [c for c in p.conds() if c.get('dty') == 'bool' and q.ok_payload_of(p, c['expr']) is not None]
            rejoined = bool(vals) and q.cond_truth(vals[-1]) is True
            rep.check(len(ar) == 1 and (rejoined != bool(und)), 'C10-R4', hb.nname,
                      'either attempt_rejoin succeeded or become_undead is called - never neither', construct='rejoin-or-defunct:%s' % sorted(arm),
                      facts={'rejoined': rejoined, 'undead': bool(und)})
            gos = [c for c in p.calls() if c['res'] == 'Foca::gossip']
            rep.check(not gos, 'C10-R4', hb.nname, 'no gossip under the dead identity from this arm', construct='no-gossip-when-dead')
    rep.floor('C10-R4', n, 4, 'Down / at-MAX paths')
    cs0 = sorted({c[0].nname for c in f.callers_of(lambda x: x == 'Foca::handle_self_update')})
    rep.check(cs0 == ['Foca::apply_many', 'Foca::handle_data'], 'C10-R4', 'Foca::handle_self_update', 'the reaction to news about '
              'oneself is triggered only by updates (apply_many) and by TurnUndead (handle_data)',
              construct='handle_self_update-callers', facts={'callers': cs0})
    cs_ = sorted({c[0].nname for c in f.callers_of(lambda x: x == 'Foca::attempt_rejoin')})
    rep.check(cs_ == ['Foca::handle_self_update'], 'C10-R4', 'Foca::attempt_rejoin', 'renewal is attempted only from '
              'handle_self_update (so a failed attempt always ends in become_undead)', construct='attempt_rejoin-callers',
              facts={'callers': cs_})
    # every way of learning "your identity is Down" goes through handle_self_update(_, Down)
    from . import c12
    hd = f.fn('Foca::handle_data')
    n_tu = 0
    for p in ctx.paths(f, hd, 'none'):
        if p.end != 'return' or q.path_is_error_propagation(p):
            continue
        h, src, msg = c12.header_parts(p)
        if h is None or not any(e['res'] == 'Foca::apply_update' for e in p.calls()):
            continue
        ks = c12.message_kinds(f, p, len(p.events), lambda v: v == msg)
        if 'TurnUndead' not in ks:
            continue
        # (a path on which the kind is still undecided when it returns is a path a TurnUndead takes too)
        active = None
        for c in p.conds():
            if c.get('dty') == 'bool' and q.ok_payload_of(p, c['expr']) is not None and active is None:
                active = q.cond_truth(c)
        conn = None
        for c in p.conds():
            es = q.eq_sides(c['expr'])
            if q.conn_state_test(f, c, 'Connected') is not None:
                conn = q.conn_state_test(f, c, 'Connected')
        if active is False or (active is True and conn is True):
            n_tu += 1
            hs = [e for e in p.calls() if e['res'] == 'Foca::handle_self_update' and q.is_variant(e['args'][2], 'State', 'Down')]
            rep.check(len(hs) == 1, 'C10-R4', hd.nname, 'a TurnUndead addressed to us (from an active sender while connected, or '
                      'from a sender we hold as Down) is handled by handle_self_update(_, Down)', construct='turnundead-handled:%s' % active)
    rep.floor('C10-R4', n_tu, 2, 'TurnUndead handling paths')
    # ... and an update about the own identity is never skipped: in apply_many, once `update.id == self.identity` holds
    # for an item, handle_self_update is called for it whatever the other arguments (do_broadcast, ...) say
    am = f.fn('Foca::apply_many')
    ident = q.self_field('identity')
    n_self = 0
    for p in ctx.paths(f, am, 'small'):
        if p.end not in ('return', 'cut'):
            continue
        evs = p.events
        for i, c in enumerate(evs):
            if c['kind'] != 'cond':
                continue
            e, t = q.norm_bool(c)
            es = q.eq_sides(e)
            if not es or t is None or not (q.is_load_of(es[1], ident) or q.is_load_of(es[2], ident)) or (t != es[0]):
                continue
            # the rest of this iteration: up to the next item or the end of the path
            nxt = [k for k in range(i + 1, len(evs)) if evs[k]['kind'] == 'call' and evs[k]['res'].endswith('Iterator>::next')
                   or (evs[k]['kind'] == 'call' and evs[k]['decl'] == 'core::iter::Iterator::next')]
            seg = evs[i + 1:(nxt[0] if nxt else len(evs))]
            if not nxt and p.end == 'cut':
                continue
            n_self += 1
            rep.check(any(x['kind'] == 'call' and x['res'] == 'Foca::handle_self_update' for x in seg), 'C10-R4', am.nname,
                      'an update about the own identity always reaches handle_self_update', site=c['span'],
                      construct='self-update-never-skipped')
    rep.floor('C10-R4', n_self, 1, 'own-identity branches of apply_many')
    ab = f.fn('Foca::attempt_rejoin')
    n = 0
    for p in ctx.paths(f, ab, 'none'):
        calls = {c['id']: c for c in p.calls()}
        for i, e in enumerate(p.events):
            if e['kind'] == 'call' and e['res'] == 'Foca::change_identity':
                n += 1
                new = e['args'][1]
                some = differs = wins = False
                for c in q.conds_before(p, i):
                    ex = c['expr']
                    if ex[0] == 'discr' and ex[1][0] == 'call' and calls[ex[1][1]]['decl'] == 'identity::Identity::renew' and \
                            calls[ex[1][1]]['args'][0] == ('ref', q.self_field('identity'), False):
                        some = q.cond_variants(f, c) == {'Some'} and new == ('fieldv', ex[1], '0', 'Some')
                    es = q.eq_sides(ex)
                    if es and {es[1], es[2]} == {('load', q.self_field('identity'), 0), new}:
                        differs = q.cond_truth(c) != es[0]
                    if ex[0] == 'call' and calls[ex[1]]['decl'] == 'identity::Identity::win_addr_conflict':
                        wc = calls[ex[1]]
                        wins = q.cond_truth(c) is True and wc['derefs'][0] == new and \
                            wc['args'][1] == ('ref', q.self_field('identity'), False)
                rep.check(some and differs and wins, 'C10-R4', ab.nname, 'change_identity(new) only for renew() = Some(new), '
                          'new != identity, new.win_addr_conflict(&identity)', site=e['span'], construct='rejoin-guards',
                          facts={'some': some, 'differs': differs, 'wins': wins})
                break
    rep.floor('C10-R4', n, 1, 'change_identity call in attempt_rejoin')
    cb = f.fn('Foca::change_identity')
    n = 0
    for p in ctx.paths(f, cb, 'ctor'):
        if p.end != 'return' or q.path_is_error_propagation(p):
            continue
        if not any(w['place'] == q.self_field('identity') for w in p.writes()):
            continue
        n += 1
        calls = {c['id']: c for c in p.calls()}
        was_undead = None
        for c in p.conds():
            # `connection_state == Undead`, `matches!(connection_state, Undead)` or a `match` on it, read before the reset
            vs = q.variant_test(f, c, lambda v: v == ('load', q.self_field('connection_state'), 0))
            if vs is not None:
                was_undead = True if vs == {'Undead'} else (False if 'Undead' not in vs else was_undead)
        aor = [c for c in p.calls() if c['res'] == 'broadcast::Broadcasts::add_or_replace']
        gos = [i for i, c in enumerate(p.events) if c['kind'] == 'call' and c['res'] == 'Foca::gossip']
        ser = [c for c in p.calls() if c['res'] == 'Foca::serialize_member']
        good = bool(gos)
        if was_undead is False:
            good = good and len(aor) == 1 and len(ser) == 1
            if good:
                m = _cmn.member_arg(f, ser[0])
                good = m[0] == 'agg' and q.is_variant(q.agg_field(m, 'state'), 'State', 'Down') and \
                    q.agg_field(m, 'id') == ('load', q.self_field('identity'), 0)
                key = aor[0]['args'][1]
                good = good and aor[0]['args'][0] == ('ref', q.self_field('updates'), True) and key[0] == 'agg' and \
                    key[5][0][0] == 'call' and calls[key[5][0][1]]['decl'] == 'identity::Identity::addr'
                ai = [i for i, c in enumerate(p.events) if c is aor[0]][0]
                good = good and gos[0] > ai
        elif was_undead is True:
            good = good and not aor
        else:
            good = False
        rep.check(good, 'C10-R4', cb.nname, 'previous identity is queued as Down (unless it was already Undead) and a gossip '
                  'follows', construct='change-identity:%s' % was_undead)
    rep.floor('C10-R4', n, 2, 'successful change_identity paths')


def check(ctx):
    rep = ctx.report
    rep.explanation = (
        'Static decision of: who writes the own incarnation and with what value under which guards, as an iff over all '
        'paths of handle_self_update (R1); identity and incarnation move together (R2); learned incarnations never reach '
        'arithmetic, with a positive control, and gossiped updates are the applied ones (R3); rejoin-or-defunct on every '
        'path and the guards of renewal (R4). The wire-visible phrasing "every later datagram carries a greater '
        'incarnation" is decided as: the header field is read from self.incarnation at send time (C07-R1) and the bump '
        'precedes the gossip (R1).')
    rep.not_decided = ['observing outgoing datagrams over a history (decided through C07-R1 + R1 ordering instead)']
    rep.assumptions = ['Identity::renew/win_addr_conflict are user code; their results are used only through the guards checked here']
    for cfgname in ctx.configs(quick=('base',), thorough=('base', 'wire', 'nostd')):
        f = ctx.facts(cfgname)
        rep.cur_config = cfgname
        from . import common as _cm
        _cm.check_helpers(ctx, f, rep, 'C10-R0', {'serialize_member'})
        from . import common as _common
        _common.check_frame(f, rep, 'C10-R0')
        _common.check_derives(f, rep, 'C10-R0')
        eff = Effects(f)
        r1_writers(ctx, f, rep, eff)
        r2_identity(ctx, f, rep, eff)
        r3_no_fabrication(ctx, f, rep)
        # the incarnation *stored* for another member is only ever the one an update carried: change_state and the
        # conflict replacement copy it verbatim (C01-R3, re-run here) - what is stored is what is gossiped later
        from . import c01 as _c01
        from .c09 import _Rename as _Rn
        _c01.r3_writers(ctx, f, _Rn(rep, 'C01-R3', 'C10-R3'))
        r4_rejoin_or_defunct(ctx, f, rep)
        _cmn.routing_reads_current_identity(ctx, f, rep, 'C10-R4')
        # wire-visible clause: the header reads self.identity / self.incarnation at send time (C07-R1 re-run)
        from . import c07, c08
        from .c09 import _Rename
        c07.r1_r2_sender(ctx, f, _Rename(_Rename(rep, 'C07-R1', 'C10-R5'), 'C07-R2', 'C10-R5'))
        rep.rule('C10-R5', 'every datagram\'s header carries the current identity and incarnation (C07-R1 re-run); Rejoin is '
                           'notified exactly when the identity was switched (C08-R5 re-run)')
        c08.r5_state_machine(ctx, f, _Rename(rep, 'C08-R5', 'C10-R5'), eff)
    rep.cur_config = None

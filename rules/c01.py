"""C01 - membership knowledge is a join-semilattice (SWIM precedence order).

Decided statically: the per-record precedence table (extracted from the MIR of
Member::can_change), that change_state is its only client and obeys it, who may
write a record, the conflict-replacement branch, and the routing of every update
in apply_many/apply_update.  Not decided: the end-to-end two-instance agreement as
a behaviour (it follows from the decided parts for any win_addr_conflict that is
a strict order per address, which is the user's contract).
"""
import itertools

from .lib import query as q
from .lib.facts import strip_generics
from .lib.symx import show

STATES = ['Alive', 'Suspect', 'Down']


ORDERINGS = (('lt', 0, 1), ('eq', 1, 1), ('gt', 1, 0))      # name, other incarnation, record incarnation


def _only_can_change(caller, callee, depth):
    return callee.nname == 'member::Member::can_change'


def extract_can_change(ctx, f, rep):
    """Decision table (record state, update state) -> ('const', bool) | ('cmp', op) | ('fn', {ordering: bool}) with op
    relating update_incarnation OP record.incarnation: when does Member::change_state accept the update?  Extracted from
    change_state with can_change inlined, so it does not matter whether the table lives in a function of its own, in
    change_state itself, or how its tests are nested."""
    b = f.fn('member::Member::change_state')
    for fn in ('member::Member::change_state', 'member::Member::can_change'):
        for x in f.by_name.get(fn, []):
            if not ctx.cfg(x).is_loop_free():
                rep.violation('C01-R1', x.nname, 'loop', '%s is no longer loop-free: not extractable' % fn)
                return None
    paths = ctx.paths(f, b, _only_can_change)
    self_state = ('load', ('field', q.SELF, 'state', None), 0)
    self_inc = ('load', ('field', q.SELF, 'incarnation', None), 0)
    incs = [k for k in range(2, b.argc + 1) if str(b.locals[k]) == 'u16']
    sts = [k for k in range(2, b.argc + 1) if str(b.locals[k]).endswith('State')]
    if len(incs) != 1 or len(sts) != 1:
        rep.violation('C01-R1', b.nname, 'signature', 'change_state no longer takes one incarnation and one state')
        return None
    other_inc, other_state = ('param', 0, incs[0]), ('param', 0, sts[0])
    rows = []
    ok = True
    for p in paths:
        if p.end != 'return':
            rep.violation('C01-R1', b.nname, 'path-end:' + p.end, 'change_state has a path that does not return')
            return None
        ss, os_ = set(STATES), set(STATES)
        cmps = []
        for c in p.conds():
            vs = q.cond_variants(f, c)
            sc = q.scrutinee(c)
            e, t = q.norm_bool(c)
            if vs is not None and sc == self_state:
                ss &= vs
            elif vs is not None and sc == other_state:
                os_ &= vs
            elif t is not None and e[0] == 'binop' and e[1] in ('Gt', 'Ge', 'Lt', 'Le', 'Eq', 'Ne') and \
                    {e[2], e[3]} == {other_inc, self_inc}:
                op = e[1]
                if e[2] == self_inc:   # orient as other OP self
                    op = {'Gt': 'Lt', 'Ge': 'Le', 'Lt': 'Gt', 'Le': 'Ge', 'Eq': 'Eq', 'Ne': 'Ne'}[op]
                cmps.append((op, t))
            elif t is not None and q.variant_test(f, c, lambda v: v == self_state) is not None:
                ss &= q.variant_test(f, c, lambda v: v == self_state)       # `self.state == State::Down` spellings
            elif t is not None and q.variant_test(f, c, lambda v: v == other_state) is not None:
                os_ &= q.variant_test(f, c, lambda v: v == other_state)
            else:
                rep.violation('C01-R1', b.nname, 'foreign-condition',
                              'the precedence decision branches on something other than the two states and the two '
                              'incarnations: %s' % show(c['expr'], b), site=c['span'])
                ok = False
        writes = {(w['place'], w['value']) for w in p.writes()}
        want = {(('field', q.SELF, 'state', None), other_state), (('field', q.SELF, 'incarnation', None), other_inc)}
        r = p.ret
        final = []      # the returned boolean may itself be the last comparison
        if r[0] == 'binop' and r[1] in ('Gt', 'Ge', 'Lt', 'Le', 'Eq', 'Ne') and {r[2], r[3]} == {other_inc, self_inc}:
            op = r[1]
            if r[2] == self_inc:
                op = {'Gt': 'Lt', 'Ge': 'Le', 'Lt': 'Gt', 'Le': 'Ge', 'Eq': 'Eq', 'Ne': 'Ne'}[op]
            final = [op]
        if writes == want and (q.is_const(r, 1) or final):
            rows.append((ss, os_, cmps, True, final))
        elif not writes and (q.is_const(r, 0) or final):
            rows.append((ss, os_, cmps, False, final))
        else:
            rep.violation('C01-R1', b.nname, 'outcome-shape', 'a path of change_state neither (writes exactly state := state, '
                          'incarnation := incarnation and returns true) nor (writes nothing and returns false)',
                          facts={'writes': sorted(show(pl, b) + ':=' + show(v, b) for pl, v in writes), 'ret': show(r, b)})
            ok = False
    OPS = {'Gt': lambda a, c: a > c, 'Ge': lambda a, c: a >= c, 'Lt': lambda a, c: a < c, 'Le': lambda a, c: a <= c,
           'Eq': lambda a, c: a == c, 'Ne': lambda a, c: a != c}
    table = {}
    for s_ in STATES:
        for o in STATES:
            fn = {}
            for name, oi, si in ORDERINGS:
                outs = set()
                for ss, os_, cmps, accept, final in rows:
                    if s_ in ss and o in os_ and all(OPS[op](oi, si) == t for op, t in cmps):
                        if final:
                            # (a path that returns the comparison itself: it accepted iff it wrote, and the value it
                            # returns must agree with that)
                            if OPS[final[0]](oi, si) != accept:
                                continue
                        outs.add(accept)
                if len(outs) != 1:
                    rep.violation('C01-R1', b.nname, '%s-entry:%s,%s,%s' % ('missing' if not outs else 'ambiguous', s_, o, name),
                                  'no path / two disagreeing paths cover this case')
                    ok = False
                    continue
                fn[name] = outs.pop()
            if len(fn) == 3:
                if len(set(fn.values())) == 1:
                    table[(s_, o)] = ('const', fn['lt'])
                else:
                    for op in OPS:
                        if all(OPS[op](oi, si) == fn[name] for name, oi, si in ORDERINGS):
                            table[(s_, o)] = ('cmp', op)
                            break
                    else:
                        table[(s_, o)] = ('fn', fn)
    return table if ok and len(table) == 9 else None


def eval_entry(entry, other_inc, self_inc):
    if entry[0] == 'const':
        return entry[1]
    if entry[0] == 'fn':
        return entry[1]['lt' if other_inc < self_inc else ('eq' if other_inc == self_inc else 'gt')]
    op = entry[1]
    return {'Gt': other_inc > self_inc, 'Ge': other_inc >= self_inc, 'Lt': other_inc < self_inc,
            'Le': other_inc <= self_inc, 'Eq': other_inc == self_inc, 'Ne': other_inc != self_inc}[op]


def oracle(s, i, t, j):
    """SWIM precedence as written in the property statement."""
    if s == 'Down':
        return False
    if t == 'Down':
        return True
    return j > i or (j == i and t == 'Suspect' and s == 'Alive')


def r1_precedence(ctx, f, rep):
    rep.rule('C01-R1', 'precedence table of Member::change_state (with can_change inlined, if it exists), extracted from '
                       'MIR over (state x state x ordering of the two incarnations), equals SWIM precedence: Down is top and final; else higher '
                       'incarnation wins; at equal incarnation Suspect overrides Alive. Then idempotence, absorption '
                       'and commutation are checked exhaustively on the extracted table.')
    table = extract_can_change(ctx, f, rep)
    if table is None:
        return None
    b = (f.by_name.get('member::Member::can_change') or [f.fn('member::Member::change_state')])[0]
    n = 0
    for s in STATES:
        for t in STATES:
            for (i, j, name) in ((1, 0, 'other<self'), (1, 1, 'other==self'), (0, 1, 'other>self')):
                got = eval_entry(table[(s, t)], j, i)
                want = oracle(s, i, t, j)
                n += 1
                rep.check(got == want, 'C01-R1', b.nname,
                          'can_change(record=%s, update=%s, %s) = %s' % (s, t, name, want),
                          site=b.raw['span'], construct='entry:%s,%s,%s' % (s, t, name),
                          facts={'entry': table[(s, t)], 'got': got})

    # algebraic consequences on the extracted table (order abstraction: incarnations in {0,1,2})
    def apply(rec, upd):
        (s, i), (t, j) = rec, upd
        return (t, j) if eval_entry(table[(s, t)], j, i) else rec

    def same(a, b_):
        return a == b_ or (a[0] == 'Down' and b_[0] == 'Down')
    bad = {'idempotent': 0, 'commute': 0, 'absorb': 0}
    total = 0
    dom = [(s, i) for s in STATES for i in (0, 1, 2)]
    for r in dom:
        for u1 in dom:
            a = apply(r, u1)
            total += 1
            if apply(a, u1) != a:
                bad['idempotent'] += 1
            for u2 in dom:
                total += 1
                x = apply(apply(r, u1), u2)
                y = apply(apply(r, u2), u1)
                if not same(x, y):
                    bad['commute'] += 1
                # absorption: re-applying an earlier update after a later one changes nothing
                if not same(apply(x, u1), x):
                    bad['absorb'] += 1
    for k, v in bad.items():
        rep.check(v == 0, 'C01-R1', b.nname, 'extracted table is %s over all abstract (record, u1, u2) triples' % k,
                  site=b.raw['span'], construct='algebra:' + k, facts={'cases': total, 'failures': v})
    return table


def r2_change_state(ctx, f, rep):
    rep.rule('C01-R2', 'Member::change_state writes state/incarnation exactly when the precedence table accepts, writes exactly '
                       'its two parameters, returns that boolean (all three are part of the extraction of R1), and does '
                       'nothing else: it calls nothing but can_change, and nobody else consults can_change.')
    b = f.fn('member::Member::change_state')
    n = 0
    for p in ctx.paths(f, b, _only_can_change):
        n += 1
        calls = [c for c in p.calls()]
        rep.check(not calls, 'C01-R2', b.nname, 'change_state calls nothing but the precedence table', construct='calls',
                  facts={'calls': [c['res'] or c['decl'] for c in calls]})
    rep.floor('C01-R2', n, 2, 'change_state paths')
    # can_change, when it is a function of its own, has exactly one client
    callers = f.callers_of(lambda n_: n_ == 'member::Member::can_change')
    rep.check({c[0].nname for c in callers} <= {'member::Member::change_state'}, 'C01-R2', 'member::Member::can_change',
              'only change_state consults the precedence table', construct='callers',
              facts={'callers': [c[0].nname for c in callers]})


MEMBER = 'member::Member'
DERIVE_OK = ('<member::Member as core::clone::Clone>::clone',)


def is_serde_generated(nname):
    return '_serde::' in nname or '::_::<impl' in nname


def r3_writers(ctx, f, rep):
    rep.rule('C01-R3', 'fields of Member are written only by the Member::new aggregate, change_state and the conflict '
                       'branch of Members::apply_existing_if (whole-record replacement guarded by id_conflict, by '
                       'known.id NOT winning the conflict, and by the caller condition); Members.inner is mutably '
                       'borrowed only by next/apply_existing_if/apply/remove_if_down.')
    writers = {}
    constructors = set()
    inner_mut = {}
    for b in f.bodies:
        for bi, bl in enumerate(b.blocks):
            if bl['cleanup']:
                continue
            for s in bl['stmts']:
                if 'lhs' not in s:
                    continue
                for e in s['lhs']['proj']:
                    if e['k'] == 'field' and strip_generics(e.get('owner', '')) == MEMBER:
                        for nm in f.attributed(b):
                            writers.setdefault(nm, []).append((e['name'], s['span']))
                rv = s['rv']
                if rv['k'] == 'aggregate' and rv['what'] == 'adt' and strip_generics(rv['name']) == MEMBER:
                    constructors.update(f.attributed(b))
                if rv['k'] == 'ref' and rv['mut']:
                    for e in rv['place']['proj']:
                        if e['k'] == 'field' and strip_generics(e.get('owner', '')) == MEMBER:
                            for nm in f.attributed(b):
                                writers.setdefault(nm, []).append(('&mut ' + e['name'], s['span']))
                        if e['k'] == 'field' and strip_generics(e.get('owner', '')) == 'member::Members' \
                                and e['name'] == 'inner':
                            for nm in f.attributed(b):
                                inner_mut.setdefault(nm, []).append(s['span'])
    allowed_writers = {'member::Member::change_state', 'member::Members::apply_existing_if'}
    for w, sites in sorted(writers.items()):
        if is_serde_generated(w):
            continue
        rep.check(w in allowed_writers, 'C01-R3', w, 'writes Member.%s: only change_state and apply_existing_if may'
                  % ','.join(sorted({s[0] for s in sites})), site=sites[0][1], construct='member-field-writer')
    rep.floor('C01-R3', len([w for w in writers if w in allowed_writers]), 2, 'Member field writers')
    allowed_ctor = {'member::Member::new'} | set(DERIVE_OK)
    for c in sorted(constructors):
        if is_serde_generated(c):
            continue
        rep.check(c in allowed_ctor, 'C01-R3', c, 'constructs a Member aggregate: only Member::new (and derived Clone) '
                  'may', construct='member-constructor')
    rep.floor('C01-R3', len(constructors & allowed_ctor), 1, 'Member constructors')
    allowed_inner = {'member::Members::next', 'member::Members::apply_existing_if', 'member::Members::apply::{closure#0}',
                     'member::Members::remove_if_down::{closure#1}'}
    for w, sites in sorted(inner_mut.items()):
        parent = f.by_name[w][0].parent or w
        rep.check(parent in ('member::Members::next', 'member::Members::apply_existing_if', 'member::Members::apply',
                             'member::Members::remove_if_down'),
                  'C01-R3', w, 'mutably borrows Members.inner: only next/apply_existing_if/apply/remove_if_down may',
                  site=sites[0], construct='inner-mut-borrow')
    rep.floor('C01-R3', len({(f.by_name[w][0].parent or w) for w in inner_mut}), 4, 'functions borrowing Members.inner mutably')
    # Members.inner is pub(crate): read access from outside member.rs must stay read-only
    # (covered above: any &mut borrow anywhere in the crate is listed).

    # -- the conflict branch ------------------------------------------------
    b = f.fn('member::Members::apply_existing_if')
    paths = ctx.paths(f, b, 'none')
    upd = ('local', 0, 2)
    n_repl = 0
    for p in paths:
        ws = [w for w in p.writes() if q.field_path(w['place'])[1][-1:] and
              q.field_path(w['place'])[1][-1] in ('id', 'state', 'incarnation')]
        rec_writes = [w for w in ws if q.place_root(w['place'])[0] == 'deref']
        if not rec_writes:
            continue
        n_repl += 1
        known = q.place_root(rec_writes[0]['place'])
        first = p.index_of(rec_writes[0])
        conds = q.conds_before(p, first)
        # guards
        g_conflict = any(q.eq_sides(c['expr']) and q.eq_sides(c['expr'])[0] == (not q.cond_truth(c)) and
                         {q.field_path(x[1])[1][-1] if x[0] in ('load',) else
                          (x[2] if x[0] == 'fieldv' else None) for x in q.eq_sides(c['expr'])[1:]} == {'id'}
                         for c in conds if q.eq_sides(c['expr']))
        win_calls = [e for e in p.events[:first] if e['kind'] == 'call' and e['decl'] == 'identity::Identity::win_addr_conflict']
        g_lost = False
        for wc in win_calls:
            a0, a1 = wc['args']
            recv_known = a0[0] == 'ref' and q.place_root(a0[1]) == known
            adv_update = a1[0] == 'ref' and q.place_root(a1[1]) == upd
            for c in conds:
                if c['expr'] == ('call', wc['id']) and q.cond_truth(c) is False and recv_known and adv_update:
                    g_lost = True
        cond_calls = [e for e in p.events[:first] if e['kind'] == 'call' and e['decl'].startswith('core::ops::Fn')
                      and e['args'] and e['args'][0] == ('ref', ('local', 0, 3), False)]
        g_cond = any(c['expr'] == ('call', cc['id']) and q.cond_truth(c) is True for cc in cond_calls for c in conds)
        rep.check(g_conflict and g_lost and g_cond, 'C01-R3', b.nname,
                  'record replacement guarded by identities differ, known.id.win_addr_conflict(&update.id)=false, '
                  'condition(known)=true', site=rec_writes[0]['span'], construct='replacement-guards',
                  facts={'id_conflict': g_conflict, 'known_loses': g_lost, 'condition': g_cond})
        # whole-record replacement from the update
        got = {}
        for w in rec_writes:
            got[q.field_path(w['place'])[1][-1]] = w['value']
        want_ok = set(got) == {'id', 'state', 'incarnation'}
        for fld, v in got.items():
            src_ok = (v[0] == 'fieldv' and v[1] == ('param', 0, 2) and v[2] == fld)
            want_ok = want_ok and src_ok
        rep.check(want_ok, 'C01-R3', b.nname, 'replacement overwrites id, state and incarnation from the update',
                  site=rec_writes[0]['span'], construct='replacement-writes',
                  facts={k: show(v, b) for k, v in got.items()})
    rep.floor('C01-R3', n_repl, 1, 'paths through the replacement branch')
    # converse: whenever the identities differ, the stored one does not win and the caller condition holds, the record IS
    # replaced - whatever the two states are ("supersedes the other whatever their states")
    n_conv = 0
    for p in paths:
        if p.end != 'return':
            continue
        calls = {c['id']: c for c in p.calls()}
        differs = lost = cond_ok = None
        extra = []
        for c in p.conds():
            ex = c['expr']
            es = q.eq_sides(ex)
            if es and {(q.field_path(x[1])[1][-1] if x[0] == 'load' else (x[2] if x[0] == 'fieldv' else None)) for x in es[1:]} == {'id'}:
                differs = (q.cond_truth(c) != es[0])
                continue
            if ex[0] == 'call' and ex[1] in calls:
                cc = calls[ex[1]]
                if cc['decl'] == 'identity::Identity::win_addr_conflict':
                    lost = q.cond_truth(c) is False
                    continue
                if cc['decl'].startswith('core::ops::Fn'):
                    cond_ok = q.cond_truth(c) is True
                    continue
            if ex[0] == 'discr' and ex[1][0] == 'call':
                continue       # the lookup result
            extra.append(c)
        if differs and lost and cond_ok:
            n_conv += 1
            ws = [w for w in p.writes() if q.place_root(w['place'])[0] == 'deref' and
                  q.field_path(w['place'])[1][-1:] == ['id']]
            # conditions evaluated after the replacement (num_active bookkeeping) are fine; none may precede it
            first_w = p.index_of(ws[0]) if ws else len(p.events)
            early = [c for c in extra if p.index_of(c) < first_w]
            rep.check(bool(ws) and not early, 'C01-R3', b.nname, 'a conflict-winning update replaces the stored record '
                      'unconditionally (no test on either state stands between the conflict decision and the replacement)',
                      construct='replacement-unconditional',
                      facts={'replaced': bool(ws), 'extra_conditions': [q.describe(p, c['expr'], b) for c in early]})
    rep.floor('C01-R3', n_conv, 1, 'paths where the update wins the conflict')
    # non-conflict paths: the only mutation of the record is change_state(update.incarnation, update.state)
    n_cs = 0
    for p in paths:
        for e in p.calls():
            if e['res'] == 'member::Member::change_state':
                n_cs += 1
                a = e['args']
                ok = (a[1] == ('fieldv', ('param', 0, 2), 'incarnation', None) and
                      a[2] == ('fieldv', ('param', 0, 2), 'state', None))
                rep.check(ok, 'C01-R3', b.nname, 'change_state is applied with the update\'s own incarnation and state',
                          site=e['span'], construct='change_state-args', facts={'args': [show(x, b) for x in a]})
    rep.floor('C01-R3', n_cs, 1, 'change_state call on the no-conflict path')
    # the lookup closure compares addresses
    finds = [e for p in paths for e in p.calls() if e['decl'].endswith('Iterator::find')]
    clos = {e['args'][1][2] for e in finds if e['args'][1][0] == 'agg' and e['args'][1][1] == 'closure'}
    for cn in sorted(clos):
        cb = f.fn(cn)
        cps = ctx.paths(f, cb, 'small')
        ok = len(cps) == 1 and cps[0].ret[0] == 'binop' and cps[0].ret[1] == 'Eq'
        if ok:
            sides = cps[0].ret[2:4]
            calls = {c['id']: c for c in cps[0].calls()}
            ok = all(s[0] == 'call' and calls[s[1]]['decl'] == 'identity::Identity::addr' for s in sides)
        rep.check(ok, 'C01-R3', cn, 'record lookup predicate is addr(record.id) == addr(update.id)',
                  site=cb.raw['span'], construct='lookup-predicate',
                  facts={'ret': show(cps[0].ret, cb) if cps else None})
    rep.floor('C01-R3', len(clos), 1, 'lookup closure of apply_existing_if')


def r4_routing(ctx, f, rep):
    rep.rule('C01-R4', 'apply_many dispatches each update on (id == own identity, addr == own addr): own-identity '
                       'updates go to handle_self_update and never reach Members; own-address ones are rebuilt as '
                       'Member::down(..); the rest are applied verbatim. Members::apply has one caller (apply_update) '
                       'and apply_existing_if three.')
    b = f.fn('Foca::apply_many')
    paths = ctx.paths(f, b, 'small')
    ident = q.self_field('identity')
    seen = {'self': 0, 'own_addr': 0, 'other': 0}
    for p in paths:
        for i, e in enumerate(p.events):
            if e['kind'] != 'call' or e['res'] not in ('Foca::apply_update', 'Foca::handle_self_update'):
                continue
            conds = q.conds_before(p, i)
            # the most recent decision about id equality / addr equality
            id_eq = None
            addr_eq = None
            for c in conds:
                es = q.eq_sides(c['expr'])
                if not es:
                    continue
                is_eq, a_, b_ = es
                t = q.cond_truth(c)
                val = (t == is_eq)
                if q.is_load_of(a_, ident) or q.is_load_of(b_, ident):
                    id_eq = val
                elif a_[0] == 'call' and b_[0] == 'call':
                    cs = {x['id']: x for x in p.calls()}
                    if all(cs[s[1]]['decl'] == 'identity::Identity::addr' for s in (a_, b_)):
                        addr_eq = val
            if e['res'] == 'Foca::handle_self_update':
                seen['self'] += 1
                rep.check(id_eq is True, 'C01-R4', b.nname, 'handle_self_update only for update.id == self.identity',
                          site=e['span'], construct='self-branch')
            else:
                upd = e['args'][1]
                if id_eq is False and addr_eq is True:
                    seen['own_addr'] += 1
                    ok = q.is_variant(upd, 'member::Member') and q.is_variant(q.agg_field(upd, 'state'), 'State', 'Down')
                    rep.check(ok, 'C01-R4', b.nname, 'own-address update is rebuilt as Member::down(identity) before '
                              'being applied', site=e['span'], construct='own-addr-branch',
                              facts={'applied': show(upd, b)})
                elif id_eq is False and addr_eq is False:
                    seen['other'] += 1
                    ok = upd[0] in ('call', 'fieldv') or upd[0] == 'load'
                    # verbatim: the value is the iterator item itself (result of Iterator::next -> Some.0)
                    rep.check(upd[0] == 'fieldv' and upd[2] == '0' and upd[3] == 'Some', 'C01-R4', b.nname,
                              'third-party update is applied verbatim (the iterator item itself)', site=e['span'],
                              construct='other-branch', facts={'applied': show(upd, b)})
                else:
                    rep.violation('C01-R4', b.nname, 'apply_update-unguarded', 'apply_update reached without both '
                                  'identity and address comparisons decided', site=e['span'],
                                  facts={'id_eq': id_eq, 'addr_eq': addr_eq})
    for k, v in seen.items():
        rep.floor('C01-R4', v, 1, 'apply_many branch ' + k)
    callers = sorted({c[0].nname for c in f.callers_of(lambda n: n == 'member::Members::apply')})
    rep.check(callers == ['Foca::apply_update'], 'C01-R4', 'member::Members::apply', 'single caller apply_update',
              construct='callers-apply', facts={'callers': callers})
    sites = f.callers_of(lambda n: n == 'member::Members::apply_existing_if')
    cs = sorted(c[0].nname for c in sites)
    rep.check(cs == ['Foca::handle_timer', 'Foca::probe_random_member', 'member::Members::apply'], 'C01-R4',
              'member::Members::apply_existing_if', 'three call sites: suspicion timeout, probe failure, apply',
              construct='callers-apply_existing_if', facts={'callers': cs})
    callers = sorted({c[0].nname for c in f.callers_of(lambda n: n == 'Foca::apply_update')})
    rep.check(callers == ['Foca::apply_many', 'Foca::handle_data'], 'C01-R4', 'Foca::apply_update',
              'called from apply_many and handle_data only', construct='callers-apply_update',
              facts={'callers': callers})
    # ... and apply_update itself decides nothing: every update it is given reaches Members::apply (the precedence
    # table) - no fast path, filter or early return in front of it (the debug assertion on the own identity aside)
    au = f.fn('Foca::apply_update')
    n = 0
    for p in ctx.paths(f, au, 'none'):
        if p.end != 'return':
            continue
        n += 1
        ai = [i for i, e in enumerate(p.events) if e['kind'] == 'call' and e['res'] == 'member::Members::apply']
        good = len(ai) == 1
        if good:
            e = p.events[ai[0]]
            upd = e['args'][1]
            good = upd == ('load', ('local', 0, 2), 0) or upd == ('param', 0, 2) or q.pre_havoc(upd) == ('param', 0, 2)
            for c in q.conds_before(p, ai[0]):
                es = q.eq_sides(q.norm_bool(c)[0])
                if not (es and any(q.is_self_field_load(x, 'identity') for x in es[1:])):
                    good = False
            good = good and not [x for x in p.events[:ai[0]] if x['kind'] == 'call' and not x['decl'].startswith('core::')
                                 and x['res'] not in ('member::Member::id',)]
        rep.check(good, 'C01-R4', au.nname, 'every update handed to apply_update reaches Members::apply, unconditionally and '
                  'unchanged', construct='apply-update-unconditional')
    rep.floor('C01-R4', n, 2, 'returning paths of apply_update')
    # ... and neither does Members::apply: it hands the update, unchanged, to apply_existing_if with a condition that is
    # always true - the precedence table and the conflict rule alone decide; a pre-filter here (on incarnations, on
    # states) silently refuses conflict winners and Down news the table would accept
    ab = f.fn('member::Members::apply')
    n = 0
    for p in ctx.paths(f, ab, 'none'):
        for e in p.calls():
            if e['res'] != 'member::Members::apply_existing_if':
                continue
            n += 1
            cond = e['args'][2] if len(e['args']) > 2 else None
            always = False
            if cond and cond[0] == 'agg' and cond[1] == 'closure':
                cps = [cp for cp in ctx.paths(f, f.fn(cond[2]), 'none') if cp.end == 'return']
                always = bool(cps) and all(q.is_const(cp.ret, 1) for cp in cps)
            rep.check(always and q.pre_havoc(e['args'][1]) in (('param', 0, 2), ('load', ('local', 0, 2), 0)) or
                      (always and e['args'][1] == ('param', 0, 2)), 'C01-R4', ab.nname,
                      'Members::apply consults apply_existing_if(update, |_| true): no filter in front of the table',
                      site=e['span'], construct='apply-condition-always-true')
    rep.floor('C01-R4', n, 1, 'apply_existing_if calls in Members::apply')


def r5_state_transfer(ctx, f, rep):
    rep.rule('C01-R5', 'state transfer is complete: iter_membership_state yields every stored record (the whole of '
                       'Members.inner, Down ones included, unfiltered); apply_many consumes its iterator to the end - the loop '
                       'is left only when the iterator is exhausted or an error is propagated - and hands over every item')
    b = f.fn('Foca::iter_membership_state')
    for p in ctx.paths(f, b, 'none'):
        cs = p.calls()
        good = p.end == 'return' and len(cs) == 2 and cs[0]['res'] == '<alloc::vec::Vec as core::ops::Deref>::deref' and \
            cs[0]['args'][0] == ('ref', q.self_field('members', 'inner'), False) and \
            cs[1]['res'] == 'core::slice::<impl [T]>::iter' and p.ret == ('call', cs[1]['id'])
        rep.check(good, 'C01-R5', b.nname, 'returns members.inner.iter() - no filter, no adaptor', construct='full-state',
                  facts={'calls': [c['res'] for c in cs]})
    b = f.fn('Foca::apply_many')
    n = 0
    for p in ctx.paths(f, b, 'none'):
        if p.end != 'return':
            continue
        n += 1
        calls = {c['id']: c for c in p.calls()}
        nexts = [c for c in p.calls() if c['decl'] == 'core::iter::Iterator::next']
        if q.path_is_error_propagation(p):
            continue
        last = nexts[-1] if nexts else None
        exhausted = False
        if last is not None:
            cs = [c for c in p.conds() if c['expr'][0] == 'discr' and c['expr'][1] == ('call', last['id'])]
            exhausted = bool(cs) and q.cond_variants(f, cs[-1]) == {'None'}
        rep.check(exhausted, 'C01-R5', b.nname, 'a normal return happens only after the update iterator reported None',
                  construct='consumes-all')
        # every Some(item) reaches exactly one of handle_self_update / apply_update
        for nx in nexts[:-1]:
            item = ('fieldv', ('call', nx['id']), '0', 'Some')
            i0 = p.index_of(nx)
            i1 = p.index_of(nexts[nexts.index(nx) + 1])
            hand = [e for e in p.events[i0:i1] if e['kind'] == 'call' and e['res'] in ('Foca::apply_update', 'Foca::handle_self_update')]
            rep.check(len(hand) == 1, 'C01-R5', b.nname, 'each item is handed to exactly one of apply_update / '
                      'handle_self_update', construct='item-dispatched')
    rep.floor('C01-R5', n, 4, 'returning paths of apply_many')
    # ... and what a datagram of an active sender carries is handed over whole: on every handle_data path on which the
    # sender was found active, apply_many is called with the drained scratch buffer and do_broadcast = true
    from . import c12
    hd = f.fn('Foca::handle_data')
    n = 0
    for p in ctx.paths(f, hd, 'none'):
        if p.end != 'return':
            continue
        h, src, msg = c12.header_parts(p)
        if h is None or not any(e['res'] == 'Foca::apply_update' for e in p.calls()):
            continue
        active = None
        for c in p.conds():
            if c.get('dty') == 'bool' and q.ok_payload_of(p, c['expr']) is not None and active is None:
                active = q.cond_truth(c)
        if active is not True:
            continue
        n += 1
        am = [e for e in p.calls() if e['res'] == 'Foca::apply_many']
        good = len(am) == 1
        if good:
            calls = {c['id']: c for c in p.calls()}
            it = am[0]['args'][1]
            good = it[0] == 'call' and calls[it[1]]['res'] == 'alloc::vec::Vec::drain' and 'RangeFull' in calls[it[1]].get('gargs', '') \
                and q.is_const(am[0]['args'][2], 1)
            took = [w for w in p.writes() if w['place'] == q.self_field('updates_buf') and w.get('via') == 'mem::take']
            good = good and bool(took)
        rep.check(good, 'C01-R5', hd.nname, 'the payload of an active sender always reaches apply_many, whole (drain(..) of the '
                  'decoded updates) and with do_broadcast = true', construct='payload-applied')
    rep.floor('C01-R5', n, 40, 'handle_data paths with an active sender')
    # ... and the list it drains is the decoded member list, entry by entry
    from . import common as _cm
    _cm.payload_staged_whole(ctx, f, rep, 'C01-R5')


def check(ctx):
    rep = ctx.report
    rep.explanation = (
        'Static decision of the structural core of C01: (R1) the precedence table extracted from the MIR of '
        'Member::can_change equals SWIM precedence on all 27 abstract cases (3x3 states x 3 orderings; the '
        'incarnations reach nothing but one comparison, so behaviour over the whole u16 range incl. 0/MAX is '
        'determined by their ordering) and is idempotent/commutative/absorbing over all abstract triples; (R2) '
        'change_state is its only client and obeys it; (R3) who may write a record and the guards/shape of the '
        'conflict replacement; (R4) the three-way routing in apply_many. NOT decided: two-instance agreement as a '
        'run (follows from these for a strict per-address win_addr_conflict order).')
    rep.not_decided = ['end-to-end agreement of two instances after exchanging state (no run is performed)']
    rep.assumptions = ['Identity::win_addr_conflict is a strict total order among identities of one address',
                       'rustc MIR construction and callee resolution', 'mirfacts serialisation']
    for cfgname in ctx.configs(quick=('base',), thorough=('base', 'wire', 'nostd', 'all')):
        f = ctx.facts(cfgname)
        rep.cur_config = cfgname
        from . import common as _common
        _common.check_frame(f, rep, 'C01-R0')
        _common.check_derives(f, rep, 'C01-R0')
        _common.check_state_fields(f, rep, 'C01-R0', ('members',))
        r1_precedence(ctx, f, rep)
        r2_change_state(ctx, f, rep)
        r3_writers(ctx, f, rep)
        r4_routing(ctx, f, rep)
        _common.routing_reads_current_identity(ctx, f, rep, 'C01-R4')
        r5_state_transfer(ctx, f, rep)
        # "Down is final until the member is forgotten": forgetting is exact - only the RemoveDown timer of that very
        # identity removes its Down record (C09-R5 / C08-R4 removal predicate, re-run here)
        from . import c09 as _c09
        rep.rule('C01-R6', 'a Down record is forgotten only by Members::remove_if_down, called only from the RemoveDown '
                           'handler with the timer\'s identity, whose predicate is `id == given && state == Down`')
        _c09.r5_forget(ctx, f, _c09._Rename(rep, 'C09-R5', 'C01-R6'))
    rep.cur_config = None

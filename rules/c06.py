"""C06 - Foca never panics on any input, schedule or configuration.

R0  forbid(unsafe_code) at the crate root.
R1  enumeration of every panic site in every body of the crate (all bodies are in scope: trait impls are entered
    from library code): Assert terminators, calls to core::panicking::*, unwrap/expect, calls to library routines
    with a panicking precondition; every external callee must be classified (fail closed).
R2  each site is discharged by guard reasoning along all symbolic paths (buffer budgets, subtraction guards,
    position->swap_remove), by constant folding, by a checked invariant (who-may-write + pairing), or by an entry of
    the audited table whose structural sub-conditions are re-verified.
R3  counters/tokens/incarnations are only advanced through wrapping/saturating arithmetic.
R4  values cached from Config are re-established by every writer of Foca.config (send_buf capacity).
"""
import re

from .lib import query as q
from .lib.budget import Budget, buffer_id, split_sum
from .lib.effects import Effects
from .lib.facts import strip_generics
from .lib.sites import panic_sites
from .lib.symx import show, place_root, is_prefix
from .lib.sites import literal_args, operand_root
from . import c06_tables as T


def is_generated(b):
    n = b.nname
    return '_serde::' in n or '::_::<impl' in n


def classify(decl, res, selfty, gargs=''):
    name = res or decl
    if re.match(r'^core::tuple::<impl core::cmp::(Ord|PartialOrd|PartialEq|Eq) for \(.*\)>::\w+$', name) and \
            re.match(r'^\[\((usize|isize|u\d+|i\d+|bool|char)(, (usize|isize|u\d+|i\d+|bool|char))*,?\)\]$', gargs or ''):
        return 'total'      # comparison of tuples of primitives
    m = re.match(r'^<&(mut )?T as (bytes::Buf(Mut)?)>::(\w+)$', name)
    if m:
        # forwarding impl of bytes (`impl BufMut for &mut T`): classified as the trait method it forwards to
        name = decl = '%s::%s' % (m.group(2), m.group(4))
        res = ''
    if name in T.PARTIAL:
        return 'partial'
    if not res and decl in T.PARTIAL:
        return 'partial'
    if name in T.TOTAL:
        return 'total'
    if name in T.ALLOC:
        return 'alloc'
    if name in T.THIRD_PARTY or decl in T.THIRD_PARTY:
        return 'third-party'
    if any(name.startswith(p) for p in T.TOTAL_PREFIXES):
        return 'total'
    if T.TOTAL_RE.match(name) or (res and T.TOTAL_ITER_RE.match(name)):
        return 'total'
    if not res:
        if any(decl.startswith(p) for p in T.USER_DECL_PREFIXES):
            return 'user'
    if res and (res.startswith('<') and ' as core::clone::Clone>::clone' in res):
        return 'total'
    return None


def indirect_targets(f, body, term):
    """Function items a call through a function pointer can reach, or None if that is not known."""
    fo = term.get('func')
    if not fo or fo.get('k') not in ('copy', 'move'):
        return None
    root = operand_root(body, fo)
    if root is None:
        return None
    if root[0] == 'const':
        ops = [root[1]]
    else:
        if body.kind == 'Closure' or body.reachable:
            return None
        ops = literal_args(f, body.nname, root[1])
        if not ops:
            return None
    names = [strip_generics(o.get('fnres') or o.get('fn') or '') for o in ops]
    return names if all(names) else None


def is_ctor_or_local(f, name):
    """An enum-variant / tuple-struct constructor of a crate type (total), or a crate function (its own sites are
    enumerated)."""
    if name in f.by_name:
        return True
    if '::' in name:
        adt, var = name.rsplit('::', 1)
        a = f.adts.get(adt)
        if a is not None and any(v['name'] == var for v in a['variants']):
            return True
    return name in f.adts


def owner_names(f, body):
    """The functions of the reference tree a site belongs to: closures count with their parent, a helper that does
    not exist on the reference tree with the known functions that call it (each of them must justify the site).
    Table keys use these names, so that turning a closure into straight-line code (or extracting a helper) does not
    orphan an audited entry."""
    b = body
    for _ in range(8):
        if b.kind == 'Closure' and b.parent and len(f.by_name.get(b.parent, [])) == 1:
            b = f.by_name[b.parent][0]
        elif f.is_unknown_helper(b):
            cs = sorted({c[0].nname for c in f.callers_of(lambda n, nn=b.nname: n == nn)})
            if len(cs) == 1:
                b = f.fn(cs[0])
            else:
                return cs or [b.nname]
        else:
            break
    return [b.nname]


def reaches_from(site, owner):
    """Does the site occur on some path of `owner` once the helper it lives in is inlined there (with the constant
    arguments that caller passes)?"""
    kinds = ('call',) if site.raw['kind'] in ('call', 'panic') else ('assert',)
    try:
        ob = site.f.fn(owner)
    except Exception:
        return True
    for p in site.ctx.paths(site.f, ob, 'none'):
        for e in p.events:
            if e['kind'] in kinds and e.get('block') == site.block and e.get('body') == site.body.nname:
                return True
    return False


def for_each_owner(site, handler, *args):
    """Run a discharge handler once per owning function; all must succeed."""
    good = True
    for o in site.owners:
        if len(site.owners) > 1 and not reaches_from(site, o):
            continue        # e.g. a shared helper's `if with_len_prefix {..}` branch seen from the caller passing false
        site.owner = o
        good = handler(site, *args) and good
    site.owner = site.owners[0]
    return good


class Site:
    def __init__(self, ctx, f, eff, rep, raw):
        self.ctx, self.f, self.eff, self.rep, self.raw = ctx, f, eff, rep, raw
        self.body = raw['body']
        self.block = raw['block']
        self._paths = None
        self.owners = owner_names(f, self.body)
        self.owner = self.owners[0]

    @property
    def in_helper(self):
        if self.f.is_unknown_helper(self.body) and self.owner != self.body.nname:
            return True
        # a closure that the owning function's paths see inlined (handed to a higher-order helper that does not exist on
        # the reference tree): judged there too, with the values the helper passes to it
        if self.body.kind == 'Closure' and self.owner != self.body.nname and len(self.f.by_name.get(self.owner, [])) == 1:
            v = getattr(self, '_inl', None)
            if v is None:
                v = self._inl = any(e.get('body') == self.body.nname for p in self.ctx.paths(self.f, self.f.fn(self.owner), 'none')
                                    for e in p.events)
            return v
        return False

    @property
    def paths(self):
        """Paths on which the site is judged: those of its own function - or, for a site inside a helper that does not
        exist on the reference tree, those of the owning function with the helper inlined (so that the values the
        helper receives are the caller's)."""
        if self.in_helper:
            return self.ctx.paths(self.f, self.f.fn(self.owner), 'none')
        if self._paths is None:
            self._paths = self.ctx.paths(self.f, self.body, 'none')
        return self._paths

    def occurrences(self):
        """(path, idx, event) of this site's terminator on every path."""
        out = []
        kinds = ('call',) if self.raw['kind'] in ('call', 'panic') else ('assert',)
        deep = self.in_helper
        for p in self.paths:
            for i, e in enumerate(p.events):
                if e['kind'] in kinds and e.get('block') == self.block and e.get('body') == self.body.nname \
                        and (deep or e.get('depth') == 0):
                    out.append((p, i, e))
        return out


# ------------------------------------------------------------------------------------------ discharge helpers

def ok(site, how, facts=None):
    site.rep.ok('C06-R2', site.body.nname, '%s site %s discharged: %s' % (site.raw['kind'], site.raw['desc'], how),
                site=site.raw['span'], facts=facts)
    return True


def bad(site, msg, facts=None):
    site.rep.violation('C06-R2', site.body.nname, '%s:%s' % (site.raw['kind'], site.raw['desc']),
                       'undischarged panic site: ' + msg, site=site.raw['span'], facts=facts)
    return False


def audited(site, key=None, extra_ok=True, why=''):
    key = key or (site.owner, site.raw['kind'], site.raw['desc'])
    if key in T.AUDITED and extra_ok:
        return ok(site, 'audited: ' + T.AUDITED[key])
    if key in T.AUDITED:
        return bad(site, 'audited entry exists but its structural sub-condition no longer holds: ' + why)
    return bad(site, 'no guard, invariant or audited entry covers it (key %s)' % (key,))


def capture_index(v):
    """k if v reads (through) capture k of the closure it occurs in, by reference: `*env.k`."""
    if v[0] == 'ref':
        v = ('load', v[1], 0)
    if v[0] == 'load' and v[1][0] == 'deref' and v[1][1][0] == 'fieldv' and v[1][1][1] == ('param', 0, 1) \
            and v[1][1][2].isdigit():
        return int(v[1][1][2])
    return None


def lifted_need(site, bufv, k, atoms):
    """A requirement `len(buffer) >= k + atoms` inside a closure whose buffer and atoms are captures held by SHARED
    reference: judged where the closure value is handed over, on every path of the function that builds it. What holds
    there holds whenever the closure runs - the shared borrows it carries freeze both places for as long as it lives."""
    kb = capture_index(bufv)
    ka = [capture_index(a) for a in atoms]
    if kb is None or any(x is None for x in ka) or not site.body.parent:
        return False
    ps = site.f.by_name.get(site.body.parent, [])
    if len(ps) != 1:
        return False
    seen = 0
    is_me = lambda x: x[0] == 'agg' and x[1] == 'closure' and x[2] == site.body.nname
    for p in site.ctx.paths(site.f, ps[0], 'none'):
        if p.ret is not None and q.mentions(p.ret, is_me):
            return False        # escapes: may run when the borrows' owner has moved on
        for i, e in enumerate(p.events):
            if e['kind'] == 'write' and q.mentions(e['value'], is_me):
                return False
            if e['kind'] != 'call':
                continue
            for j, a in enumerate(e['args']):
                if not is_me(a):
                    if q.mentions(a, is_me):
                        return False
                    continue
                caps, vals = a[5], e['argvals'][j][5]
                if max([kb] + ka) >= len(caps):
                    return False
                if any(caps[x][0] != 'ref' or caps[x][2] for x in [kb] + ka):
                    return False    # by value or by unique borrow: not frozen / not the same object
                seen += 1
                okc, _ = Budget(p, buffer_id(caps[kb])).covers(i, k, [vals[x] for x in ka])
                if not okc and not (k == 0 and all(q.is_const(vals[x], 0) for x in ka)):
                    return False
    return seen > 0


def need_budget(site, need_of):
    """need_of(event) -> (buffer value, const, atoms). All occurrences on all paths must be covered."""
    occ = site.occurrences()
    if not occ:
        return bad(site, 'site not found on any path (engine)')
    for p, i, e in occ:
        bufv, k, atoms = need_of(e)
        bid = buffer_id(bufv)
        if k == 0 and not atoms:
            continue        # nothing is required of the buffer here (`v[0..]`, `v[..0]`)
        okc, fact = Budget(p, bid).covers(i, k, atoms)
        if not okc and site.body.kind == 'Closure':
            okc = lifted_need(site, bufv, k, atoms)
        if not okc:
            return bad(site, 'on some path the buffer is not known to hold %s%s more bytes/elements at this point'
                       % (k, (' + ' + ' + '.join(show(a, site.body) for a in atoms)) if atoms else ''),
                       facts={'buffer': show(bid, site.body), 'facts': [str(x) for x in Budget(p, bid).facts_at(i)][:4]})
    return ok(site, 'every path establishes size >= need before the call with no unaccounted consumption',
              facts={'paths': len(occ)})


# ----------------------------------------------------------------------------------------------- call handlers

def h_unwrap(site):
    occ = site.occurrences()
    allconst = bool(occ)
    for p, i, e in occ:
        a = e['args'][0]
        calls = {c['id']: c for c in p.calls()}
        good = False
        if a[0] == 'call' and a[1] in calls:
            c = calls[a[1]]
            if c['res'] == 'core::num::NonZero::new' and c['args'][0][0] == 'const' and (c['args'][0][2] or 0) != 0:
                good = True
            elif c['res'] == 'core::num::NonZero::new' and c['args'][0][0] == 'param' and site.body.kind != 'Closure' \
                    and not site.body.reachable:
                # NonZero::new(parameter) in a crate-private function: every call site passes a non-zero literal
                lits = literal_args(site.f, site.body.nname, c['args'][0][2])
                good = bool(lits) and all((o.get('val') not in (None, '0', 0)) and str(o.get('val')) != '0' for o in lits)
        allconst = allconst and good
    if allconst:
        return ok(site, 'constant folding: NonZero::new(non-zero literal)')
    callee = site.raw['res'] or site.raw['decl']
    key = (site.owner, 'call', callee)
    if key == ('Foca::send_message', 'call', 'core::result::Result::expect'):
        # fill(.., max_items) is called with the constant u16::MAX
        good = False
        for p, i, e in occ:
            fills = [c for c in p.calls() if c['res'] == 'broadcast::Broadcasts::fill']
            good = bool(fills) and all(q.peel(c['args'][2]) == ('const', 'u16', 65535, 'core::num::<impl u16>::MAX')
                                       or (q.peel(c['args'][2])[0] == 'const' and q.peel(c['args'][2])[2] == 65535)
                                       for c in fills)
            if not good:
                break
        return audited(site, key, good, 'Broadcasts::fill is no longer called with max_items = u16::MAX')
    if key == ('config::Config::compute_max_tx', 'call', 'core::option::Option::expect'):
        good = all(any(q.cond_truth(c) is False and c['expr'][0] == 'binop' and c['expr'][1] == 'Le' for c in q.conds_before(p, i))
                   and any(q.cond_truth(c) is False and c['expr'][0] == 'binop' and c['expr'][1] == 'Ge' for c in q.conds_before(p, i))
                   for p, i, e in occ)
        return audited(site, key, good, 'the 1.0 < max_tx < 255.0 guards are gone')
    if key == ('<runtime::Timer as core::cmp::Ord>::cmp', 'call', 'core::option::Option::expect'):
        pb = site.f.fn('<runtime::Timer as core::cmp::PartialOrd>::partial_cmp')
        pp = site.ctx.paths(site.f, pb, 'none')
        # partial_cmp is Some on every path: `Some(..)` or the result of an integer partial_cmp (total order)
        INTP = re.compile(r'PartialOrd for [ui](8|16|32|64|128|size)>::partial_cmp$')
        good = bool(pp)
        for p in pp:
            if p.end != 'return':
                continue
            cs = {c['id']: c for c in p.calls()}
            r = p.ret
            good = good and ((r[0] == 'agg' and r[3] == 'Some') or
                             (r[0] == 'call' and r[1] in cs and bool(INTP.search(cs[r[1]]['res']))))
        return audited(site, key, good, 'Timer::partial_cmp can return None (it is neither Some(..) nor an integer partial_cmp)')
    return audited(site, key)


def h_buf_need_const(k):
    def h(site):
        if site.owner == 'Foca::send_message' and 'put_u16' in site.raw['desc'] and \
                '[u8]' in site.raw['term'].get('selfty', ''):
            return h_tally_patch(site)
        return need_budget(site, lambda e: (e['args'][0], k, []))
    return h


def h_buf_advance(site):
    key = (site.owner, 'call', 'bytes::Buf::advance')
    if key in T.AUDITED:
        # postcard decoders: advance(remaining - rest.len())
        good = True
        for p, i, e in site.occurrences():
            a = e['args'][1]
            good = good and a[0] == 'binop' and a[1] == 'Sub'
        return audited(site, key, good, 'advance argument is no longer remaining - rest.len()')
    return need_budget(site, lambda e: (e['args'][0], 0, [e['args'][1]]))


def h_put_slice(site):
    return need_budget(site, lambda e: (e['args'][0], 0, [e['args'][1]]))


def h_index(site):
    callee = site.raw['res'] or site.raw['decl']
    key = (site.owner, 'call', callee)
    if key in T.AUDITED:
        if site.owner == 'member::Members::choose_members':
            good = True
            for p, i, e in site.occurrences():
                cs = [q.cmp_norm(c) for c in q.conds_before(p, i)]
                idx = e['args'][1]
                body = site.f.fn('member::Members::choose_members')
                # `wanted`: the only usize parameter, wherever it stands; comparisons in either spelling
                ws = [('param', 0, k) for k in range(1, body.argc + 1) if str(body.locals[k]) == 'usize']
                wanted = ws[0] if len(ws) == 1 else None
                g1 = any(n is not None and n == ('gt', wanted, idx) for n in cs)
                g2 = any(n is not None and n[0] == 'ge' and n[2] == wanted and n[1] != idx for n in cs)
                good = good and wanted is not None and g1 and g2
            return audited(site, key, good, 'index is no longer guarded by `replace_at < wanted` on the failing edge '
                                            'of `num_chosen < wanted`')
        if site.owner == 'Foca::send_message':
            return h_tally_patch(site)
        return audited(site, key)
    # slice[..end]
    # slice[..end] / slice[start..]: in bounds iff the buffer holds at least `end` / `start` elements
    def need(e):
        rng = e['args'][1]
        for ty, fld in (('RangeTo', 'end'), ('RangeFrom', 'start')):
            if rng[0] == 'agg' and rng[2].endswith('::' + ty) and fld in rng[4]:
                c, atoms = split_sum(q.agg_field(rng, fld))
                return (e['args'][0], c, atoms)
        return (e['args'][0], 10 ** 18, [])
    return need_budget(site, need)


def h_tally_patch(site):
    """send_message: buf.get_mut()[tally_position..].as_mut().put_u16(num_items)"""
    good = True
    why = ''
    for p in site.paths:
        evs = p.events
        idxs = [i for i, e in enumerate(evs) if e['kind'] == 'call' and e['res'].endswith('IndexMut>::index_mut')]
        for i in idxs:
            rng = evs[i]['args'][1]
            start = q.agg_field(rng, 'start') if rng[0] == 'agg' else None
            # start must be Vec::len(get_ref(buf)) taken immediately before a put_u16 on buf
            if start is None or start[0] != 'call':
                good, why = False, 'index start is not a recorded length'
                continue
            lens = [j for j, e in enumerate(evs[:i]) if e['kind'] == 'call' and e['id'] == start[1]]
            if not lens or evs[lens[0]]['res'] != 'alloc::vec::Vec::len':
                good, why = False, 'index start is not Vec::len(..)'
                continue
            j = lens[0]
            puts = [k for k in range(j, i) if evs[k]['kind'] == 'call' and evs[k]['decl'] == 'bytes::BufMut::put_u16']
            if not puts:
                good, why = False, 'no put_u16 placeholder between taking the length and patching'
                continue
            # no mutation of the buffer between len() and the placeholder
            for k in range(j + 1, puts[0]):
                if evs[k]['kind'] == 'call' and any(a[0] == 'ref' and a[2] for a in evs[k]['args']) and \
                        evs[k]['decl'] not in ('bytes::buf::Limit::get_ref',):
                    good, why = False, 'buffer mutated between len() and placeholder'
            # every truncate between placeholder and patch uses a length recorded after the placeholder
            for k in range(puts[0], i):
                e = evs[k]
                if e['kind'] == 'call' and e['res'] == 'alloc::vec::Vec::truncate':
                    a = e['args'][1]
                    src = [m for m in range(puts[0], k) if evs[m]['kind'] == 'call' and a == ('call', evs[m]['id'])
                           and evs[m]['res'] == 'alloc::vec::Vec::len']
                    if not src:
                        good, why = False, 'truncate to a position not recorded after the placeholder'
    key = (site.owner, 'call', '<alloc::vec::Vec as core::ops::IndexMut>::index_mut')
    if 'put_u16' in site.raw['desc']:
        key = (site.owner, 'call', 'bytes::BufMut::put_u16#slice')
    return audited(site, key, good, why)


def h_swap_remove(site):
    b = site.body
    if b.kind == 'Closure':
        # closure |pos| v.swap_remove(pos) passed to Option::map on the result of position() over the same Vec
        parent = site.f.fn(b.parent)
        good = False
        for p in site.ctx.paths(site.f, parent, 'none'):
            for e in p.calls():
                if e['res'] == 'core::option::Option::map' and e['args'][1][0] == 'agg' and e['args'][1][2] == b.nname:
                    recv = e['args'][0]
                    calls = {c['id']: c for c in p.calls()}
                    if recv[0] == 'call' and calls[recv[1]]['res'].endswith('Iterator>::position'):
                        good = True
        if good:
            return ok(site, 'index comes from Iterator::position over the same vector (Option::map closure)')
        return bad(site, 'closure argument is not provably the result of position() over the vector')
    for p, i, e in site.occurrences():
        idx = e['args'][1]
        calls = {c['id']: c for c in p.calls()}
        opt = q.some_payload(p, idx)
        good = opt is not None and opt[0] == 'call' and opt[1] in calls and calls[opt[1]]['res'].endswith('Iterator>::position')
        if not good and idx[0] == 'fieldv' and idx[2] == '0':
            # `for (pos, x) in v.iter().enumerate() { .. return v.swap_remove(pos) }`: pos < v.len()
            item = q.some_payload(p, idx[1])
            if item is not None and item[0] == 'call' and item[1] in calls and \
                    calls[item[1]]['res'] == '<core::iter::Enumerate as core::iter::Iterator>::next':
                vec = buffer_id(e['args'][0])
                it = q.pre_havoc((calls[item[1]].get('derefs') or [None])[0] or calls[item[1]]['args'][0])
                over_same = q.derives_from(p, it, lambda c: c['res'] == '<alloc::vec::Vec as core::ops::Deref>::deref'
                                           and buffer_id(c['args'][0]) == vec)
                j = [k for k, x in enumerate(p.events) if x['kind'] == 'call' and x['id'] == item[1]][0]
                untouched = not any(x['kind'] == 'call' and any(a[0] == 'ref' and a[2] and buffer_id(a) == vec for a in x['args'])
                                    for x in p.events[j + 1:i])
                if over_same and untouched:
                    continue
        if good:
            vec = buffer_id(e['args'][0])
            j = [k for k, x in enumerate(p.events) if x['kind'] == 'call' and x['id'] == opt[1]][0]
            for x in p.events[j + 1:i]:
                if x['kind'] == 'call' and any(a[0] == 'ref' and a[2] and buffer_id(a) == vec for a in x['args']):
                    good = False
        if not good:
            return bad(site, 'index is not the Some(..) result of position() over the same unmodified vector')
    return ok(site, 'index is the Some(..) result of Iterator::position over the same vector, unmodified in between')


def h_drain_full(site):
    g = site.raw['term'].get('gargs', '')
    if 'RangeFull' in g:
        return ok(site, 'Vec::drain(..) with RangeFull cannot be out of range')
    return bad(site, 'Vec::drain with a range that is not RangeFull')


def h_audited_call(site):
    callee = site.raw['res'] or site.raw['decl']
    key = (site.owner, 'call', callee)
    if key == ('member::Members::choose_members', 'call', 'rand::Rng::random_range'):
        good = True
        for p, i, e in site.occurrences():
            rng = e['args'][1]
            start = q.agg_field(rng, 'start') if rng[0] == 'agg' else None
            end = q.agg_field(rng, 'end') if rng[0] == 'agg' else None
            good = good and start is not None and start[0] == 'const' and start[2] == 0
            # end = <something> + 1 computed on this path (num_seen just incremented)
            good = good and end is not None and ((end[0] == 'binop' and end[1] == 'Add') or
                                                 (end[0] == 'const' and (end[2] or 0) >= 1))
        return audited(site, key, good, 'range is no longer 0..(num_seen after += 1)')
    if key == ('config::Config::suspicion_duration', 'call', 'core::time::Duration::from_secs_f64'):
        callers = site.f.callers_of(lambda n: n == 'config::Config::suspicion_duration')
        good = len(callers) >= 1
        for cb, bi, t in callers:
            good = good and cb.nname in ('config::Config::new_lan', 'config::Config::new_wan')
        # the multiplier is a literal at every call site (possibly forwarded through a shared constructor)
        lits = literal_args(site.f, 'config::Config::suspicion_duration', 3)
        good = good and bool(lits)
        return audited(site, key, good, 'suspicion_duration is called with a non-literal multiplier or from elsewhere')
    return audited(site, key)


CALL_HANDLERS = {
    'unwrap': h_unwrap,
    'buf_need_const:2': h_buf_need_const(2), 'buf_need_const:1': h_buf_need_const(1),
    'bufmut_need_const:2': h_buf_need_const(2), 'bufmut_need_const:1': h_buf_need_const(1),
    'buf_advance': h_buf_advance, 'bufmut_put_slice': h_put_slice, 'index': h_index,
    'swap_remove': h_swap_remove, 'drain_full': h_drain_full, 'audited': h_audited_call,
}


# --------------------------------------------------------------------------------------------- assert handlers

def h_assert(site):
    t = site.raw['term']
    kind = t['kind']
    occ = site.occurrences()
    if kind.startswith('Overflow(Sub)') and occ:
        # a - c with a guard establishing a >= c for the same symbolic value
        allok = True
        for p, i, e in occ:
            a, c = e['ops']
            if not (c[0] == 'const' and c[2] is not None):
                allok = False
                break
            good = False
            for cd in q.conds_before(p, i):
                ex = cd['expr']
                tr = q.cond_truth(cd)
                if ex[0] == 'binop' and ex[2] == a and ex[3][0] == 'const' and ex[3][2] is not None:
                    k = ex[3][2]
                    if (ex[1] == 'Gt' and tr and k + 1 >= c[2]) or (ex[1] == 'Ge' and tr and k >= c[2]) or \
                            (ex[1] == 'Eq' and tr is False and k == 0 and c[2] == 1) or \
                            (ex[1] == 'Ne' and tr and k == 0 and c[2] == 1):
                        good = True
            if not good:
                allok = False
                break
        if allok:
            return ok(site, 'subtraction guarded by a dominating `value > 0`-style test on the same value on every path')
    if kind.startswith('Overflow(Add)') and occ:
        # the length of an in-memory collection (<= isize::MAX) plus a small constant
        allok = True
        for p, i, e in occ:
            calls = {c['id']: c for c in p.calls()}
            a, c = e['ops']
            if c[0] != 'const':
                a, c = c, a
            if not (c[0] == 'const' and c[2] is not None and 0 <= c[2] <= 2 ** 32 and a[0] == 'call' and a[1] in calls and
                    calls[a[1]]['res'] in ('alloc::vec::Vec::len', 'core::slice::<impl [T]>::len')):
                allok = False
                break
        if allok:
            return ok(site, 'a Vec/slice length (<= isize::MAX) plus a constant below 2^32 cannot overflow usize')
        # x + 1 after a test establishing x < y for the same symbolic value (`while n < limit { ..; n += 1 }`): y is
        # representable, so x + 1 <= y is too
        allok = True
        for p, i, e in occ:
            a, c = e['ops']
            if c[0] != 'const':
                a, c = c, a
            if not (c[0] == 'const' and c[2] == 1 and a[0] != 'const'):
                allok = False
                break
            good = False
            for cd in q.conds_before(p, i):
                n = q.cmp_norm(cd)
                if n is not None and n[0] == 'gt' and n[2] == a:
                    good = True
            if not good:
                allok = False
                break
        if allok:
            return ok(site, 'increment by one of a value that a preceding test on every path showed to be strictly below '
                            'another value of its type')
    if kind == 'DivisionByZero' and occ:
        divisor = site.raw['desc'].rsplit('/', 1)[-1] if '/' in site.raw['desc'] else ''
        if divisor.isdigit() and int(divisor) != 0:
            return ok(site, 'division by a non-zero literal')
        # estimate_feed_capacity: the divisor must be exactly (max_packet_size - remaining) / 2, and the call site must
        # guarantee max_packet_size - remaining >= 2.  Both operands may be read in place or handed in as parameters.
        key = (site.owner, 'assert', 'DivisionByZero')
        good = site.owner == 'Foca::estimate_feed_capacity'
        why = 'division whose divisor is not the audited (max_packet_size - remaining) / 2'
        AB = None
        for p, i, e in occ:
            c = e.get('cond')
            calls = {x['id']: x for x in p.calls()}
            d = c[2] if c and c[0] == 'binop' and c[1] == 'Eq' and q.is_const(c[3], 0) else None
            if not (d and d[0] == 'binop' and d[1] == 'Div' and q.is_const(d[3], 2) and d[2][0] == 'call' and
                    calls[d[2][1]]['res'] == 'core::num::<impl usize>::saturating_sub'):
                good = False
                break
            ab = tuple(calls[d[2][1]]['args'])
            if AB is not None and ab != AB:
                good = False
            AB = ab
        if not good or AB is None:
            return bad(site, '%s (%s)' % (why, site.raw['desc'].rsplit('/', 1)[-1]))
        owner_body = site.f.fn('Foca::estimate_feed_capacity')
        cfg_params = [k for k in range(1, owner_body.argc + 1) if str(owner_body.locals[k]).endswith('config::Config')]

        def is_mps(v, call=None):
            if not (v[0] == 'unop' and v[1] == 'NonZeroGet'):
                return False
            if q.loads_self_field(v[2], 'config', 'max_packet_size'):
                return True
            # read through a `&Config` parameter that the caller fills with `&self.config`
            for k in cfg_params:
                if v[2] == ('load', ('field', ('deref', ('param', 0, k)), 'max_packet_size', None), 0) and call is not None \
                        and call['args'][k - 1] == ('ref', q.self_field('config'), False):
                    return True
            return False
        why = 'call site of estimate_feed_capacity is not dominated by put_u16 on the limited buffer'
        callers = site.f.callers_of(lambda n: n == 'Foca::estimate_feed_capacity')
        good = len(callers) == 1
        nsite = 0
        for cb, bi, tt in callers:
            for p in site.ctx.paths(site.f, cb, 'none'):
                for i, e in enumerate(p.events):
                    if e['kind'] == 'call' and e['res'] == 'Foca::estimate_feed_capacity':
                        nsite += 1
                        val = lambda v: e['args'][v[2] - 1] if (v[0] == 'param' and v[1] == 0) else v
                        A, arg = val(AB[0]), val(AB[1])
                        calls = {c['id']: c for c in p.calls()}
                        is_rem = arg[0] == 'call' and arg[1] in calls and calls[arg[1]]['res'].endswith('BufMut>::remaining_mut')
                        put = [c for c in p.events[:i] if c['kind'] == 'call' and c['decl'] == 'bytes::BufMut::put_u16'
                               and is_rem and buffer_id(c['args'][0]) == buffer_id(calls[arg[1]]['args'][0])]
                        lim = [c for c in p.events[:i] if c['kind'] == 'call' and c['res'] == 'bytes::BufMut::limit'
                               and q.loads_self_field(c['args'][1], 'config', 'max_packet_size')]
                        if not (is_mps(A, e) and is_rem and put and lim):
                            good = False
        return audited(site, key, good and nsite > 0, why)
    key = (site.owner, 'assert', site.raw['desc'])
    if site.raw['desc'] == 'Overflow(Add):counter:usize,1' and key not in T.AUDITED_ASSERTS:
        # (functions with an audited entry keep their specific argument)
        return ok(site, 'a usize counter that starts at a constant and is only ever stepped by the constant 1 (checked '
                        'from its definitions): it counts loop iterations / elements of an in-memory collection, and '
                        'reaching usize::MAX takes 2^64 steps')
    if key in T.AUDITED_ASSERTS:
        extra, why = True, ''
        chk = ASSERT_SUBCHECKS.get(key)
        if chk:
            extra, why = chk(site)
        if extra:
            return ok(site, 'audited: ' + T.AUDITED_ASSERTS[key])
        return bad(site, 'audited entry exists but its structural sub-condition no longer holds: ' + why)
    for owner, pat, text, *pred in T.AUDITED_ASSERT_PATTERNS:
        if owner == site.owner and pat.match(site.raw['desc']) and (not pred or pred[0](site.raw['desc'])):
            return ok(site, 'audited: ' + text)
    return bad(site, 'arithmetic/bounds assert without guard or audited entry (key %s)' % (key,))


def sub_send_message_num_items(site):
    """wanted argument of choose_active_members in the Feed branch is min(estimate, u16::MAX)"""
    good = False
    for p in site.paths:
        for e in p.calls():
            if e['res'] == 'member::Members::choose_active_members':
                w = e['args'][1]
                if q.bounded_by(p, w, 65535, follow=lambda nm: site.ctx.paths(site.f, site.f.fn(nm), 'none')
                                if nm in site.f.by_name else None):
                    good = True
                else:
                    return False, 'number of members selected for a Feed is not capped with min(.., u16::MAX)'
    return good, 'no choose_active_members call found'


def sub_apply_len_minus_one(site):
    for p, i, e in site.occurrences():
        pushes = [j for j, x in enumerate(p.events[:i]) if x['kind'] == 'call' and x['res'] == 'alloc::vec::Vec::push']
        if not pushes:
            return False, 'no push before len() - 1'
        for x in p.events[pushes[-1] + 1:i]:
            if x['kind'] == 'call' and x['res'] in ('alloc::vec::Vec::pop', 'alloc::vec::Vec::swap_remove',
                                                    'alloc::vec::Vec::clear', 'alloc::vec::Vec::truncate'):
                return False, 'vector shrinks between push and len() - 1'
    return True, ''


def sub_indirect_ack_count(site):
    for p, i, e in site.occurrences():
        if not any(x['kind'] == 'call' and x['res'] == 'alloc::vec::Vec::swap_remove' for x in p.events[i:]):
            return False, 'increment not paired with removal of the acknowledged helper'
    return True, ''


ASSERT_SUBCHECKS = {
    ('Foca::send_message', 'assert', 'Overflow(Add):acc:u16,1'): sub_send_message_num_items,
    ('Foca::send_message', 'assert', 'Overflow(Add):counter:u16,1'): sub_send_message_num_items,
    ('member::Members::apply', 'assert', 'Overflow(Sub):len(self.inner),1'): sub_apply_len_minus_one,
    ('probe::Probe::receive_indirect_ack', 'assert', 'Overflow(Add):self.indirect_ack_count,1'): sub_indirect_ack_count,
}


# ---------------------------------------------------------------------------------------------- panic handlers

def callers_guarded(site, fn, pred, what):
    """Every call site of `fn` is preceded on every path by a cond satisfying pred(path, cond) with no &mut self
    call in between."""
    callers = site.f.callers_of(lambda n: n == fn)
    if not callers:
        return False, 'no caller found'
    n = 0
    for cb, bi, tt in callers:
        for p in site.ctx.paths(site.f, cb, 'none'):
            for i, e in enumerate(p.events):
                if e['kind'] == 'call' and e['res'] == fn and e['tblock'] == bi:
                    n += 1
                    good = False
                    for j in range(i - 1, -1, -1):
                        x = p.events[j]
                        if x['kind'] == 'cond' and pred(p, x):
                            good = True
                            break
                        if x['kind'] == 'call' and any(a == ('ref', q.SELF, True) for a in x['args']):
                            break
                    if not good:
                        return False, '%s: call in %s not guarded by %s' % (fn, cb.nname, what)
    return n > 0, 'no call occurrence'


def p_add_or_replace_max_tx(site):
    callers = site.f.callers_of(lambda n: n == 'broadcast::Broadcasts::add_or_replace')
    n = 0
    for cb, bi, tt in callers:
        for p in site.ctx.paths(site.f, cb, 'none'):
            for e in p.calls():
                if e['res'] == 'broadcast::Broadcasts::add_or_replace' and e['tblock'] == bi:
                    n += 1
                    a = e['args'][3]

                    def nonzero(v, _b):
                        while v[0] == 'cast':
                            v = v[2]
                        return v[0] == 'unop' and v[1] == 'NonZeroGet'
                    from . import common as _common
                    if not _common.value_or_param_satisfies(site.ctx, site.f, cb, a, nonzero):
                        return False, 'add_or_replace called in %s with a max_tx that is not NonZero::get(..)' % cb.nname
    return n >= 5, 'fewer than 5 add_or_replace call occurrences'


def p_flop_empty(site):
    eff = site.eff
    w = set(eff.writers_of('broadcast::Broadcasts', 'flop'))
    if not w <= {'broadcast::Broadcasts::fill', 'broadcast::Broadcasts::fill_with_len_prefix'}:
        return False, 'Broadcasts.flop is borrowed mutably outside fill/fill_with_len_prefix: %s' % sorted(w)
    for fn in ('broadcast::Broadcasts::fill', 'broadcast::Broadcasts::fill_with_len_prefix'):
        b = site.f.fn(fn)
        for p in site.ctx.paths(site.f, b, 'none'):
            if p.end != 'return':
                continue
            pushes = [i for i, e in enumerate(p.events) if e['kind'] == 'call' and e['res'] == 'alloc::collections::BinaryHeap::push'
                      and e['args'][0] == ('ref', ('field', q.SELF, 'flop', None), True)]
            if pushes:
                app = [i for i, e in enumerate(p.events) if e['kind'] == 'call' and e['res'] == 'alloc::collections::BinaryHeap::append'
                       and e['args'][0] == ('ref', ('field', q.SELF, 'flip', None), True)
                       and e['args'][1] == ('ref', ('field', q.SELF, 'flop', None), True)]
                if not app or app[-1] < pushes[-1]:
                    return False, '%s returns with entries left in flop' % fn
    return True, ''


def p_remaining_tx_positive(site):
    f = site.f
    # (i) Entry constructed only in add_or_replace with remaining_tx = max_tx
    n = 0
    for b in f.bodies:
        for bl in b.blocks:
            for s in bl['stmts']:
                if 'rv' in s and s['rv']['k'] == 'aggregate' and strip_generics(s['rv']['name']) == 'broadcast::Entry':
                    if b.nname == '<broadcast::Entry as core::clone::Clone>::clone':
                        continue
                    if f.attributed(b) != ['broadcast::Broadcasts::add_or_replace']:
                        return False, 'Entry constructed in %s' % b.nname
                    n += 1
    if n != 1:
        return False, 'Entry construction sites: %d' % n
    b = f.fn('broadcast::Broadcasts::add_or_replace')
    for p in site.ctx.paths(f, b, 'none'):
        for e in p.calls():
            if e['res'] == 'alloc::collections::BinaryHeap::push':
                ent = e['args'][1]
                if q.agg_field(ent, 'remaining_tx') != ('param', 0, 4):
                    return False, 'new entry does not start with remaining_tx = max_tx'
    okc, why = p_add_or_replace_max_tx(site)
    if not okc:
        return okc, why
    # (ii) entries go back to the heap only with remaining_tx > 0
    for fn in ('broadcast::Broadcasts::fill', 'broadcast::Broadcasts::fill_with_len_prefix'):
        b = f.fn(fn)
        for p in site.ctx.paths(f, b, 'none'):
            for i, e in enumerate(p.events):
                if e['kind'] == 'call' and e['res'] == 'alloc::collections::BinaryHeap::push':
                    ent = e['args'][1]
                    # the transmissions the pushed entry has left *now* (after a possible decrement) were tested > 0
                    left = q.field_of(ent, 'remaining_tx')
                    good = any(q.zero_test(c, lambda v: v == left) == 'pos' for c in q.conds_before(p, i))
                    if not good:
                        return False, '%s pushes an entry back without checking remaining_tx > 0' % fn
    w = set(site.eff.writers_of('broadcast::Entry', 'remaining_tx'))
    if not w <= {'broadcast::Broadcasts::fill', 'broadcast::Broadcasts::fill_with_len_prefix'}:
        return False, 'Entry.remaining_tx written outside fill*: %s' % sorted(w)
    return True, ''


def p_len_fits_u16(site):
    f = site.f
    # fill_with_len_prefix is only used on custom_broadcasts
    for cb, bi, tt in f.callers_of(lambda n: n == 'broadcast::Broadcasts::fill_with_len_prefix'):
        for p in site.ctx.paths(f, cb, 'none'):
            for e in p.calls():
                if e['res'] == 'broadcast::Broadcasts::fill_with_len_prefix' and \
                        e['args'][0] != ('ref', q.self_field('custom_broadcasts'), True):
                    return False, 'fill_with_len_prefix used on a backlog other than custom_broadcasts'
    n = 0
    for cb, bi, tt in f.callers_of(lambda n: n == 'broadcast::Broadcasts::add_or_replace'):
        for p in site.ctx.paths(f, cb, 'none'):
            for i, e in enumerate(p.events):
                if e['kind'] != 'call' or e['res'] != 'broadcast::Broadcasts::add_or_replace' or e.get('tblock', e['block']) != bi:
                    continue
                if e['args'][0] != ('ref', q.self_field('custom_broadcasts'), True):
                    continue
                n += 1
                data = e['args'][2]
                calls = {c['id']: c for c in p.calls()}
                if not (data[0] == 'call' and calls[data[1]]['res'] == 'alloc::slice::<impl [T]>::to_vec'):
                    return False, 'custom broadcast data is not a to_vec() of the received slice'
                src = calls[data[1]]['args'][0]
                if cb.nname == 'Foca::add_broadcast':
                    # len(data) > u16::MAX must have been refused
                    good = False
                    for c in q.conds_before(p, i):
                        nrm = q.cmp_norm(c)       # `len <= k` in any spelling
                        if nrm and nrm[0] == 'ge' and nrm[2][0] == 'call' and nrm[2][1] in calls and \
                                calls[nrm[2][1]]['res'].endswith('::len'):
                            for rhs in q.min_operands(p, nrm[1]):       # `len <= k` or `len <= min(.., k)`
                                rhs = q.peel(rhs)
                                if rhs[0] == 'const' and rhs[2] is not None and rhs[2] <= 65535:
                                    good = True
                    if not good:
                        return False, 'add_broadcast accepts items longer than u16::MAX (length prefix is 16 bits)'
                else:
                    # received item: &data[..pkt_len] with pkt_len = get_u16() as usize
                    s = src
                    good = False
                    if s[0] == 'ref' and s[1][0] == 'deref' and s[1][1][0] == 'call':
                        ix = calls[s[1][1][1]]
                        if ix['res'].endswith('Index for [T]>::index'):
                            end = q.agg_field(ix['args'][1], 'end') if ix['args'][1][0] == 'agg' else None
                            if end is not None:
                                inner = end
                                while inner[0] == 'cast':
                                    inner = inner[2]
                                good = inner[0] == 'call' and calls[inner[1]]['decl'] == 'bytes::Buf::get_u16'
                    if not good:
                        return False, 'received custom item length is not bounded by a u16 read'
    return n >= 2, 'custom_broadcasts.add_or_replace occurrences: %d' % n


def p_updates_buf_untouched(site):
    w = site.eff.writers_of('Foca', 'updates_buf', direct=False)
    callees = ['Foca::apply_many']
    for c in callees:
        if site.eff.writes_field(c, 'Foca', 'updates_buf'):
            return False, '%s may (transitively) write Foca.updates_buf while it is taken' % c
    return True, ''


def p_probe_connected(site):
    def pred(p, c):
        return q.conn_state_test(site.f, c, 'Connected') is True
    return callers_guarded(site, 'Foca::probe_random_member', pred, 'connection_state == Connected')


def p_apply_update_not_self(site):
    f = site.f
    n = 0
    for cb, bi, tt in f.callers_of(lambda n_: n_ == 'Foca::apply_update'):
        for p in site.ctx.paths(f, cb, 'small'):
            for i, e in enumerate(p.events):
                if e['kind'] != 'call' or e['res'] != 'Foca::apply_update' or e['body'] != cb.nname:
                    continue
                n += 1
                upd = e['args'][1]
                uid = q.agg_field(upd, 'id') if upd[0] == 'agg' else ('fieldv', upd, 'id', None)
                good = False
                for c in q.conds_before(p, i):
                    es = q.eq_sides(c['expr'])
                    if not es:
                        continue
                    is_eq, a, b = es
                    sides = {a, b}
                    if any(q.is_self_field_load(x, 'identity') for x in sides) and uid in sides:
                        if q.cond_truth(c) != is_eq:
                            good = True
                if not good:
                    return False, 'apply_update call in %s is not preceded by a failed `id == self.identity` test ' \
                                  'on the applied identity' % cb.nname
    return n >= 3, 'apply_update occurrences: %d' % n


def p_num_members(zero):
    def chk(site):
        fn = 'Foca::become_disconnected' if zero else 'Foca::become_connected'

        def pred(p, c):
            return q.zero_test(c, q.num_active_term(p)) == ('zero' if zero else 'pos')
        okc, why = callers_guarded(site, fn, pred, 'num_active() %s 0' % ('==' if zero else '>'))
        if not okc:
            return okc, why
        return True, ''
    return chk


def p_send_buf_capacity(site):
    """C06-R4: send_buf.capacity() == config.max_packet_size is re-established by every writer of config/send_buf."""
    f, eff = site.f, site.eff
    w_cfg = set(eff.writers_of('Foca', 'config', kinds=('W',)))
    if not w_cfg <= {'Foca::set_config'}:
        return False, 'Foca.config assigned outside set_config: %s' % sorted(w_cfg)
    w_sb = set(eff.writers_of('Foca', 'send_buf'))
    if not w_sb <= {'Foca::set_config', 'Foca::send_message'}:
        return False, 'Foca.send_buf written/borrowed outside send_message/set_config: %s' % sorted(w_sb)
    mut_cfg = set(eff.writers_of('Foca', 'config', kinds=('M',)))
    if mut_cfg:
        return False, 'Foca.config is lent mutably in %s' % sorted(mut_cfg)
    # constructor
    cb = f.fn('Foca::with_custom_broadcast')
    for p in site.ctx.paths(f, cb, 'none'):
        if p.end != 'return':
            continue
        sb = q.agg_field(p.ret, 'send_buf') if p.ret[0] == 'agg' else None
        calls = {c['id']: c for c in p.calls()}
        good = sb is not None and sb[0] == 'call' and calls[sb[1]]['res'] == 'alloc::vec::Vec::with_capacity'
        if good:
            cap = calls[sb[1]]['args'][0]
            good = cap[0] == 'unop' and cap[1] == 'NonZeroGet' and cap[2][0] == 'fieldv' and cap[2][2] == 'max_packet_size'
        if not good:
            return False, 'constructor does not allocate send_buf with capacity config.max_packet_size'
    # set_config
    sc = f.fn('Foca::set_config')
    newcfg = ('param', 0, 2)
    for p in site.ctx.paths(f, sc, 'none'):
        ws = [(i, w) for i, w in enumerate(p.events) if w['kind'] == 'write' and w['place'] == q.self_field('config')]
        if not ws:
            continue
        i = ws[0][0]
        same = False
        for c in q.conds_before(p, i):
            es = q.eq_sides(c['expr'])
            if es:
                is_eq, a, b = es
                names = set()
                for x in (a, b):
                    if x[0] == 'load':
                        names.add(tuple(q.field_path(x[1])[1]))
                    elif x[0] == 'fieldv':
                        names.add(('new', x[2]))
                if names == {('config', 'max_packet_size'), ('new', 'max_packet_size')} and q.cond_truth(c) == is_eq:
                    same = True
        rebuilt = False
        calls = {c['id']: c for c in p.calls()}
        for w in p.writes():
            if w['place'] == q.self_field('send_buf') and w['value'][0] == 'call' and \
                    calls[w['value'][1]]['res'] == 'alloc::vec::Vec::with_capacity':
                cap = calls[w['value'][1]]['args'][0]
                if cap[0] == 'unop' and cap[1] == 'NonZeroGet' and cap[2] == ('fieldv', newcfg, 'max_packet_size', None):
                    rebuilt = True
        if not (same or rebuilt):
            return False, 'set_config can install a different max_packet_size without rebuilding send_buf ' \
                          '(send_message debug-asserts capacity == max_packet_size)'
    # send_message puts back the buffer it took
    sm = f.fn('Foca::send_message')
    for p in site.ctx.paths(f, sm, 'none'):
        calls = {c['id']: c for c in p.calls()}
        for w in p.writes():
            if w['place'] == q.self_field('send_buf') and w.get('via') != 'mem::take':
                v = w['value']
                if not (v[0] == 'call' and calls[v[1]]['res'] == 'bytes::buf::Limit::into_inner'):
                    return False, 'send_message stores something other than the taken buffer back into send_buf'
        # ... on every way out, error exits included: a `?` between the take and the put-back leaves send_buf with
        # capacity 0 and the next send fails the assertion
        if p.end == 'return':
            tk = [k for k, w in enumerate(p.events) if w['kind'] == 'write' and w['place'] == q.self_field('send_buf')
                  and w.get('via') == 'mem::take']
            back = [k for k, w in enumerate(p.events) if w['kind'] == 'write' and w['place'] == q.self_field('send_buf')
                    and w.get('via') != 'mem::take']
            if tk and not (back and back[-1] > tk[-1]):
                return False, 'send_message can return (an error exit) without putting the taken buffer back into send_buf'
    return True, ''


def p_send_buf_untouched(site):
    sm = site.f.fn('Foca::send_message')
    for p in site.ctx.paths(site.f, sm, 'none'):
        took = None
        for i, e in enumerate(p.events):
            if e['kind'] == 'write' and e['place'] == q.self_field('send_buf'):
                if e.get('via') == 'mem::take':
                    took = i
                else:
                    took = None
            elif took is not None and e['kind'] == 'call':
                for a in e['args']:
                    if a == ('ref', q.SELF, True) or (a[0] == 'ref' and a[2] and is_prefix(q.self_field('send_buf'), a[1])):
                        return False, 'a callee gets &mut self / &mut send_buf while send_buf is taken: %s' % (e['res'] or e['decl'])
    return True, ''


def p_expect_indirect_ack(site):
    f = site.f
    callers = f.callers_of(lambda n: n == 'probe::Probe::expect_indirect_ack')
    if [c[0].nname for c in callers] != ['Foca::handle_timer']:
        return False, 'expect_indirect_ack called from %s' % [c[0].nname for c in callers]
    ht = f.fn('Foca::handle_timer')
    n = 0
    for p in site.ctx.paths(f, ht, 'none'):
        for i, e in enumerate(p.events):
            if e['kind'] == 'call' and e['res'] == 'probe::Probe::expect_indirect_ack':
                n += 1
                calls = {c['id']: c for c in p.calls()}
                prob = [c for c in q.conds_before(p, i) if c['expr'][0] == 'call'
                        and calls[c['expr'][1]]['res'] == 'probe::Probe::is_probing' and q.cond_truth(c) is True]
                if not prob:
                    return False, 'expect_indirect_ack not guarded by is_probing(probed_id)'
                pick = [c for c in p.events[:i] if c['kind'] == 'call' and c['res'] == 'member::Members::choose_active_members']
                if not pick:
                    return False, 'helpers are not drawn from choose_active_members'
                # ... into an empty buffer: what is popped afterwards are the freshly chosen helpers only (a left-over
                # entry of an earlier, interrupted pop loop may be the probed member itself)
                pi = [k for k, x in enumerate(p.events) if x is pick[-1]][0]
                dest = pick[-1]['args'][2]
                cleared = [x for x in p.events[:pi] if x['kind'] == 'call' and x['res'] == 'alloc::vec::Vec::clear'
                           and x['args'][0] == dest]
                touched = [x for x in p.events[:pi] if x['kind'] == 'call' and x['res'] != 'alloc::vec::Vec::clear' and
                           any(a == dest or a == ('ref', q.SELF, True) for a in x['args'])]
                if not cleared or (touched and p.events.index(touched[-1]) > p.events.index(cleared[-1])):
                    return False, 'the helpers are chosen into a buffer that was not cleared first'
                clo = pick[-1]['args'][4]
                if not (clo[0] == 'agg' and clo[1] == 'closure'):
                    return False, 'picker is not a closure'
                cb = f.fn(clo[2])
                cps = site.ctx.paths(f, cb, 'none')
                if not (len(cps) == 1 and cps[0].ret[0] == 'binop' and cps[0].ret[1] == 'Ne'):
                    return False, 'helper picker is not `candidate != probed_id`'
    return n > 0, 'no occurrence'


def p_postcard_contiguous(site):
    f = site.f
    n = 0
    for b, bi, t in f.all_calls():
        d = strip_generics(t['decl'])
        if d in ('codec::Codec::decode_header', 'codec::Codec::decode_member') and b.nname.startswith('Foca::'):
            n += 1
            ty = t['args'][1].get('place', {}).get('ty', '')
            if ty.replace(' ', '') not in ("&mut&[u8]", "&'_mut&'_[u8]") and '&[u8]' not in ty:
                return False, 'Foca passes a %s to %s' % (ty, d)
    return n >= 2, 'decode call sites in Foca: %d' % n


def p_socketaddr_conflict(site):
    f = site.f
    callers = f.callers_of(lambda n: n == 'identity::Identity::win_addr_conflict')
    names = sorted({c[0].nname for c in callers})
    if names != ['Foca::attempt_rejoin', 'member::Members::apply_existing_if']:
        return False, 'win_addr_conflict called from %s' % names
    # impl: addr() returns *self and renew() returns None for these types
    for ty in ('core::net::SocketAddr', 'core::net::SocketAddrV4', 'core::net::SocketAddrV6'):
        rb = f.fn('<%s as identity::Identity>::renew' % ty, required=False)
        ab = f.fn('<%s as identity::Identity>::addr' % ty, required=False)
        if rb is None or ab is None:
            continue
        rp = site.ctx.paths(f, rb, 'none')
        ap = site.ctx.paths(f, ab, 'none')
        if not (len(rp) == 1 and q.is_variant(rp[0].ret, 'Option', 'None') or
                (rp[0].ret[0] == 'agg' and rp[0].ret[3] == 'None')):
            return False, '%s::renew may return Some' % ty
        if not (len(ap) == 1 and ap[0].ret == ('load', q.SELF, 0)):
            return False, '%s::addr is not the identity itself' % ty
    # apply_existing_if: guarded by id_conflict; attempt_rejoin: guarded by renew() = Some
    b = f.fn('member::Members::apply_existing_if')
    for p in site.ctx.paths(f, b, 'none'):
        for i, e in enumerate(p.events):
            if e['kind'] == 'call' and e['decl'] == 'identity::Identity::win_addr_conflict':
                if not any(q.eq_sides(c['expr']) and q.cond_truth(c) != q.eq_sides(c['expr'])[0] for c in q.conds_before(p, i)):
                    return False, 'win_addr_conflict reached without identities differing'
    return True, ''


PANIC_CHECKS = {
    ('broadcast::Broadcasts::add_or_replace', 'Gt(<usize>, 0) == 0'):
        (p_add_or_replace_max_tx, 'every caller passes NonZero::get(config.max_transmissions)'),
    ('broadcast::Broadcasts::fill', 'is_empty(self.flop) == 0'):
        (p_flop_empty, 'flop is private to fill*, and append(&mut flop) follows the last push on every returning path'),
    ('broadcast::Broadcasts::fill_with_len_prefix', 'is_empty(self.flop) == 0'):
        (p_flop_empty, 'as fill'),
    ('broadcast::Broadcasts::fill', 'Gt(pop(self.flip).0.remaining_tx, 0) == 0'):
        (p_remaining_tx_positive, 'entries enter with max_tx > 0 and return to the heap only when remaining_tx > 0'),
    ('broadcast::Broadcasts::fill_with_len_prefix', 'Gt(pop(self.flip).0.remaining_tx, 0) == 0'):
        (p_remaining_tx_positive, 'as fill'),
    ('broadcast::Broadcasts::fill_with_len_prefix', '#len-fits-u16'):
        (p_len_fits_u16, 'every custom-broadcast item is at most u16::MAX bytes: add_broadcast refuses longer ones, '
                         'received ones are bounded by their 16-bit length prefix'),
    ('Foca::handle_data', 'Eq(0, capacity(self.updates_buf)) == 0'):
        (p_updates_buf_untouched, 'nothing reachable from apply_many writes Foca.updates_buf'),
    ('Foca::probe_random_member', 'Eq(ConnectionState::Connected, self.connection_state) == 0'):
        (p_probe_connected, 'the only caller tests connection_state == Connected first'),
    ('Foca::apply_update', 'Eq(<member::Member<T>>.id, self.identity) == 1'):
        (p_apply_update_not_self, 'each caller has compared the applied identity with self.identity and found them different'),
    ('Foca::become_disconnected', 'Eq(0, self.members.num_active) == 0'):
        (p_num_members(True), 'only called on the num_active() == 0 edge'),
    ('Foca::become_connected', 'Eq(0, self.members.num_active) == 1'):
        (p_num_members(False), 'only called on the num_active() > 0 edge'),
    ('Foca::send_message', 'Eq(NonZeroGet(self.config.max_packet_size), capacity(get_ref(buf))) == 0'):
        (p_send_buf_capacity, 'C06-R4: every writer of config / send_buf re-establishes capacity == max_packet_size'),
    ('Foca::send_message', 'Eq(0, capacity(self.send_buf)) == 0'):
        (p_send_buf_untouched, 'no callee receives &mut self or &mut send_buf while the buffer is taken'),
    ('probe::Probe::expect_indirect_ack', '#probe-target-differs'):
        (p_expect_indirect_ack, 'guarded by is_probing(probed_id) and helpers are picked with candidate != probed_id'),
    ('<codec::postcard_impl::PostcardCodec as codec::Codec>::decode_header', 'Eq(len(chunk(<impl Buf>)), remaining(<impl Buf>)) == 0'):
        (p_postcard_contiguous, 'Foca only passes &mut &[u8] to decode_*'),
    ('<codec::postcard_impl::PostcardCodec as codec::Codec>::decode_member', 'Eq(len(chunk(<impl Buf>)), remaining(<impl Buf>)) == 0'):
        (p_postcard_contiguous, 'as decode_header'),
    ('<core::net::SocketAddr as identity::Identity>::win_addr_conflict', '#unconditional'):
        (p_socketaddr_conflict, 'unreachable: addr() is the identity and renew() is None'),
    ('<core::net::SocketAddrV4 as identity::Identity>::win_addr_conflict', '#unconditional'):
        (p_socketaddr_conflict, 'as SocketAddr'),
    ('<core::net::SocketAddrV6 as identity::Identity>::win_addr_conflict', '#unconditional'):
        (p_socketaddr_conflict, 'as SocketAddr'),
}


def h_panic(site, cache):
    # the guarding condition in canonical form: pure accessors seen through, orientation/negation normalised
    shapes = set()
    kinds = ('call',) if site.raw['kind'] in ('call', 'panic') else ('assert',)
    for p in site.ctx.paths(site.f, site.body, 'getters'):
        for i, e in enumerate(p.events):
            if e['kind'] in kinds and e.get('block') == site.block and e.get('body') == site.body.nname \
                    and e.get('depth') == 0:
                cs = q.conds_before(p, i)
                shapes.add(q.canon_cond(p, cs[-1], site.body) if cs else '#unconditional')
    fn = site.owner
    if fn == 'broadcast::Broadcasts::fill_with_len_prefix' and any(s.startswith('is_ok(') for s in shapes):
        shapes = {'#len-fits-u16'}
    if fn == 'probe::Probe::expect_indirect_ack':
        shapes = {'#probe-target-differs'}
    if len(shapes) != 1:
        return bad(site, 'panic site with %d different guarding conditions: %s' % (len(shapes), sorted(shapes)))
    shape = shapes.pop()
    key = (fn, shape)
    if key not in PANIC_CHECKS:
        return bad(site, 'explicit panic/assertion without a discharge (condition: %s)' % shape)
    chk, text = PANIC_CHECKS[key]
    if chk not in cache:
        cache[chk] = chk(site)
    good, why = cache[chk]
    if good:
        return ok(site, 'invariant: ' + text, facts={'condition': shape})
    site.rep.violation('C06-R2' if chk is not p_send_buf_capacity else 'C06-R4', fn, 'panic:' + shape,
                       'assertion can fail: ' + why, site=site.raw['span'])
    return False


# ------------------------------------------------------------------------------------------------------- rules

def r0_unsafe(f, rep):
    rep.rule('C06-R0', 'the crate root forbids unsafe code (lint level read from the compiler)')
    rep.check(f.unsafe_code_level in ('Forbid',), 'C06-R0', 'crate', 'unsafe_code lint level is forbid',
              construct='unsafe_code-level', facts={'level': f.unsafe_code_level})


ARITH_FIELDS = {('Foca', 'timer_token'), ('Foca', 'incarnation'), ('member::Members', 'num_active'),
                ('member::Members', 'cursor'), ('probe::Probe', 'probe_number')}
SAFE_ARITH = ('wrapping_add', 'saturating_add', 'saturating_sub', 'wrapping_sub')


def r3_arith(ctx, f, rep):
    rep.rule('C06-R3', 'timer_token, probe_number, incarnation, num_active and cursor are only ever advanced through '
                       'wrapping_add / saturating_add / saturating_sub (or assigned constants / copies)')
    n = 0
    for b in f.bodies:
        if is_generated(b):
            continue
        hit = False
        for bl in b.blocks:
            for s in bl['stmts']:
                if 'lhs' in s:
                    for e in s['lhs']['proj']:
                        if e['k'] == 'field' and (strip_generics(e.get('owner', '')), e['name']) in ARITH_FIELDS:
                            hit = True
        if not hit:
            continue
        for p in ctx.paths(f, b, 'none'):
            calls = {c['id']: c for c in p.calls()}
            for w in p.writes():
                root, names = q.field_path(w['place'])
                if not names:
                    continue
                fld = names[-1]
                if fld not in {x[1] for x in ARITH_FIELDS}:
                    continue
                v = w['value']
                n += 1
                good = True
                if v[0] == 'call':
                    nm = calls[v[1]]['res']
                    good = nm.split('::')[-1] in SAFE_ARITH
                elif v[0] == 'binop' and v[1] in ('Add', 'Sub', 'Mul'):
                    good = False
                elif q.mentions(v, lambda x: x[0] == 'binop' and x[1] in ('Add', 'Sub', 'Mul')):
                    good = False
                rep.check(good, 'C06-R3', b.nname, '%s is advanced with wrapping/saturating arithmetic or assigned a '
                          'copy/constant' % fld, site=w['span'], construct='arith:' + fld,
                          facts={'value': q.describe(p, v, b)})
    rep.floor('C06-R3', n, 8, 'writes to token/counter fields')


def check(ctx):
    rep = ctx.report
    rep.explanation = (
        'Every panic site of the crate (Assert terminators for overflow/division/bounds as compiled with debug '
        'assertions and overflow checks ON, calls to core::panicking::*, unwrap/expect, library routines with a '
        'panicking precondition) is enumerated from MIR in all bodies and must be discharged: by guard reasoning over '
        'all symbolic paths (buffer budgets for Buf/BufMut/slices, guarded subtraction, position->swap_remove), by '
        'constant folding, by a machine-checked invariant (who-may-write, caller guards, pairing), or by an audited '
        'entry whose structural sub-conditions are re-verified. Every external callee must be classified '
        '(total/alloc/partial/user/third-party). The debug build is analysed because it contains a superset of the '
        'release build\'s panic sites (debug_assert!, overflow checks). NOT decided: panics inside third-party crates '
        '(bytes, bincode, postcard, rand, serde derive output) and user-supplied trait impls; allocation failure.')
    rep.not_decided = ['internals of third-party crates and serde-derive output', 'allocation failure / capacity overflow',
                       'the tracing feature (its macro expansions call into the tracing crate)']
    rep.assumptions = ['user-supplied Codec/Runtime/BroadcastHandler/Identity/Rng do not panic (as the property states)',
                       'classification table of external callees (rules/c06_tables.py)',
                       'audited table entries (rules/c06_tables.py), each with a written argument',
                       'a usize counter that starts at a constant and is only stepped by 1 does not reach usize::MAX '
                       '(2^64 steps on the supported targets; on a 32-bit target the argument is that each step visits '
                       'an element of an in-memory collection)']
    for cfgname in ctx.configs(quick=('base', 'wire'), thorough=('base', 'wire', 'nostd')):
        f = ctx.facts(cfgname)
        rep.cur_config = cfgname
        eff = Effects(f)
        r0_unsafe(f, rep)
        rep.rule('C06-R1', 'enumerate every panic site; every external callee is classified')
        rep.rule('C06-R2', 'discharge every panic site (guards on all paths / constants / checked invariants / audited)')
        rep.rule('C06-R4', 'send_buf capacity equals config.max_packet_size after every writer of either')
        counts = {'assert': 0, 'panic': 0, 'partial': 0, 'total': 0, 'alloc': 0, 'user': 0, 'third-party': 0, 'local': 0}
        unclassified = {}
        cache = {}
        skipped = 0
        for raw in panic_sites(f, skip=lambda b: False):
            b = raw['body']
            if is_generated(b):
                skipped += 1
                continue
            site = Site(ctx, f, eff, rep, raw)
            if raw['kind'] == 'assert':
                counts['assert'] += 1
                for_each_owner(site, h_assert)
            elif raw['kind'] == 'panic':
                counts['panic'] += 1
                for_each_owner(site, h_panic, cache)
            else:
                if raw['res'] in f.by_name:
                    counts['local'] += 1
                    continue
                if not raw['decl'] and not raw['res']:
                    # call through a function pointer: decided by what the pointer can be - a parameter of a
                    # crate-private function for which every call site passes a function item
                    tgt = indirect_targets(f, b, raw['term'])
                    if tgt and all(is_ctor_or_local(f, x) for x in tgt):
                        counts['total'] += 1
                        continue
                cls = classify(raw['decl'], raw['res'], raw['term'].get('selfty', ''), raw['term'].get('gargs', ''))
                if cls is None:
                    unclassified.setdefault(raw['res'] or raw['decl'], []).append(raw)
                    continue
                counts[cls] += 1
                if cls == 'partial':
                    hid = T.PARTIAL.get(raw['res']) or T.PARTIAL.get(raw['decl'])
                    for_each_owner(site, CALL_HANDLERS[hid])
        for name, raws in sorted(unclassified.items()):
            rep.violation('C06-R1', raws[0]['body'].nname, 'unclassified-callee:' + name,
                          'external callee %s is in no class (total/alloc/partial/user/third-party): a new dependency '
                          'on library behaviour must be classified' % name, site=raws[0]['span'])
        rep.ok('C06-R1', 'crate', 'enumerated panic sites and call sites', facts=dict(counts, generated_skipped=skipped))
        # vacuity guards (about half of what the reference tree has: merging duplicated sites must not trip them)
        floors = {'base': (10, 10, 18), 'wire': (10, 10, 20), 'nostd': (10, 8, 12), 'all': (10, 10, 20)}[cfgname]
        rep.floor('C06-R1', counts['assert'], floors[0], 'Assert terminators (%s)' % cfgname)
        rep.floor('C06-R1', counts['panic'], floors[1], 'core::panicking call sites (%s)' % cfgname)
        rep.floor('C06-R1', counts['partial'], floors[2], 'calls to partial library routines (%s)' % cfgname)
        r3_arith(ctx, f, rep)
    rep.cur_config = None

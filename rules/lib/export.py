"""Run the mirfacts driver on a repository tree and load the resulting facts.

The driver is injected into the real cargo build of $VERIF_REPO (default /repo)
with RUSTC_WORKSPACE_WRAPPER, so the program analysed is the type-checked crate
as cargo builds it.  Every call re-analyses the current working tree: the crate's
fingerprints are purged first (cargo would otherwise replay a cached result and
skip the wrapper) and the fact file must carry this run's nonce.
"""
import fcntl
import glob
import hashlib
import json
import os
import shutil
import subprocess
import sys
import tempfile
import time

VERIF = os.path.dirname(os.path.dirname(os.path.dirname(os.path.abspath(__file__))))
DRIVER_DIR = os.path.join(VERIF, "engine", "mirfacts")
DRIVER = os.path.join(DRIVER_DIR, "target", "release", "mirfacts")
CACHE = os.path.join(VERIF, ".cache")

CONFIGS = {
    "base": ["--features", "std"],
    "wire": ["--features", "std,serde,bincode-codec,postcard-codec,unstable-notifications"],
    "nostd": [],
    "all": ["--all-features"],
}


def repo_dir():
    return os.environ.get("VERIF_REPO", "/repo")


def nightly_sysroot():
    return subprocess.check_output(["rustc", "+nightly", "--print", "sysroot"], text=True).strip()


def build_driver():
    """Build the driver if missing or older than its source."""
    src = os.path.join(DRIVER_DIR, "src", "main.rs")
    if os.path.exists(DRIVER) and os.path.getmtime(DRIVER) >= os.path.getmtime(src):
        return
    env = dict(os.environ, CARGO_NET_OFFLINE="true")
    r = subprocess.run(["cargo", "build", "--release", "--offline"], cwd=DRIVER_DIR, env=env,
                       stdout=subprocess.PIPE, stderr=subprocess.STDOUT, text=True)
    if r.returncode != 0:
        sys.stderr.write(r.stdout)
        raise SystemExit("mirfacts driver failed to build")


def source_hash(repo):
    h = hashlib.sha256()
    files = sorted(glob.glob(os.path.join(repo, "src", "**", "*.rs"), recursive=True))
    files += [os.path.join(repo, "Cargo.toml")]
    for f in files:
        h.update(f[len(repo):].encode())
        with open(f, "rb") as fh:
            h.update(fh.read())
    return h.hexdigest()[:16], len(files)


def export(config="base", repo=None):
    """Return the facts (dict) of configuration `config` for the tree at `repo`."""
    repo = repo or repo_dir()
    build_driver()
    os.makedirs(CACHE, exist_ok=True)
    # one target dir per (config, repo path): dependency artefacts are reused, the
    # crate itself is always re-analysed.
    tag = config + "-" + hashlib.sha1(os.path.abspath(repo).encode()).hexdigest()[:8]
    tdir = os.path.join(CACHE, "target", tag)
    os.makedirs(tdir, exist_ok=True)
    nonce = "%d-%d" % (os.getpid(), time.time_ns())
    out = os.path.join(CACHE, "facts-%s-%s.json" % (tag, nonce))
    env = dict(os.environ)
    env.update({
        "LD_LIBRARY_PATH": os.path.join(nightly_sysroot(), "lib"),
        "RUSTFLAGS": "-Zmir-opt-level=0 -Awarnings",
        "RUSTC_WORKSPACE_WRAPPER": DRIVER,
        "CARGO_TARGET_DIR": tdir,
        "CARGO_NET_OFFLINE": "true",
        "MIRFACTS_OUT": out,
        "MIRFACTS_NONCE": nonce,
        "MIRFACTS_CRATE": "foca",
    })
    env.pop("RUSTC_WRAPPER", None)
    lock = open(os.path.join(tdir, ".verif-lock"), "w")
    fcntl.flock(lock, fcntl.LOCK_EX)
    try:
        for fp in glob.glob(os.path.join(tdir, "debug", ".fingerprint", "foca-*")):
            shutil.rmtree(fp, ignore_errors=True)
        cmd = ["cargo", "+nightly", "check", "--offline", "--lib", "--manifest-path",
               os.path.join(repo, "Cargo.toml")] + CONFIGS[config]
        t0 = time.time()
        r = subprocess.run(cmd, env=env, cwd=repo, stdout=subprocess.PIPE, stderr=subprocess.STDOUT, text=True)
        dt = time.time() - t0
    finally:
        fcntl.flock(lock, fcntl.LOCK_UN)
        lock.close()
    if r.returncode != 0:
        sys.stderr.write(r.stdout)
        sys.stderr.write("cargo check of %s (%s) failed: the tree does not compile\n" % (repo, config))
        raise SystemExit(3)
    if not os.path.exists(out):
        sys.stderr.write(r.stdout)
        raise SystemExit("mirfacts wrote no fact file (wrapper skipped?)")
    with open(out) as fh:
        facts = json.load(fh)
    os.unlink(out)
    if facts.get("nonce") != nonce:
        raise SystemExit("stale fact file (nonce mismatch)")
    sh, nfiles = source_hash(repo)
    facts["_meta"] = {"config": config, "repo": repo, "export_s": round(dt, 2), "source_hash": sh,
                      "source_files": nfiles}
    return facts


if __name__ == "__main__":
    cfg = sys.argv[1] if len(sys.argv) > 1 else "base"
    f = export(cfg)
    print(cfg, len(f["bodies"]), "bodies", len(f["adts"]), "adts", f["_meta"])
    if len(sys.argv) > 2:
        json.dump(f, open(sys.argv[2], "w"))

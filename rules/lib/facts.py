"""Fact database over the mirfacts JSON: name normalisation, lookup, printing."""
import re


def strip_generics(name):
    """`Foca::<T, C, RNG, B>::handle_timer` -> `Foca::handle_timer`;
    `<runtime::AccumulatingRuntime<T> as runtime::Runtime<T>>::notify`
      -> `<runtime::AccumulatingRuntime as runtime::Runtime>::notify`.
    Angle-bracket groups are removed unless they open a path segment that is a
    qualified self (`<X as Y>`) or an `<impl ..>` segment; generics inside those
    are removed recursively."""
    out = []
    i = 0
    n = len(name)

    def skip_group(j):
        depth = 0
        while j < n:
            c = name[j]
            if c == '<':
                depth += 1
            elif c == '>' and (j == 0 or name[j - 1] != '-'):
                depth -= 1
                if depth == 0:
                    return j + 1
            j += 1
        return n

    while i < n:
        c = name[i]
        if c == '<':
            j = skip_group(i)
            inner = name[i + 1:j - 1]
            at_segment_start = (i == 0) or name[i - 2:i] == '::' and not inner.startswith('impl ') and False
            if i == 0 or inner.startswith('impl ') or (name[i - 1] in ' (,&' ):
                # qualified-self or impl segment: keep, normalising inside
                if ' as ' in inner and not inner.startswith('impl '):
                    a, b = split_top(inner, ' as ')
                    out.append('<' + strip_generics(a) + ' as ' + strip_generics(b) + '>')
                elif inner.startswith('impl '):
                    out.append('<' + strip_generics_keep(inner) + '>')
                else:
                    out.append('<' + strip_generics(inner) + '>')
            else:
                # turbofish or type arguments: drop (also the `::` before a turbofish)
                if out and out[-1] == ':' and len(out) > 1 and out[-2] == ':':
                    out.pop()
                    out.pop()
            i = j
        else:
            out.append(c)
            i += 1
    return ''.join(out)


def split_top(s, sep):
    depth = 0
    i = 0
    while i < len(s):
        if s[i] == '<':
            depth += 1
        elif s[i] == '>' and s[i - 1] != '-':
            depth -= 1
        elif depth == 0 and s.startswith(sep, i):
            return s[:i], s[i + len(sep):]
        i += 1
    return s, ''


def strip_generics_keep(inner):
    # `impl core::cmp::PartialEq<&B> for &A` -> `impl core::cmp::PartialEq for &A`
    return re.sub(r'\s+', ' ', _drop_angles(inner))


def _drop_angles(s):
    out = []
    depth = 0
    for i, c in enumerate(s):
        if c == '<':
            depth += 1
        elif c == '>' and (i == 0 or s[i - 1] != '-'):
            depth -= 1
        elif depth == 0:
            out.append(c)
    return ''.join(out)


class Body:
    def __init__(self, raw, facts):
        self.raw = raw
        self.facts = facts
        self.name = raw['name']
        self.nname = strip_generics(raw['name'])
        self.kind = raw['kind']
        self.vis = raw['vis']
        self.reachable = raw['reachable']
        self.argc = raw['argc']
        self.blocks = raw['blocks']
        self.locals = raw['locals']
        self.span = raw['span']['at']
        self.parent = strip_generics(raw['parent']) if raw['parent'] else None
        self.promoted = raw.get('promoted', [])
        # user-visible names of locals / closure captures
        self.local_names = {}
        self.upvar_names = {}   # closure: field index of env -> (name, by_ref)
        for dv in raw['debug']:
            p = dv['place']
            if not p:
                continue
            if not p['proj']:
                self.local_names.setdefault(p['local'], dv['name'])
            elif self.kind == 'Closure' and p['local'] == 1:
                # (*_1).N  or  (*(*_1).N)  or _1.N
                fields = [e for e in p['proj'] if e['k'] == 'field']
                if len(fields) == 1:
                    idx = fields[0]['i']
                    derefs_after = 0
                    seen = False
                    for e in p['proj']:
                        if e['k'] == 'field':
                            seen = True
                        elif e['k'] == 'deref' and seen:
                            derefs_after += 1
                    self.upvar_names[idx] = (dv['name'], derefs_after > 0)

    def file_line(self, span):
        return span['at'].split(': ')[0] if isinstance(span, dict) else str(span)

    def __repr__(self):
        return '<Body %s>' % self.nname


class Facts:
    def __init__(self, raw):
        self.raw = raw
        self.meta = raw.get('_meta', {})
        self.features = raw['features']
        self.unsafe_code_level = raw['unsafe_code_level']
        self.adts = {strip_generics(a['name']): a for a in raw['adts']}
        self.bodies = [Body(b, self) for b in raw['bodies']]
        self.by_name = {}
        for b in self.bodies:
            self.by_name.setdefault(b.nname, []).append(b)
        self.by_raw = {b.name: b for b in self.bodies}

    # -- lookup -----------------------------------------------------------
    def fn(self, nname, required=True):
        bs = self.by_name.get(nname, [])
        if len(bs) == 1:
            return bs[0]
        if not bs:
            if required:
                raise MissingAnchor('function %s not found' % nname)
            return None
        raise MissingAnchor('function %s is ambiguous (%d bodies)' % (nname, len(bs)))

    def fns(self, pred):
        return [b for b in self.bodies if pred(b)]

    def has(self, nname):
        return nname in self.by_name

    def closures_of(self, nname):
        return [b for b in self.bodies if b.kind == 'Closure' and b.parent == nname]

    def adt(self, nname):
        if nname not in self.adts:
            raise MissingAnchor('type %s not found' % nname)
        return self.adts[nname]

    def variant_names(self, adt):
        return [v['name'] for v in self.adt(adt)['variants']]

    def variant_by_discr(self, adt, val):
        for v in self.adt(adt)['variants']:
            if str(v['discr']) == str(val):
                return v['name']
        return None

    def variant_by_index(self, adt, vi):
        vs = self.adt(adt)['variants']
        return vs[vi]['name'] if 0 <= vi < len(vs) else None

    # -- iteration over sites ----------------------------------------------
    def calls(self, body):
        """Yield (block index, terminator) for every Call terminator on a non-cleanup block."""
        for i, bl in enumerate(body.blocks):
            if bl['cleanup']:
                continue
            t = bl['term']
            if t['k'] == 'call':
                yield i, t

    def calls_deep(self, body):
        """Like calls(), but also the calls made by the helpers (functions that do not exist on the reference tree)
        the body calls, transitively - what the body's paths contain once those helpers are inlined."""
        seen = set()
        work = [body]
        while work:
            b = work.pop()
            if b.name in seen:
                continue
            seen.add(b.name)
            for i, t in self.calls(b):
                yield i, t
                for c in self.by_name.get(strip_generics(t['res']), []):
                    if self.is_unknown_helper(c):
                        work.append(c)
            if b is not body or True:
                for c in self.closures_of(b.nname):
                    if self.is_unknown_helper(c):
                        work.append(c)

    def all_calls(self):
        for b in self.bodies:
            for i, t in self.calls(b):
                yield b, i, t

    def is_unknown_helper(self, body):
        """A crate function that does not exist on the reference tree (see rules/known_fns.txt), or a closure of one."""
        known = getattr(self, 'known', None)
        if not known:
            return False
        if body.kind == 'Closure':
            par = self.by_name.get(body.parent or '', [])
            return len(par) == 1 and self.is_unknown_helper(par[0])
        # a new function that users of the crate can call is a new entry point, not a helper: rules treat it like
        # any other function (and report what it does)
        return body.nname not in known and not body.reachable

    def analysed_bodies(self):
        """Bodies a rule should enumerate on their own: everything except helpers that do not exist on the reference
        tree, whose code is seen inlined in (and attributed to) their callers."""
        return [b for b in self.bodies if not self.is_unknown_helper(b)]

    def attributed(self, body):
        """Names of the reference-tree functions a body's code counts for: the body itself, or - for a helper that does
        not exist on the reference tree (and its closures) - the known functions that (transitively) call it."""
        if not self.is_unknown_helper(body):
            return [body.nname]
        cache = self.__dict__.setdefault('_attr', {})
        h = body.parent if body.kind == 'Closure' else body.nname
        if h not in cache:
            cache[h] = sorted({c[0].nname for c in self.callers_of(lambda n: n == h)}) or [h]
        return cache[h]

    def callers_of(self, pred):
        """All (body, block, term) whose declared or resolved callee satisfies pred(nname).
        A call site inside an unknown helper is attributed to the known functions that (transitively) call the
        helper: (known caller, block of its call into the helper chain, the original terminator)."""
        raw = []
        for b, i, t in self.all_calls():
            if pred(strip_generics(t['res'])) or pred(strip_generics(t['decl'])):
                raw.append((b, i, t))
        out = []
        for b, i, t in raw:
            if not self.is_unknown_helper(b):
                out.append((b, i, t))
                continue
            seen = set()
            work = [b.parent if b.kind == 'Closure' else b.nname]
            while work:
                h = work.pop()
                if h in seen:
                    continue
                seen.add(h)
                for kb, ki, kt in self.all_calls():
                    if strip_generics(kt['res']) == h:
                        if self.is_unknown_helper(kb):
                            work.append(kb.parent if kb.kind == 'Closure' else kb.nname)
                        else:
                            out.append((kb, ki, t))
        return out


class MissingAnchor(Exception):
    pass


def callee_names(t):
    """(declared, resolved) normalised callee names of a call terminator."""
    return strip_generics(t['decl']), strip_generics(t['res'])


def is_call_to(t, *names):
    d, r = callee_names(t)
    return d in names or r in names


# ---- pretty printing (debugging aid and evidence text) -------------------------

def show_place(p, body=None):
    base = '_%d' % p['local']
    if body is not None and p['local'] in body.local_names:
        base = body.local_names[p['local']]
    s = base
    for e in p['proj']:
        k = e['k']
        if k == 'deref':
            s = '(*%s)' % s
        elif k == 'field':
            s += '.' + e['name']
        elif k == 'downcast':
            s = '(%s as %s)' % (s, e['variant'])
        elif k == 'index':
            s += '[_%d]' % e['local']
        else:
            s += '?' + k
    return s


def show_op(o, body=None):
    if o['k'] == 'const':
        return 'const ' + o['txt']
    if o['k'] in ('copy', 'move'):
        return o['k'] + ' ' + show_place(o['place'], body)
    return str(o)


def show_rv(r, body=None):
    k = r['k']
    if k == 'use':
        return show_op(r['op'], body)
    if k == 'ref':
        return ('&mut ' if r['mut'] else '&') + show_place(r['place'], body)
    if k == 'binop':
        return '%s(%s, %s)' % (r['op'], show_op(r['a'], body), show_op(r['b'], body))
    if k == 'unop':
        return '%s(%s)' % (r['op'], show_op(r['a'], body))
    if k == 'discr':
        return 'discr(%s)' % show_place(r['place'], body)
    if k == 'cast':
        return 'cast<%s>(%s) as %s' % (r['kind'], show_op(r['a'], body), r['ty'])
    if k == 'aggregate':
        return '%s %s::%s{%s}' % (r['what'], r['name'], r['variant'], ', '.join(show_op(x, body) for x in r['ops']))
    return str(r)


def dump_body(b, out=None):
    import sys
    w = (out or sys.stdout).write
    w('fn %s argc=%d vis=%s %s\n' % (b.nname, b.argc, b.vis, b.span))
    for i, bl in enumerate(b.blocks):
        if bl['cleanup']:
            continue
        w(' bb%d:\n' % i)
        for s in bl['stmts']:
            if 'lhs' in s:
                w('    %s = %s%s\n' % (show_place(s['lhs'], b), show_rv(s['rv'], b),
                                      ('   #' + s['span']['mac']) if s['span']['exp'] else ''))
            else:
                w('    %r\n' % s)
        t = bl['term']
        if t['k'] == 'call':
            w('    %s = %s [%s] (%s) -> bb%d %s%s\n' % (
                show_place(t['dest'], b), t['decl'], t['res'], ', '.join(show_op(a, b) for a in t['args']),
                t['target'], ('#' + t['span']['mac']) if t['span']['exp'] else '', ' self=' + t['selfty'] if t['selfty'] else ''))
        elif t['k'] == 'switch':
            w('    switch(%s) %s\n' % (show_op(t['discr'], b), t['targets']))
        elif t['k'] == 'assert':
            w('    assert(%s == %s) %s -> bb%d\n' % (show_op(t['cond'], b), t['expected'], t['kind'], t['target']))
        elif t['k'] == 'drop':
            w('    drop %s -> bb%d\n' % (show_place(t['place'], b), t['target']))
        else:
            w('    %s\n' % {k: v for k, v in t.items() if k != 'span'})


if __name__ == '__main__':
    import json
    import sys
    f = Facts(json.load(open(sys.argv[1])))
    if len(sys.argv) == 2:
        for b in f.bodies:
            print(b.nname)
    for n in sys.argv[2:]:
        for b in f.bodies:
            if n in b.nname:
                dump_body(b)

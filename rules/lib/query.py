"""Matchers and small queries over symbolic values, places, events and paths."""
from .symx import show, is_prefix, place_root

SELF = ('deref', ('param', 0, 1))


def walk(v, depth=0):
    """All sub-expressions of a value/place expression."""
    yield v
    if depth > 24 or not isinstance(v, tuple):
        return
    for x in v[1:]:
        if isinstance(x, tuple):
            if x and isinstance(x[0], str):
                for y in walk(x, depth + 1):
                    yield y
            else:
                for z in x:
                    if isinstance(z, tuple) and z and isinstance(z[0], str):
                        for y in walk(z, depth + 1):
                            yield y


def mentions(v, pred):
    return any(pred(x) for x in walk(v))


def field_path(P):
    """(root, [field names]) of a place expression."""
    names = []
    while P[0] in ('field', 'index'):
        if P[0] == 'field':
            names.append(P[2])
        else:
            names.append('[]')
        P = P[1]
    return P, list(reversed(names))


def self_field(*names):
    P = SELF
    for n in names:
        P = ('field', P, n, None)
    return P


def is_load_of(v, place):
    return isinstance(v, tuple) and v[0] == 'load' and v[1] == place


def is_self_field_load(v, *names):
    return is_load_of(v, self_field(*names))


def loads_self_field(v, *names):
    """v mentions a read of self.<names...> (possibly with further projection)."""
    pl = self_field(*names)
    return mentions(v, lambda x: x[0] == 'load' and is_prefix(pl, x[1]))


def peel(v):
    """Strip value-preserving wrappers (integer conversions, NonZero::get)."""
    while True:
        if v[0] == 'cast' and v[1] in ('Into', 'IntToInt'):
            v = v[2]
        elif v[0] == 'unop' and v[1] == 'NonZeroGet':
            v = v[2]
        else:
            return v


def is_const(v, val=None):
    return v[0] == 'const' and (val is None or v[2] == val)


def is_variant(v, adt_suffix, name=None):
    if v[0] == 'variant':
        return v[1].endswith(adt_suffix) and (name is None or v[2] == name)
    if v[0] == 'agg' and v[1] == 'adt':
        return v[2].endswith(adt_suffix) and (name is None or v[3] == name)
    return False


def variant_name(v):
    if v[0] == 'variant':
        return v[2]
    if v[0] == 'agg' and v[1] == 'adt':
        return v[3]
    return None


def agg_field(v, name):
    if v[0] == 'agg' and name in v[4]:
        return v[5][v[4].index(name)]
    return None


def binop_parts(v, ops=None):
    """(op, a, b) if v is a comparison/arith binop (optionally restricted to ops)."""
    if v[0] == 'binop' and (ops is None or v[1] in ops):
        return v[1], v[2], v[3]
    return None


def eq_sides(v):
    """For Eq/Ne comparisons: (is_eq, a, b)."""
    if v[0] == 'binop' and v[1] in ('Eq', 'Ne'):
        return v[1] == 'Eq', v[2], v[3]
    return None


# ---------------------------------------------------------------- conditions

def cond_truth(ev):
    """For a boolean cond event: True/False taken, else None."""
    if ev['kind'] != 'cond':
        return None
    if ev.get('dty') == 'bool':
        return ev['taken'] == '1'
    return None


def cond_holds(ev, pred):
    """The cond event establishes `pred(expr)` positively: either expr satisfies pred and the true edge was
    taken, or expr is Not/Ne/Eq-negation ... kept simple: returns (matched, truth)."""
    t = cond_truth(ev)
    if t is None:
        return None
    if pred(ev['expr']):
        return t
    return None


def cond_variants(facts, ev):
    """Set of variant names an enum-discriminant cond event narrows its scrutinee to, or None."""
    e = ev['expr']
    if e[0] != 'discr':
        return None
    adt = e[2]
    names = None
    if adt in facts.adts:
        names = {str(v['discr']): v['name'] for v in facts.adts[adt]['variants']}
    elif adt.startswith('core::option::Option'):
        names = {'0': 'None', '1': 'Some'}
    elif adt.startswith('core::result::Result'):
        names = {'0': 'Ok', '1': 'Err'}
    elif adt.startswith('core::ops::ControlFlow') or adt.startswith('core::ops::control_flow::ControlFlow'):
        names = {'0': 'Continue', '1': 'Break'}
    elif adt.startswith('core::cmp::Ordering'):
        names = {'255': 'Less', '0': 'Equal', '1': 'Greater'}
    if names is None:
        return None
    if ev['taken'] == 'otherwise':
        return {n for d, n in names.items() if d not in ev['values']}
    return {names.get(ev['taken'], '?' + ev['taken'])}


def scrutinee(ev):
    e = ev['expr']
    return e[1] if e[0] == 'discr' else None


# -------------------------------------------------------------------- events

def events(paths, kind=None, pred=None):
    """Yield (path, index, event)."""
    for p in paths:
        for i, e in enumerate(p.events):
            if kind is not None and e['kind'] != kind:
                continue
            if pred is not None and not pred(e):
                continue
            yield p, i, e


def calls_to(paths, *names):
    names = set(names)
    return events(paths, 'call', lambda e: e['res'] in names or e['decl'] in names)


def site_key(e):
    return (e.get('body'), e.get('block'))


def group_by_site(evs):
    out = {}
    for p, i, e in evs:
        out.setdefault(site_key(e), []).append((p, i, e))
    return out


def conds_before(path, i):
    return [e for e in path.events[:i] if e['kind'] == 'cond']


def guarded_on_all_paths(occurrences, cond_pred):
    """occurrences: [(path, idx, ev)] of one site. True iff on every path some earlier cond satisfies cond_pred."""
    for p, i, e in occurrences:
        if not any(cond_pred(c) for c in conds_before(p, i)):
            return False
    return True


def try_ok_of(path, upto):
    """Map call id -> 'ok'/'err' as established before index upto by `?` (a switch on Try::branch of the call's
    result, possibly through map_err) or by an explicit `match` on the call's Result."""
    out = {}
    branch_of = {}
    mapped = {}
    for e in path.events[:upto]:
        if e['kind'] == 'call' and e['res'] == 'core::result::Result::map_err' and e['args'] and e['args'][0][0] == 'call':
            mapped[e['id']] = mapped.get(e['args'][0][1], e['args'][0][1])
        if e['kind'] == 'call' and e['decl'].endswith('Try::branch') and e['args'] and e['args'][0][0] == 'call':
            src = e['args'][0][1]
            branch_of[e['id']] = src
            if src in mapped:
                branch_of[('m', e['id'])] = mapped[src]
        if e['kind'] == 'cond' and e['expr'][0] == 'discr' and e['expr'][1][0] == 'call':
            cid = e['expr'][1][1]
            if cid in branch_of:
                tk = e['taken']
                if tk == 'otherwise':
                    left = [d for d in ('0', '1') if d not in (e.get('values') or [])]
                    tk = left[0] if len(left) == 1 else '1'
                verdict = 'ok' if tk == '0' else 'err'
                out[branch_of[cid]] = verdict
                if ('m', cid) in branch_of:
                    out[branch_of[('m', cid)]] = verdict
            elif str(e['expr'][2]).startswith('core::result::Result'):
                if e['taken'] == 'otherwise':
                    left = [d for d in ('0', '1') if d not in (e.get('values') or [])]
                    taken = left[0] if len(left) == 1 else None
                else:
                    taken = e['taken']
                if taken in ('0', '1'):
                    out[cid] = 'ok' if taken == '0' else 'err'
                    if cid in mapped:
                        out[mapped[cid]] = out[cid]
    return out


def path_is_error_propagation(path):
    """The path returns a callee's error: through `?` (FromResidual::from_residual) or through an explicit
    `Err(e) => return Err(e)` (possibly converting / wrapping the payload)."""
    if any(e['kind'] == 'call' and e['decl'].endswith('FromResidual::from_residual') for e in path.events):
        return True
    r = path.ret
    if r is not None and r[0] == 'agg' and r[3] == 'Err' and len(r[5]) == 1:
        return mentions(r[5][0], lambda x: x[0] == 'fieldv' and x[2] == '0' and x[3] == 'Err' and x[1][0] == 'call')
    return False


def ok_payload_of(path, v):
    """If v is the Ok payload of the Result some call returned - unwrapped by `?` (also after map_err) or by a `match` -
    the id of that call, else None."""
    if not (v[0] == 'fieldv' and v[2] == '0' and v[1][0] == 'call'):
        return None
    calls = getattr(path, '_calls', None)
    if calls is None:
        calls = path._calls = {e['id']: e for e in path.events if e['kind'] == 'call'}
    cid = v[1][1]
    if v[3] == 'Ok':
        src = cid
    elif v[3] == 'Continue' and cid in calls and calls[cid]['decl'].endswith('Try::branch') and \
            calls[cid]['args'] and calls[cid]['args'][0][0] == 'call':
        src = calls[cid]['args'][0][1]
    else:
        return None
    while src in calls and calls[src]['res'] == 'core::result::Result::map_err' and calls[src]['args'][0][0] == 'call':
        src = calls[src]['args'][0][1]
    return src


def sh(v, body=None):
    return show(v, body)


def describe(path, v, body=None, depth=0):
    """Like show(), but results of opaque calls are expanded to `callee(args..)` (short callee name)."""
    calls = getattr(path, '_calls', None)
    if calls is None:
        calls = path._calls = {e['id']: e for e in path.events if e['kind'] == 'call'}
    if depth > 8:
        return '…'

    def d(x):
        return describe(path, x, body, depth + 1)
    k = v[0]
    if k == 'call' and v[1] in calls:
        c = calls[v[1]]
        nm = (c['res'] or c['decl'])
        short = nm.split('::')[-1]
        return '%s(%s)' % (short, ', '.join(d(a) for a in c['args']))
    if k == 'binop':
        return '%s(%s, %s)' % (v[1], d(v[2]), d(v[3]))
    if k == 'unop':
        return '%s(%s)' % (v[1], d(v[2]))
    if k == 'cast':
        return d(v[2])
    if k == 'ref':
        return d(v[1])
    if k == 'load':
        return d(v[1])
    if k == 'deref':
        return d(v[1])
    if k == 'field':
        base = d(v[1])
        return '%s.%s' % (base, v[2])
    if k == 'fieldv':
        return '%s.%s' % (d(v[1]), v[2])
    if k == 'discr':
        return 'discr(%s)' % d(v[1])
    if k == 'havoc':
        return d(v[1])
    if k == 'agg':
        return '%s{%s}' % (v[3] or v[2].split('::')[-1] or 'tuple', ', '.join(d(x) for x in v[5]))
    return show(v, body)


def upvar_of(body, v):
    """Name of the closure capture a value/place expression denotes (by-value or by-reference environments)."""
    if body.kind != 'Closure':
        return None
    idx = None
    if v[0] == 'fieldv' and v[1] == ('param', 0, 1) and v[2].isdigit():
        idx = int(v[2])
    elif v[0] == 'load' and v[1][0] == 'field' and v[1][1] == ('deref', ('param', 0, 1)) and v[1][2].isdigit():
        idx = int(v[1][2])
    elif v[0] == 'field' and v[1] in (('deref', ('param', 0, 1)), ('local', 0, 1)) and v[2].isdigit():
        idx = int(v[2])
    if idx is None:
        return None
    nm = body.upvar_names.get(idx)
    return nm[0] if nm else None


def derives_from(path, v, pred, depth=0):
    """v mentions a call satisfying pred(call event), looking through the arguments of the calls it mentions."""
    calls = getattr(path, '_calls', None)
    if calls is None:
        calls = path._calls = {e['id']: e for e in path.events if e['kind'] == 'call'}
    if depth > 6:
        return False
    for x in walk(v):
        if x[0] == 'call' and x[1] in calls:
            c = calls[x[1]]
            if pred(c):
                return True
            if any(derives_from(path, a, pred, depth + 1) for a in c['args']):
                return True
            # ... and through the values behind the references it was handed (`Member::id(&member)` with `member` an owned
            # local: what the local holds is what counts)
            if any(d is not None and derives_from(path, d, pred, depth + 1) for d in (c.get('derefs') or [])):
                return True
    return False


def norm_bool(ev):
    """(expr, truth) of a boolean cond with leading negations folded into the truth value."""
    t = cond_truth(ev)
    e = ev['expr']
    while t is not None:
        if e[0] == 'unop' and e[1] == 'Not':
            e, t = e[2], not t
        elif e[0] == 'loopvar' and len(e) > 5:
            e = e[5]        # a flag variable: what the previous iteration of this path assigned to it
        else:
            break
    return e, t


def cmp_norm(ev):
    """What an ordering comparison established on this path, orientation-free:
    ('ge', a, b) meaning a >= b, or ('gt', a, b) meaning a > b.  None if the cond is not an ordering comparison."""
    e, t = norm_bool(ev)
    if t is None or e[0] != 'binop' or e[1] not in ('Ge', 'Gt', 'Le', 'Lt'):
        return None
    op, a, b = e[1], e[2], e[3]
    if op == 'Ge':
        return ('ge', a, b) if t else ('gt', b, a)
    if op == 'Gt':
        return ('gt', a, b) if t else ('ge', b, a)
    if op == 'Le':
        return ('ge', b, a) if t else ('gt', a, b)
    return ('gt', b, a) if t else ('ge', a, b)


def at_least(ev, is_term):
    """If the cond establishes term >= k for a term satisfying is_term and an integer constant k: (term, k)."""
    n = cmp_norm(ev)
    if n is None:
        return None
    rel, a, b = n
    if is_term(a) and b[0] == 'const' and b[2] is not None:
        return a, b[2] + (1 if rel == 'gt' else 0)
    return None


def at_most(ev, is_term):
    """If the cond establishes term <= k: (term, k)."""
    n = cmp_norm(ev)
    if n is None:
        return None
    rel, a, b = n
    if is_term(b) and a[0] == 'const' and a[2] is not None:
        return b, a[2] - (1 if rel == 'gt' else 0)
    return None


def zero_test(ev, is_term):
    """What a cond established about an unsigned term, for any operator and orientation:
    'zero' (term == 0), 'pos' (term > 0) or None (not such a test / nothing established)."""
    e, t = norm_bool(ev)
    if t is None or e[0] != 'binop':
        return None
    if e[1] in ('Eq', 'Ne'):
        a, b = e[2], e[3]
        if is_term(b) and is_const(a, 0):
            a, b = b, a
        if not (is_term(a) and is_const(b, 0)):
            return None
        return 'zero' if (e[1] == 'Eq') == t else 'pos'
    lo = at_least(ev, is_term)
    if lo and lo[1] >= 1:
        return 'pos'
    hi = at_most(ev, is_term)
    if hi and hi[1] == 0:
        return 'zero'
    return None


def num_active_term(path):
    """Predicate: the value is the number of active members of self.members - the result of Members::num_active /
    Foca::num_members on it, or the field itself."""
    calls = {c['id']: c for c in path.calls()}

    def pred(v):
        v = peel(v)
        if v[0] == 'call' and v[1] in calls:
            return calls[v[1]]['res'] in ('member::Members::num_active', 'Foca::num_members')
        return v[0] == 'load' and field_path(v[1])[1][-1:] == ['num_active']
    return pred


class CanonNames:
    """A view of a body in which parameters are named by their type (`self` stays `self`): neither the name nor the
    position of a parameter survives ordinary refactors (a method body moved to a free function), its type mostly does."""
    def __init__(self, body):
        self.kind = body.kind
        self.upvar_names = body.upvar_names
        self.local_names = dict(body.local_names)
        for i in range(1, body.argc + 1):
            if body.local_names.get(i) != 'self':
                self.local_names[i] = '<%s>' % str(body.locals[i]).replace('&mut ', '').replace('&', '')


def canon_cond(path, ev, body=None):
    """Canonical text of what a cond established: `<expr> == <0|1>` with Ne/Not folded into the truth value, Lt/Le
    turned into Gt/Ge and the operands of Eq ordered textually - so `0 == x`, `x == 0` and `!(x != 0)` coincide."""
    t = ev['taken']
    e = ev['expr']
    if body is not None and not isinstance(body, CanonNames):
        body = CanonNames(body)
    while e[0] == 'unop' and e[1] == 'Not' and t in (0, 1):
        e, t = e[2], 1 - t
    if e[0] == 'binop':
        op, a, b = e[1], describe(path, e[2], body), describe(path, e[3], body)
        if op == 'Ne' and t in (0, 1):
            op, t = 'Eq', 1 - t
        if op == 'Lt':
            op, a, b = 'Gt', b, a
        elif op == 'Le':
            op, a, b = 'Ge', b, a
        if op == 'Eq' and b < a:
            a, b = b, a
        return '%s(%s, %s) == %s' % (op, a, b, t)
    return '%s == %s' % (describe(path, e, body), t)


def some_payload(path, v):
    """If v is the payload of an Option that is known to be Some where v is used - `Some(x)` pattern or `opt?` -
    return the Option-valued expression, else None."""
    if v[0] == 'fieldv' and v[2] == '0':
        if v[3] == 'Some':
            return v[1]
        if v[3] == 'Continue' and v[1][0] == 'call':
            for c in path.calls():
                if c['id'] == v[1][1] and c['res'] == '<core::option::Option as core::ops::Try>::branch':
                    return c['args'][0]
    return None


def option_test(facts, path, ev):
    """If the cond tests an Option value E for presence - `match E`/`if let Some(..) = E` (a switch on E's
    discriminant) or `E?` (a switch on `Try::branch(E)`) - return (E, 'Some'|'None'), else None."""
    e = ev['expr']
    if e[0] != 'discr':
        return None
    vs = cond_variants(facts, ev)
    if not vs or len(vs) != 1:
        return None
    v = next(iter(vs))
    if v in ('Some', 'None'):
        return e[1], v
    if v in ('Continue', 'Break') and e[1][0] == 'call':
        for c in path.calls():
            if c['id'] == e[1][1] and c['res'] == '<core::option::Option as core::ops::Try>::branch':
                return c['args'][0], ('Some' if v == 'Continue' else 'None')
    return None


def option_known(facts, path, upto, E):
    """'Some' / 'None' if a cond before event index `upto` established it for the Option value E."""
    out = None
    for c in conds_before(path, upto):
        t = option_test(facts, path, c)
        if t and t[0] == E:
            out = t[1]
    return out


def variant_test(facts, ev, is_subject):
    """What a cond established about the variant of an enum-valued subject, whether written `x == E::V`,
    `x != E::V`, `matches!(x, E::V | ..)` or `match x {..}`: the set of variant names x may have afterwards,
    or None if the cond does not test a subject satisfying is_subject."""
    e0 = ev['expr']
    if e0[0] == 'discr':
        return cond_variants(facts, ev) if is_subject(e0[1]) else None
    e, t = norm_bool(ev)
    es = eq_sides(e)
    if not es or t is None:
        return None
    is_eq, a, b = es
    if variant_name(a) is not None and is_subject(b):
        a, b = b, a
    if not (is_subject(a) and variant_name(b) is not None):
        return None
    adt = b[1] if b[0] == 'variant' else b[2]
    name = variant_name(b)
    if t == is_eq:
        return {name}
    try:
        return set(facts.variant_names(adt)) - {name}
    except Exception:
        return None


def is_param(v, n):
    """The n-th parameter itself or a reborrow of the reference it holds (`x` / `&*x`)."""
    return v == ('param', 0, n) or (v[0] == 'ref' and v[1] == ('deref', ('param', 0, n)))


def event_values(e):
    k = e['kind']
    if k == 'cond':
        return [e['expr']]
    if k == 'call':
        return list(e['args']) + [d for d in (e.get('derefs') or []) if d is not None]
    if k == 'write':
        return [e['place'], e['value']]
    if k == 'assert':
        return list(e.get('ops') or [])
    if k == 'leave':
        return [e['value']] if e.get('value') else []
    return []


def path_mentions(path, v):
    return any(mentions(x, lambda y: y == v) for e in path.events for x in event_values(e)) or \
        (path.ret is not None and mentions(path.ret, lambda y: y == v))


def ok_payloads(path, call_id):
    """Every expression that denotes the Ok payload of the Result returned by call #call_id, however it is unwrapped:
    `r?`, `r.map_err(f)?` or `match r { Ok(x) => x, Err(..) => return .. }`."""
    results = [('call', call_id)]
    out = []
    changed = True
    calls = path.calls()
    while changed:
        changed = False
        for c in calls:
            if c['res'] == 'core::result::Result::map_err' and c['args'][0] in results and ('call', c['id']) not in results:
                results.append(('call', c['id']))
                changed = True
    for r in results:
        out.append(('fieldv', r, '0', 'Ok'))
        for c in calls:
            if c['decl'].endswith('Try::branch') and c['args'][0] == r:
                out.append(('fieldv', ('call', c['id']), '0', 'Continue'))
    return out


def pre_havoc(v):
    """For the value of a local after it was lent mutably to a call (`buf.clear()`): the value it held before."""
    while v[0] == 'havoc' and len(v) > 3 and v[3] is not None:
        v = v[3]
    return v


def direct_target_is(facts, path, upto, who):
    """Has the path established, before event index `upto`, that Probe.direct is Some(m) with m.id() equal to the
    parameter `who` (1-based)?  Recognises `match self.direct.as_ref() { Some(m) => m.id() == who, None => false }`
    spelled inline (the is_some_and / is_probing spellings are handled by the callers).  True / False / None."""
    calls = {c['id']: c for c in path.calls()}
    direct = None
    payloads = []
    for c in path.calls():
        if c['res'] == 'core::option::Option::as_ref' and c['args'][0][0] == 'ref' and \
                field_path(c['args'][0][1])[1][-1:] == ['direct']:
            direct = ('call', c['id'])
    if direct is None:
        # `match &self.direct { Some(m) => .., None => .. }` / `if let Some(m) = &self.direct`: the field itself is tested
        for c in conds_before(path, upto):
            e = c['expr']
            if e[0] == 'discr' and e[1][0] == 'load' and field_path(e[1][1])[1][-1:] == ['direct'] and \
                    not any(w['kind'] == 'write' and field_path(w['place'])[1][-1:] == ['direct'] for w in path.events[:upto]):
                direct = e[1]
                payloads.append(('field', e[1][1], '0', 'Some'))
    if direct is None:
        return None
    st = option_known(facts, path, upto, direct)
    if st == 'None':
        return False
    if st != 'Some':
        return None
    payloads.append(('fieldv', direct, '0', 'Some'))
    out = None
    for c in conds_before(path, upto):
        e, t = norm_bool(c)
        es = eq_sides(e)
        if not es or t is None:
            continue
        sides = [es[1], es[2]]
        is_id = lambda v: (v[0] == 'call' and v[1] in calls and calls[v[1]]['res'] == 'member::Member::id' and
                           mentions(calls[v[1]]['args'][0], lambda y: y in payloads)) or \
                          (v[0] == 'load' and field_path(v[1])[1][-1:] == ['id'] and mentions(v, lambda y: y in payloads))
        is_who = lambda v: is_param(v, who) or v == ('load', ('deref', ('param', 0, who)), 0)
        if (is_id(sides[0]) and is_who(sides[1])) or (is_id(sides[1]) and is_who(sides[0])):
            out = (t == es[0])
    return out


def field_of(v, name):
    """The value of field `name` of a struct-valued expression (looks through field updates and aggregates)."""
    while v[0] == 'upd':
        if v[2] == name:
            return v[4]
        v = v[1]
    if v[0] == 'agg':
        x = agg_field(v, name)
        if x is not None:
            return x
    return ('fieldv', v, name, None)


MIN_FNS = ('core::cmp::Ord::min', 'core::cmp::min')


def bounded_by(path, v, bound, follow=None, depth=0):
    """The value is provably <= bound on this path: a constant, a min(.., k) with k <= bound in either spelling
    (method or free function), a value the path has compared against a constant <= bound, or - with `follow(name) ->
    paths` - the result of a crate function all of whose returning paths return such a value."""
    calls = {c['id']: c for c in path.calls()}
    w = peel(v)
    if follow is not None and depth < 2 and w[0] == 'call' and w[1] in calls and calls[w[1]]['res']:
        ps = None
        try:
            ps = follow(calls[w[1]]['res'])
        except Exception:
            ps = None
        if ps:
            rets = [p for p in ps if p.end == 'return']
            if rets and all(bounded_by(p, p.ret, bound, follow, depth + 1) for p in rets):
                return True
    if w[0] == 'const' and w[2] is not None:
        return w[2] <= bound
    if w[0] == 'call' and w[1] in calls and calls[w[1]]['res'] in MIN_FNS:
        if any(peel(a)[0] == 'const' and peel(a)[2] is not None and peel(a)[2] <= bound for a in calls[w[1]]['args']):
            return True
    for c in path.conds():
        hi = at_most(c, lambda t: peel(t) == w)
        if hi is not None and hi[1] <= bound:
            return True
    return False


def emptiness_value(v, is_len, is_empty_call):
    """For a boolean VALUE (not a branch): True if it is equivalent to "the collection is empty", False if to "it is
    not empty", None otherwise - `c.is_empty()`, `c.len() == 0`, `!(c.len() > 0)`, `c.len() < 1`, ... in any spelling."""
    neg = False
    while v[0] == 'unop' and v[1] == 'Not':
        v, neg = v[2], not neg
    res = None
    if is_empty_call(v):
        res = True
    elif v[0] == 'binop' and v[1] in ('Eq', 'Ne', 'Gt', 'Ge', 'Lt', 'Le'):
        op, a, b = v[1], peel(v[2]), peel(v[3])
        if is_len(b) and a[0] == 'const':
            a, b = b, a
            op = {'Gt': 'Lt', 'Ge': 'Le', 'Lt': 'Gt', 'Le': 'Ge', 'Eq': 'Eq', 'Ne': 'Ne'}[op]
        if is_len(a) and b[0] == 'const' and b[2] is not None:
            k = b[2]
            res = {('Eq', 0): True, ('Ne', 0): False, ('Gt', 0): False, ('Ge', 1): False, ('Le', 0): True,
                   ('Lt', 1): True}.get((op, k))
    if res is None:
        return None
    return res != neg


def exists_loop(facts, paths, over_place, pred):
    """Does a bool function compute `over_place.iter().any(pred)` as an explicit loop?  Every returning path is cut
    into iterations at the `next()` calls of a slice iterator over `over_place`; `pred(path, events, item)` gives the
    truth of the predicate in one iteration (None = cannot tell).  Required: `true` is returned exactly at the end of
    an iteration whose predicate holds, the loop goes on exactly when it does not, and `false` is returned exactly
    when the iterator is exhausted.  Returns (ok, number of iterations judged)."""
    n = 0
    for p in paths:
        if p.end != 'return':
            continue
        calls = {c['id']: c for c in p.calls()}
        src = [c for c in p.calls() if c['res'].endswith('::deref') and c['args'][0][:2] == ('ref', over_place)]
        its = [c for c in p.calls() if c['res'] == 'core::slice::<impl [T]>::iter']
        if not its or not (its[0]['args'][0] == ('ref', over_place, False) or
                           (src and its[0]['args'][0] == ('ref', ('deref', ('call', src[0]['id'])), False))):
            return False, n
        idx = [i for i, e in enumerate(p.events) if e['kind'] == 'call' and e['res'].endswith('Iterator>::next')]
        if not idx:
            return False, n
        for k, i in enumerate(idx):
            seg = p.events[i + 1:(idx[k + 1] if k + 1 < len(idx) else len(p.events))]
            nxt = p.events[i]
            d = [c for c in seg if c['kind'] == 'cond' and c['expr'][0] == 'discr' and c['expr'][1] == ('call', nxt['id'])]
            if not d:
                return False, n
            last = k + 1 == len(idx)
            some = cond_variants(facts, d[0]) == {'Some'}
            if not some:
                # exhausted: the function must return false here
                if not (last and is_const(p.ret, 0)):
                    return False, n
                continue
            item = ('fieldv', ('call', nxt['id']), '0', 'Some')
            t = pred(p, seg, item)
            n += 1
            if t is None:
                return False, n
            if last:
                if not (t is True and is_const(p.ret, 1)):
                    return False, n
            elif t is not False:
                return False, n
    return n > 0, n


def takes_of(path, place):
    """Events that move the value out of an Option place leaving None behind, whatever the spelling -
    `place.take()`, `mem::take(&mut place)`, `mem::replace(&mut place, None)` - as (event, value obtained)."""
    out = []
    for e in path.events:
        if e['kind'] == 'call' and e['res'] == 'core::option::Option::take' and e['args'][0] == ('ref', place, True):
            out.append((e, ('call', e['id'])))
        elif e['kind'] == 'write' and e['place'] == place and e.get('via') == 'mem::take':
            out.append((e, e['old']))
        elif e['kind'] == 'write' and e['place'] == place and e.get('via') == 'mem::replace' and \
                (is_variant(e['value'], 'Option', 'None') or (e['value'][0] == 'agg' and e['value'][3] == 'None')):
            out.append((e, e['old']))
    return out


def path_bool(path, v):
    """The boolean a value has on this path: a constant, or a value the path has branched on (`let ok = a && b; if ok
    { .. } ok` returns the tested value itself).  None if unknown."""
    if not isinstance(v, tuple) or not v:
        return None
    if v[0] == 'const' and v[1] == 'bool':
        return bool(v[2])
    neg = False
    while v[0] == 'unop' and v[1] == 'Not':
        v, neg = v[2], not neg
    out = None
    for c in path.conds():
        e, t = norm_bool(c)
        if t is not None and e == v:
            out = t
    return None if out is None else (out != neg)


def conn_state_test(facts, ev, variant):
    """What a cond established about `self.connection_state` being `variant`: True / False / None - for `==`, `!=`,
    `matches!`, `match` alike."""
    vs = variant_test(facts, ev, lambda v: is_self_field_load(v, 'connection_state'))
    if vs is None:
        return None
    if vs == {variant}:
        return True
    if variant not in vs:
        return False
    return None


def kind_test(facts, ev, kind, adt='payload::Message'):
    """What a cond established about a message being of `kind`: True / False / None - `==`, `!=`, `matches!`, `match`."""
    e0 = ev['expr']
    if e0[0] == 'discr' and not str(e0[2]).startswith(adt):
        return None
    vs = variant_test(facts, ev, lambda v: True)
    if vs is None:
        return None
    try:
        names = set(facts.variant_names(adt))
    except Exception:
        return None
    if not vs <= names or not vs:
        return None
    if vs == {kind}:
        return True
    if kind not in vs:
        return False
    return None


def min_operands(path, v, depth=0):
    """The values v is known not to exceed: v itself, or - when v is min(a, b) in either spelling - those of a and b."""
    calls = {c['id']: c for c in path.calls()}
    w = peel(v)
    if depth < 3 and w[0] == 'call' and w[1] in calls and calls[w[1]]['res'] in MIN_FNS:
        out = []
        for a in calls[w[1]]['args']:
            out += min_operands(path, a, depth + 1)
        return out
    return [v]

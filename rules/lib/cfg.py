"""Control-flow graph utilities over a mirfacts body.

Only the normal (non-unwind) flow is modelled: cleanup blocks and unwind edges
are ignored, as every rule in this framework is about normal executions (the
properties assume user code does not panic, and C06 separately shows that Foca's
own code does not).

Every SwitchInt edge is split by a virtual node ('e', block, k) so that "site s
is dominated by the edge (cond = v)" is an ordinary dominator query.
"""


def term_succs(t):
    """[(target_block, label)] of a terminator; label is None or ('sw', value-string)."""
    k = t['k']
    if k == 'goto':
        return [(t['target'], None)]
    if k == 'switch':
        return [(b, ('sw', v)) for v, b in t['targets']]
    if k == 'call':
        return [(t['target'], None)] if t['target'] >= 0 else []
    if k in ('assert', 'drop'):
        return [(t['target'], None)]
    return []


class CFG:
    def __init__(self, body):
        self.body = body
        blocks = body.blocks
        self.n = len(blocks)
        self.succ = {}
        self.edge_info = {}       # virtual node -> (block, value-string, target)
        for i, bl in enumerate(blocks):
            if bl['cleanup']:
                continue
            outs = []
            for k, (tgt, label) in enumerate(term_succs(bl['term'])):
                if label is not None:
                    e = ('e', i, k)
                    self.edge_info[e] = (i, label[1], tgt)
                    self.succ[e] = [tgt]
                    outs.append(e)
                else:
                    outs.append(tgt)
            self.succ[i] = outs
        self.pred = {}
        for a, outs in self.succ.items():
            for b in outs:
                self.pred.setdefault(b, []).append(a)
        self.reach = self._reach(0, self.succ)
        self.returns = [i for i in self.reach if isinstance(i, int) and blocks[i]['term']['k'] == 'return']
        self._dom = None
        self._pdom = None

    @staticmethod
    def _reach(start, succ):
        seen = set()
        st = [start]
        while st:
            x = st.pop()
            if x in seen:
                continue
            seen.add(x)
            st.extend(succ.get(x, []))
        return seen

    @staticmethod
    def _dominators(entry, nodes, pred):
        dom = {x: set(nodes) for x in nodes}
        dom[entry] = {entry}
        changed = True
        order = list(nodes)
        while changed:
            changed = False
            for x in order:
                if x == entry:
                    continue
                ps = [p for p in pred.get(x, []) if p in dom]
                if ps:
                    new = set.intersection(*[dom[p] for p in ps]) | {x}
                else:
                    new = {x}
                if new != dom[x]:
                    dom[x] = new
                    changed = True
        return dom

    @property
    def dom(self):
        if self._dom is None:
            self._dom = self._dominators(0, self.reach, self.pred)
        return self._dom

    @property
    def pdom(self):
        """Post-dominators w.r.t. normal returns (virtual exit 'X')."""
        if self._pdom is None:
            rsucc = {}
            for a in self.reach:
                for b in self.succ.get(a, []):
                    if b in self.reach:
                        rsucc.setdefault(b, []).append(a)
            rsucc['X'] = list(self.returns)
            rpred = {}
            for a, outs in rsucc.items():
                for b in outs:
                    rpred.setdefault(b, []).append(a)
            nodes = self._reach('X', rsucc)
            self._pdom = self._dominators('X', nodes, rpred)
        return self._pdom

    # -- queries -----------------------------------------------------------
    def dominates(self, a, b):
        return b in self.dom and a in self.dom[b]

    def postdominates(self, a, b):
        """a is on every path from b to a normal return (b must be able to return)."""
        return b in self.pdom and a in self.pdom[b]

    def guards(self, node):
        """Switch edges dominating `node`: list of (switch block, value-string, target)."""
        return [self.edge_info[x] for x in self.dom.get(node, ()) if x in self.edge_info]

    def reachable_from(self, a):
        return self._reach(a, self.succ)

    def can_reach(self, a, b):
        return b in self._reach(a, self.succ)

    def in_cycle(self, node):
        for s in self.succ.get(node, []):
            if node in self._reach(s, self.succ):
                return True
        return False

    def back_edges(self):
        """Edges a->b where b dominates a (natural loops)."""
        out = []
        for a in self.reach:
            for b in self.succ.get(a, []):
                if self.dominates(b, a):
                    out.append((a, b))
        return out

    def is_loop_free(self):
        return not any(self.in_cycle(x) for x in self.reach if isinstance(x, int))

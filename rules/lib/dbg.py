"""Debug aid: print the symbolic paths of a function.  python3 -m rules.lib.dbg facts.json <fn substring> [inline-all]"""
import json, sys
from .facts import Facts
from .symx import Executor, show

def print_paths(f, b, inline=None, limit=200):
    ex = Executor(f, inline=inline)
    paths = ex.run(b)
    print('== %s: %d paths' % (b.nname, len(paths)))
    for i, p in enumerate(paths[:limit]):
        print(' path %d end=%s ret=%s' % (i, p.end, show(p.ret, b) if p.ret else None))
        for e in p.events:
            k = e['kind']
            if k == 'cond':
                print('    %sif %s == %s   [%s]' % ('  ' * e['depth'], show(e['expr'], b), e['taken'], e['span']['at'].split(':')[1]))
            elif k == 'call':
                print('    %scall#%d %s(%s)' % ('  ' * e['depth'], e['id'], e['res'] or e['decl'], ', '.join(show(a, b) for a in e['args'])))
            elif k == 'write':
                print('    %s%s := %s' % ('  ' * e['depth'], show(e['place'], b), show(e['value'], b)))
            elif k == 'assert':
                print('    %sassert %s %s' % ('  ' * e['depth'], e['akind'], show(e['cond'], b)))
            elif k == 'enter':
                print('    %s-> %s' % ('  ' * e['depth'], e['callee']))
            elif k == 'leave':
                print('    %s<- %s' % ('  ' * e['depth'], show(e['value'], b)))

if __name__ == '__main__':
    f = Facts(json.load(open(sys.argv[1])))
    inl = (lambda a, c, d: True) if len(sys.argv) > 3 else None
    for b in f.bodies:
        if sys.argv[2] in b.nname:
            print_paths(f, b, inl)

"""Rule-instance bookkeeping, known findings, evidence and the VIOLATION interface."""
import json
import os
import re
import time

VERIF = os.path.dirname(os.path.dirname(os.path.dirname(os.path.abspath(__file__))))


def load_known_findings(path=None):
    path = path or os.path.join(VERIF, 'known_findings.txt')
    known = {}
    if not os.path.exists(path):
        return known
    for line in open(path):
        line = line.strip()
        if not line.startswith('known:'):
            continue
        m = re.match(r'known:\s+property=(\S+)\s+key=(\S+)\s*(.*)$', line)
        if m:
            known[(m.group(1), m.group(2))] = m.group(3)
    return known


def site_of(span):
    """'src/lib.rs:123' from a mirfacts span dict or string."""
    at = span['at'] if isinstance(span, dict) else str(span)
    m = re.match(r'([^:]+:\d+)', at)
    return m.group(1) if m else at


class Report:
    def __init__(self, prop_id, tier='quick', seed=0):
        self.prop = prop_id
        self.tier = tier
        self.seed = seed
        self.t0 = time.time()
        self.instances = []          # dicts
        self.violations = []         # dicts with key
        self.rules = {}              # rule id -> description
        self.floors = []             # (rule, found, floor, what)
        self.configs = []
        self.meta = {}
        self.not_decided = []
        self.assumptions = []
        self.explanation = ''
        self.cur_config = None

    # -- declaring ----------------------------------------------------------
    def rule(self, rid, text):
        # a rule id can carry several statements (its own, and rules of neighbouring properties re-run under it)
        cur = self.rules.get(rid)
        if not cur:
            self.rules[rid] = text
        elif text not in cur:
            self.rules[rid] = cur + ' || ' + text

    def ok(self, rule, fn, what, site=None, facts=None):
        rec = {'rule': rule, 'fn': fn, 'what': what, 'verdict': 'holds'}
        if site is not None:
            rec['site'] = site_of(site)
        if facts is not None:
            rec['facts'] = facts
        if self.cur_config:
            rec['config'] = self.cur_config
        self.instances.append(rec)

    def violation(self, rule, fn, construct, msg, site=None, facts=None):
        """`construct` must identify the offending program construct without line numbers."""
        key = '%s|%s|%s' % (rule, fn, re.sub(r'\s+', '_', construct))
        rec = {'rule': rule, 'fn': fn, 'construct': construct, 'what': msg, 'verdict': 'VIOLATED', 'key': key}
        if site is not None:
            rec['site'] = site_of(site)
        if facts is not None:
            rec['facts'] = facts
        if self.cur_config:
            rec['config'] = self.cur_config
        self.instances.append(rec)
        self.violations.append(rec)

    def check(self, cond, rule, fn, what, site=None, facts=None, construct=None):
        if cond:
            self.ok(rule, fn, what, site, facts)
        else:
            self.violation(rule, fn, construct or what, 'expected: ' + what, site, facts)
        return cond

    def floor(self, rule, found, floor, what):
        """Fail closed when a rule binds fewer instances than were confirmed by hand."""
        self.floors.append({'rule': rule, 'found': found, 'floor': floor, 'what': what})
        if found < floor:
            self.violation(rule, '-', 'floor:' + what, 'rule matched %d instance(s) of "%s", fewer than the %d '
                           'confirmed on the reference tree: the rule would pass vacuously' % (found, what, floor))

    def anchor_missing(self, rule, what):
        self.violation(rule, '-', 'anchor:' + what, 'anchor not found: %s (fail closed)' % what)

    # -- finishing ----------------------------------------------------------
    def finish(self, known):
        wall = time.time() - self.t0
        unlisted, listed = [], []
        seen = set()
        for v in self.violations:
            k = (self.prop, v['key'])
            if (v['key'], v.get('config')) in seen:
                continue
            seen.add((v['key'], v.get('config')))
            (listed if k in known else unlisted).append(v)
        distinct = {(r['rule'], r['fn'], r.get('site'), r.get('construct') or r.get('what')) for r in self.instances}
        ev = {
            'property_id': self.prop,
            'tier': self.tier,
            'seed': self.seed,
            'level': 'other',
            'coverage': {
                'explanation': self.explanation,
                'evaluations': len(self.instances),
                'distinct_nontrivial': len(distinct),
                'rule': 'one evaluation = one rule instance bound to a program construct (function x site) of the '
                        'current tree and decided from its MIR; distinct = distinct (rule, function, site) triples; '
                        'an instance is non-trivial because every rule binds only to constructs it has a stated '
                        'obligation for (floors make vacuous passes fail).',
                'rules': self.rules,
                'floors': self.floors,
                'samples': self.instances[:60],
                'configs': self.configs,
                'not_decided': self.not_decided,
                'exhaustive': False,
            },
            'assumptions': self.assumptions,
            'wall_s': round(wall, 2),
            'violations': len(unlisted),
            'known_findings': len(listed),
        }
        ev['coverage'].update(self.meta)
        evdir = os.environ.get('VERIF_EVIDENCE_DIR') or os.path.join(VERIF, 'evidence')
        os.makedirs(evdir, exist_ok=True)
        with open(os.path.join(evdir, self.prop + '.json'), 'w') as fh:
            json.dump(ev, fh, indent=1, default=str)
        replay = os.path.join(evdir, self.prop + '.violations.json')
        if unlisted or listed:
            with open(replay, 'w') as fh:
                json.dump({'property': self.prop, 'violations': unlisted, 'known_findings': listed}, fh, indent=1,
                          default=str)
        elif os.path.exists(replay):
            os.unlink(replay)
        for v in listed:
            print('KNOWN-FINDING: property=%s %s %s' % (self.prop, v['key'], known[(self.prop, v['key'])]))
        for v in unlisted:
            print('VIOLATION property=%s replay=%s' % (self.prop, replay))
            print('  rule=%s fn=%s at=%s%s\n  construct: %s\n  %s' % (
                v['rule'], v['fn'], v.get('site', '-'), (' config=' + v['config']) if v.get('config') else '',
                v['construct'], v['what']))
        print('%s: %d rule instances over %d constructs, %d violation(s), %d known finding(s), %.1fs [%s]' % (
            self.prop, len(self.instances), len(distinct), len(unlisted), len(listed), wall, self.tier))
        return 1 if unlisted else 0

"""Enumeration of panic sites (C06-R1) with semantic, line-free descriptors."""
from .facts import strip_generics, show_place


def operand_origin(body, block_idx, op, depth=0):
    """Pretty origin of an operand: constants by value, temporaries traced through copies in the same block to a
    user-visible place (local name / field path)."""
    if op['k'] == 'const':
        return op['val'] if op['val'] is not None else op['txt']
    p = op['place']
    if depth > 8:
        return show_place(p, body)
    if p['proj'] and p['local'] not in body.local_names:
        # projections applied to a temporary: name the temporary first
        base = operand_origin(body, block_idx, {'k': 'copy', 'place': {'local': p['local'], 'proj': []}}, depth + 1)
        if body.kind == 'Closure' and p['local'] == 1:
            fs = [e for e in p['proj'] if e['k'] == 'field']
            if len(fs) >= 1 and fs[0]['i'] in body.upvar_names:
                base = 'upvar:' + body.upvar_names[fs[0]['i']][0]
                rest = p['proj'][p['proj'].index(fs[0]) + 1:]
                return base + ''.join('.' + e['name'] for e in rest if e['k'] == 'field')
        out = base
        for e in p['proj']:
            if e['k'] == 'field':
                out += '.' + e['name']
            elif e['k'] == 'downcast':
                out += ' as ' + e['variant']
            elif e['k'] == 'index':
                out += '[]'
        return out.replace('&', '')
    if p['proj'] or p['local'] in body.local_names:
        return show_place(p, body).replace('(*', '').replace(')', '')
    # temp: find its single assignment in this block (or any block if unique)
    defs = []
    for bi, bl in enumerate(body.blocks):
        for s in bl['stmts']:
            if 'lhs' in s and s['lhs']['local'] == p['local'] and not s['lhs']['proj']:
                defs.append((bi, s))
        t = bl['term']
        if t['k'] == 'call' and t['dest']['local'] == p['local'] and not t['dest']['proj']:
            defs.append((bi, t))
    if len(defs) != 1:
        return show_place(p, body)
    bi, d = defs[0]
    if 'rv' in d:
        rv = d['rv']
        if rv['k'] == 'use':
            return operand_origin(body, bi, rv['op'], depth + 1)
        if rv['k'] == 'cast':
            return operand_origin(body, bi, rv['a'], depth + 1)
        if rv['k'] == 'binop':
            return '%s(%s,%s)' % (rv['op'], operand_origin(body, bi, rv['a'], depth + 1),
                                  operand_origin(body, bi, rv['b'], depth + 1))
        if rv['k'] == 'ref':
            return operand_origin(body, bi, {'k': 'copy', 'place': rv['place']}, depth + 1)
        if rv['k'] == 'discr':
            return 'discr(%s)' % show_place(rv['place'], body)
        return rv['k']
    # call
    return '%s(%s)' % (strip_generics(d['res'] or d['decl']).split('::')[-1],
                       ','.join(operand_origin(body, bi, a, depth + 1) for a in d['args']))


def panic_sites(facts, skip=lambda b: False):
    """Yield dicts: kind in {'assert','panic','call'}; for 'call' the callee must be classified by the caller."""
    for b in facts.bodies:
        if skip(b):
            continue
        for bi, bl in enumerate(b.blocks):
            if bl['cleanup']:
                continue
            t = bl['term']
            if t['k'] == 'assert':
                desc = '%s:%s' % (t['kind'], ','.join(operand_origin(b, bi, o) for o in t['ops']))
                yield {'kind': 'assert', 'body': b, 'block': bi, 'term': t, 'desc': desc, 'span': t['span']}
            elif t['k'] == 'call':
                d, r = strip_generics(t['decl']), strip_generics(t['res'])
                if r.startswith('core::panicking::') or d.startswith('core::panicking::'):
                    mac = t['span']['mac'].rstrip('!') or 'panic'
                    yield {'kind': 'panic', 'body': b, 'block': bi, 'term': t, 'desc': mac, 'span': t['span'],
                           'callee': r or d}
                else:
                    yield {'kind': 'call', 'body': b, 'block': bi, 'term': t, 'decl': d, 'res': r,
                           'span': t['span'], 'desc': (r or d)}

"""Enumeration of panic sites (C06-R1) with semantic, line-free descriptors."""
import re

from .facts import strip_generics, show_place


def _defs_of(body, local):
    defs = []
    for bi, bl in enumerate(body.blocks):
        if bl['cleanup']:
            continue
        for s in bl['stmts']:
            if 'lhs' in s and s['lhs']['local'] == local and not s['lhs']['proj']:
                defs.append((bi, s))
        t = bl['term']
        if t['k'] == 'call' and t['dest']['local'] == local and not t['dest']['proj']:
            defs.append((bi, t))
    return defs


COMMUTATIVE = ('Add', 'AddWithOverflow', 'AddUnchecked', 'Mul', 'MulWithOverflow', 'MulUnchecked', 'Eq', 'Ne', 'BitAnd',
               'BitOr', 'BitXor')


def _operand_rank(s):
    """Canonical order of the operands of a commutative operation: variables first, literals last."""
    s = str(s)
    return (1 if re.match(r'^-?\d+$', s) else 0, s)


def _is_step_of(body, local, op, depth=0):
    """op is `(local checked+/- const).0` (possibly through temporaries)."""
    if op['k'] == 'const' or depth > 4:
        return False
    p = op['place']
    fields = [e for e in p['proj'] if e['k'] == 'field']
    ds = _defs_of(body, p['local'])
    if len(ds) != 1 or 'rv' not in ds[0][1]:
        return False
    rv = ds[0][1]['rv']
    if rv['k'] == 'use' and not fields:
        return _is_step_of(body, local, rv['op'], depth + 1)
    if rv['k'] == 'binop' and rv['op'] in ('AddWithOverflow', 'SubWithOverflow', 'Add', 'Sub', 'AddUnchecked', 'SubUnchecked'):
        a, b = rv['a'], rv['b']
        return _is_copy_of(body, a, local) and b['k'] == 'const'
    return False


def _is_copy_of(body, op, local, depth=0):
    """op reads `local`, directly or through single-definition temporaries (`x = x + 1` copies x first)."""
    if op['k'] == 'const' or op['place']['proj'] or depth > 3:
        return False
    if op['place']['local'] == local:
        return True
    ds = _defs_of(body, op['place']['local'])
    if len(ds) != 1 or 'rv' not in ds[0][1] or ds[0][1]['rv']['k'] != 'use':
        return False
    return _is_copy_of(body, ds[0][1]['rv']['op'], local, depth + 1)


def local_origin(body, local, depth=0):
    """Name-free description of a local: `self`/`argN` for parameters; the origin of its single definition; `counter`
    for a local that is initialised with a constant and only ever stepped by a constant; its name as a last resort."""
    if 1 <= local <= body.argc:
        if body.local_names.get(local) == 'self':
            return 'self'
        return '<%s>' % str(body.locals[local]).replace('&mut ', '').replace('&', '')
    defs = _defs_of(body, local)
    if len(defs) == 1 and depth <= 40:
        return _def_origin(body, defs[0], depth + 1)
    if defs and all('rv' in d and ((d['rv']['k'] == 'use' and (d['rv']['op']['k'] == 'const' or _is_step_of(body, local, d['rv']['op'])))
                                   ) for bi, d in defs):
        return 'counter:%s' % body.locals[local]
    if any('rv' in d and d['rv']['k'] == 'use' and _is_step_of(body, local, d['rv']['op']) for bi, d in defs):
        # stepped by a constant, but also assigned otherwise: an accumulator
        return 'acc:%s' % body.locals[local]
    return body.local_names.get(local, '_%d' % local)


def _def_origin(body, d, depth):
    bi, d = d
    if 'rv' in d:
        rv = d['rv']
        if rv['k'] == 'use':
            return operand_origin(body, bi, rv['op'], depth + 1)
        if rv['k'] == 'cast':
            return operand_origin(body, bi, rv['a'], depth + 1)
        if rv['k'] == 'binop':
            ops = [operand_origin(body, bi, rv['a'], depth + 1), operand_origin(body, bi, rv['b'], depth + 1)]
            if rv['op'] in COMMUTATIVE:
                ops.sort(key=_operand_rank)      # `a + b` and `b + a` are the same site
            return '%s(%s,%s)' % (rv['op'], ops[0], ops[1])
        if rv['k'] == 'ref':
            return operand_origin(body, bi, {'k': 'copy', 'place': rv['place']}, depth + 1)
        if rv['k'] == 'discr':
            return 'discr(%s)' % operand_origin(body, bi, {'k': 'copy', 'place': rv['place']}, depth + 1)
        return rv['k']
    callee = strip_generics(d['res'] or d['decl'])
    short = callee.split('::')[-1]
    if callee == '<&[u8] as bytes::Buf>::remaining':
        short = 'len'           # the remaining bytes of a slice are its length
    return '%s(%s)' % (short, ','.join(operand_origin(body, bi, a, depth + 1) for a in d['args']))


def operand_origin(body, block_idx, op, depth=0):
    """Name-free origin of an operand: constants by value; parameters by position; temporaries and named locals traced
    through their single definition to a field path / call result (see local_origin)."""
    if op['k'] == 'const':
        return op['val'] if op['val'] is not None else op['txt']
    p = op['place']
    if depth > 44:
        return show_place(p, body)
    if body.kind == 'Closure' and p['local'] == 1 and p['proj']:
        fs = [e for e in p['proj'] if e['k'] == 'field']
        if len(fs) >= 1 and fs[0]['i'] in body.upvar_names:
            # a captured place `self.inner` is named `self__inner`; a captured variable is named after the variable
            # of the enclosing function: describe it the way the enclosing function would
            parts = body.upvar_names[fs[0]['i']][0].split('__')
            base = 'upvar:' + parts[0]
            par = body.facts.by_name.get(body.parent or '', [])
            if len(par) == 1:
                idx = [i for i, n in par[0].local_names.items() if n == parts[0]]
                if len(idx) == 1:
                    base = local_origin(par[0], idx[0], depth + 1)
            base = '.'.join([base] + parts[1:])
            rest = p['proj'][p['proj'].index(fs[0]) + 1:]
            return base + ''.join('.' + e['name'] for e in rest if e['k'] == 'field')
    out = local_origin(body, p['local'], depth + 1)
    for e in p['proj']:
        if e['k'] == 'field':
            out += '.' + e['name']
        elif e['k'] == 'downcast':
            out += ' as ' + e['variant']
        elif e['k'] == 'index':
            out += '[]'
    out = out.replace('&', '')
    # `x?` and an explicit `match x { Ok(v) => v, .. }` name the same value
    out = re.sub(r'branch\((.*)\) as Continue\.0', r'\1.ok', out)
    out = out.replace(' as Ok.0', '.ok').replace(' as Some.0', '.some')
    return out


def panic_sites(facts, skip=lambda b: False):
    """Yield dicts: kind in {'assert','panic','call'}; for 'call' the callee must be classified by the caller."""
    for b in facts.bodies:
        if skip(b):
            continue
        for bi, bl in enumerate(b.blocks):
            if bl['cleanup']:
                continue
            t = bl['term']
            if t['k'] == 'assert':
                ops = [operand_origin(b, bi, o) for o in t['ops']]
                if t['kind'] in ('Overflow(Add)', 'Overflow(Mul)'):
                    ops.sort(key=_operand_rank)
                desc = '%s:%s' % (t['kind'], ','.join(ops))
                if t['kind'] in ('DivisionByZero', 'RemainderByZero'):
                    # the message operand is the dividend; what matters is the divisor: `cond = Eq(divisor, 0)`
                    c = t.get('cond')
                    if c and c.get('k') in ('copy', 'move') and not c['place']['proj']:
                        ds = _defs_of(b, c['place']['local'])
                        if len(ds) == 1 and 'rv' in ds[0][1] and ds[0][1]['rv']['k'] == 'binop' and ds[0][1]['rv']['op'] == 'Eq':
                            desc += '/' + operand_origin(b, ds[0][0], ds[0][1]['rv']['a'])
                yield {'kind': 'assert', 'body': b, 'block': bi, 'term': t, 'desc': desc, 'span': t['span']}
            elif t['k'] == 'call':
                d, r = strip_generics(t['decl']), strip_generics(t['res'])
                if r.startswith('core::panicking::') or d.startswith('core::panicking::'):
                    mac = t['span']['mac'].rstrip('!') or 'panic'
                    yield {'kind': 'panic', 'body': b, 'block': bi, 'term': t, 'desc': mac, 'span': t['span'],
                           'callee': r or d}
                else:
                    yield {'kind': 'call', 'body': b, 'block': bi, 'term': t, 'decl': d, 'res': r,
                           'span': t['span'], 'desc': (r or d)}


def operand_root(body, op, depth=0):
    """Follow copies/moves/casts of temporaries back to ('const', operand) / ('param', n) / None."""
    if op['k'] == 'const':
        return ('const', op)
    p = op['place']
    if p['proj'] or depth > 12:
        return None
    if 1 <= p['local'] <= body.argc:
        return ('param', p['local'])
    defs = _defs_of(body, p['local'])
    if len(defs) != 1 or 'rv' not in defs[0][1]:
        return None
    rv = defs[0][1]['rv']
    if rv['k'] == 'use':
        return operand_root(body, rv['op'], depth + 1)
    if rv['k'] == 'cast':
        return operand_root(body, rv['a'], depth + 1)
    return None


def literal_args(facts, fn_nname, n, depth=0):
    """The constant operands passed for parameter n (1-based) of a crate function at every call site in the crate,
    following parameters that a caller merely forwards.  None if some call site passes something else (or there is none)."""
    if depth > 4:
        return None
    out = []
    found = False
    for b, bi, t in facts.all_calls():
        if strip_generics(t['res']) != fn_nname:
            continue
        found = True
        if n - 1 >= len(t['args']):
            return None
        r = operand_root(b, t['args'][n - 1])
        if r is None:
            return None
        if r[0] == 'const':
            out.append(r[1])
        else:
            if b.kind == 'Closure':
                return None
            up = literal_args(facts, b.nname, r[1], depth + 1)
            if up is None:
                return None
            out += up
    return out if found else None

"""Lower bounds on the size of a buffer along one symbolic path (used to discharge Buf/BufMut/slice preconditions).

For a buffer identified by the local variable or field that holds it, scan the path's events in order:
  * size queries (remaining / remaining_mut / len / has_remaining(_mut) / is_empty) create terms;
  * branch conditions comparing a term with a constant or an expression create facts  size >= k + sum(atoms);
  * known consumers (get_u16, put_u16, put_u8, put_slice, advance) subtract what they consume;
  * any other call that may mutate the buffer, or an assignment to it, drops every fact.
A requirement `size >= need` at an event is discharged iff some fact valid there covers it.
"""
from .symx import place_root, is_prefix
from . import query as q

SIZE_QUERIES = {
    '<&[u8] as bytes::Buf>::remaining': 'n', 'bytes::Buf::remaining': 'n',
    '<bytes::buf::Limit as bytes::BufMut>::remaining_mut': 'n', 'bytes::BufMut::remaining_mut': 'n',
    'core::slice::<impl [T]>::len': 'n', 'alloc::vec::Vec::len': 'n',
    'bytes::Buf::has_remaining': 'nonempty', 'bytes::BufMut::has_remaining_mut': 'nonempty',
    'core::slice::<impl [T]>::is_empty': 'empty', 'alloc::vec::Vec::is_empty': 'empty',
}
CONSUMERS = {
    'bytes::Buf::get_u16': 2, 'bytes::Buf::get_u8': 1, 'bytes::BufMut::put_u16': 2, 'bytes::BufMut::put_u8': 1,
    'bytes::BufMut::put_slice': 'slice', '<&[u8] as bytes::Buf>::advance': 'arg1', 'bytes::Buf::advance': 'arg1',
}


def buffer_id(v):
    """Identity of the buffer an argument designates: the place of the variable/field holding it."""
    if v[0] != 'ref':
        if v[0] == 'param':
            return ('local', v[1], v[2])
        if v[0] == 'havoc':
            return v[1]
        return ('value', v)
    P = v[1]
    while True:
        root = place_root(P)
        if root[0] == 'deref':
            inner = root[1]
            if inner[0] == 'havoc':
                return inner[1]
            if inner[0] == 'param':
                return ('local', inner[1], inner[2])
            if inner[0] == 'ref':
                P = inner[1]
                continue
            if inner[0] == 'call':
                return ('value', inner)
        return P


def size_norm(v, calls):
    """Canonical form of an expression denoting a length, so that `x.len()` and the slice `&*x` agree."""
    v0 = v
    while v[0] == 'cast' and v[1] in ('IntToInt', 'Into'):
        v = v[2]
    if v[0] == 'call' and v[1] in calls:
        c = calls[v[1]]
        nm = c['res'] or c['decl']
        if nm in ('alloc::vec::Vec::len', 'core::slice::<impl [T]>::len') and c['args']:
            return ('lenof', buffer_id(c['args'][0]))
        if nm == '<alloc::vec::Vec as core::ops::Deref>::deref' and c['args']:
            return ('lenof', buffer_id(c['args'][0]))
    if v[0] == 'ref':
        # a slice value: &*deref-call  or  &place
        P = v[1]
        if P[0] == 'deref' and P[1][0] == 'call' and P[1][1] in calls:
            return size_norm(P[1], calls)
        return ('lenof', buffer_id(v))
    return v0 if v is v0 else ('castof', v)


def split_sum(e):
    """(const, [atoms]) of an expression used as a bound."""
    if e[0] == 'const' and e[2] is not None:
        return e[2], []
    if e[0] == 'binop' and e[1] == 'Add':
        a, b = e[2], e[3]
        ca, aa = split_sum(a)
        cb, ab = split_sum(b)
        return ca + cb, aa + ab
    return 0, [e]


class Budget:
    def __init__(self, path, buf):
        self.path = path
        self.buf = buf
        self.calls = {e['id']: e for e in path.events if e['kind'] == 'call'}

    def _mutation(self, e):
        """None if event does not touch the buffer; ('consume', amount) or ('unknown',)"""
        if e['kind'] == 'write':
            if is_prefix(e['place'], self.buf) or is_prefix(self.buf, e['place']):
                return ('unknown',)
            return None
        if e['kind'] != 'call':
            return None
        touches = False
        for a in e['args']:
            if a[0] == 'ref' and a[2] and (buffer_id(a) == self.buf or is_prefix(a[1], self.buf)):
                touches = True
        if not touches:
            return None
        nm = e['res'] if e['res'] in CONSUMERS else e['decl']
        if nm in CONSUMERS and buffer_id(e['args'][0]) == self.buf:
            amt = CONSUMERS[nm]
            if amt == 'slice':
                return ('consume', (0, [size_norm(e['args'][1], self.calls)]))
            if amt == 'arg1':
                c, at = split_sum(e['args'][1])
                return ('consume', (c, [size_norm(x, self.calls) for x in at]))
            return ('consume', (amt, []))
        return ('unknown',)

    @staticmethod
    def _sub(fact, amt):
        c, atoms = fact
        k, need = amt
        atoms = list(atoms)
        for n in need:
            if n in atoms:
                atoms.remove(n)
            else:
                return None
        if c < k:
            return None
        return (c - k, atoms)

    def facts_at(self, idx):
        """Facts (const, atoms) valid just before event idx."""
        evs = self.path.events
        terms = {}     # call id -> (kind, time)
        facts = []     # [fact]
        log = []       # (time, mutation)
        for t, e in enumerate(evs[:idx]):
            if e['kind'] == 'call':
                nm = e['res'] if e['res'] in SIZE_QUERIES else e['decl']
                if nm in SIZE_QUERIES and e['args'] and buffer_id(e['args'][0]) == self.buf:
                    terms[e['id']] = (SIZE_QUERIES[nm], t)
                    continue
            m = self._mutation(e)
            if m is not None:
                log.append((t, m))
                if m[0] == 'unknown':
                    facts = []
                else:
                    facts = [f for f in (self._sub(f, m[1]) for f in facts) if f is not None]
                continue
            if e['kind'] == 'cond':
                new = self._fact_from_cond(e, terms)
                if new is None:
                    continue
                fact, t0 = new
                ok = True
                for (tm, m) in log:
                    if tm > t0:
                        if m[0] == 'unknown':
                            ok = False
                            break
                        fact = self._sub(fact, m[1])
                        if fact is None:
                            ok = False
                            break
                if ok:
                    facts.append(fact)
        return facts

    def _fact_from_cond(self, c, terms):
        e, truth = q.norm_bool(c)
        if truth is None:
            return None

        def term(x):
            while x[0] == 'cast' and x[1] in ('IntToInt', 'Into'):
                x = x[2]
            if x[0] == 'call' and x[1] in terms:
                return terms[x[1]]
            return None
        tk = term(e)
        if tk is not None:
            kind, t0 = tk
            if kind == 'nonempty' and truth:
                return (1, []), t0
            if kind == 'empty' and not truth:
                return (1, []), t0
            return None
        if e[0] != 'binop':
            return None
        op, a, b = e[1], e[2], e[3]
        ta, tb = term(a), term(b)
        if ta is not None and ta[0] == 'n':
            other, t0 = b, ta[1]
        elif tb is not None and tb[0] == 'n':
            other, t0 = a, tb[1]
            op = {'Gt': 'Lt', 'Ge': 'Le', 'Lt': 'Gt', 'Le': 'Ge', 'Eq': 'Eq', 'Ne': 'Ne'}[op]
        else:
            return None
        k, atoms = split_sum(other)
        atoms = [size_norm(x, self.calls) for x in atoms]
        # now: size OP other, with truth
        if (op == 'Gt' and truth) or (op == 'Le' and not truth):
            return (k + 1, atoms), t0
        if (op == 'Ge' and truth) or (op == 'Lt' and not truth) or (op == 'Eq' and truth):
            return (k, atoms), t0
        # an unsigned size that is not zero is at least one
        if ((op == 'Ne' and truth) or (op == 'Eq' and not truth)) and k == 0 and not atoms:
            return (1, []), t0
        return None

    def covers(self, idx, need_const=0, need_atoms=()):
        need_atoms = [size_norm(x, self.calls) for x in need_atoms]
        for f in self.facts_at(idx):
            if self._sub(f, (need_const, need_atoms)) is not None:
                return True, f
        return False, None

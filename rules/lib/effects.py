"""Call graph and transitive effect summaries (P7).

Effect atoms of a body:
  W:<Adt>.<field>      assigns (a sub-place of) that field
  M:<Adt>.<field>      takes a mutable borrow of (a sub-place of) that field (potential write by whoever gets it)
  SEND / NOTIFY / TIMER    calls Runtime::send_to / notify / submit_after
  CODEC:<method> / HANDLER:<method> / IDENT:<method> / RNG    calls into user-supplied code
  PANIC                reaches a call to core::panicking::*
Transitive summaries are the union over resolved local callees, closures constructed in the body and
function items mentioned as constants.
"""
from .facts import strip_generics

USER_TRAITS = {
    'runtime::Runtime::send_to': 'SEND',
    'runtime::Runtime::notify': 'NOTIFY',
    'runtime::Runtime::submit_after': 'TIMER',
}


def place_field_atoms(place, kind):
    out = []
    for e in place['proj']:
        if e['k'] == 'field' and e.get('owner'):
            out.append('%s:%s.%s' % (kind, strip_generics(e['owner']), e['name']))
    return out


def operand_fn_refs(o):
    if o['k'] == 'const' and o.get('fn'):
        return [strip_generics(o.get('fnres') or o['fn'])]
    return []


class Effects:
    def __init__(self, facts):
        self.f = facts
        self.direct = {}
        self.edges = {}
        local = facts.by_name
        for b in facts.bodies:
            eff = set()
            out = set()
            for bl in b.blocks:
                if bl['cleanup']:
                    continue
                for s in bl['stmts']:
                    if 'lhs' not in s:
                        continue
                    eff.update(place_field_atoms(s['lhs'], 'W'))
                    rv = s['rv']
                    if rv['k'] in ('ref', 'rawptr') and rv.get('mut', True):
                        eff.update(place_field_atoms(rv['place'], 'M'))
                    if rv['k'] == 'aggregate' and rv['what'] == 'closure':
                        out.add(strip_generics(rv['name']))
                    for key in ('op', 'a', 'b'):
                        if key in rv and isinstance(rv[key], dict):
                            out.update(x for x in operand_fn_refs(rv[key]) if x in local)
                    for o in rv.get('ops', []):
                        out.update(x for x in operand_fn_refs(o) if x in local)
                t = bl['term']
                if t['k'] == 'call':
                    d, r = strip_generics(t['decl']), strip_generics(t['res'])
                    if r in local:
                        out.add(r)
                    if d in USER_TRAITS and not r:
                        eff.add(USER_TRAITS[d])
                    elif d in USER_TRAITS and r and r.startswith('<&mut R as'):
                        pass
                    if not r:
                        if d.startswith('codec::Codec::'):
                            eff.add('CODEC:' + d.split('::')[-1])
                        elif d.startswith('broadcast::BroadcastHandler::'):
                            eff.add('HANDLER:' + d.split('::')[-1])
                        elif d.startswith('identity::Identity::'):
                            eff.add('IDENT:' + d.split('::')[-1])
                        elif d.startswith('rand::') or 'Rng' in t.get('selfty', ''):
                            eff.add('RNG')
                    if r.startswith('core::panicking::'):
                        eff.add('PANIC')
                    for a in t['args']:
                        out.update(x for x in operand_fn_refs(a) if x in local)
            self.direct[b.nname] = eff
            self.edges[b.nname] = out
        # direct effects with unknown helpers (functions that do not exist on the reference tree) folded into the
        # known functions that call them: extracting `self.x = ..` into a private helper keeps the caller a writer of x
        self.folded = {n: set(e) for n, e in self.direct.items()}
        helpers = {b.nname for b in facts.bodies if facts.is_unknown_helper(b)}
        if helpers:
            rev = {}
            for n, outs in self.edges.items():
                for m in outs:
                    rev.setdefault(m, set()).add(n)
            for h in helpers:
                seen, work, known = set(), [h], set()
                while work:
                    x = work.pop()
                    if x in seen:
                        continue
                    seen.add(x)
                    for c in rev.get(x, ()):
                        if c in helpers:
                            work.append(c)
                        else:
                            known.add(c)
                for c in known:
                    self.folded[c] |= self.direct[h]
            for h in helpers:
                self.folded.pop(h, None)
        self.trans = {n: set(e) for n, e in self.direct.items()}
        changed = True
        while changed:
            changed = False
            for n, outs in self.edges.items():
                cur = self.trans[n]
                before = len(cur)
                for m in outs:
                    cur |= self.trans.get(m, set())
                if len(cur) != before:
                    changed = True

    def of(self, nname):
        return self.trans.get(nname, set())

    def writes_field(self, nname, adt, field):
        """May the function (transitively) write or mutably lend adt.field?"""
        e = self.of(nname)
        return ('W:%s.%s' % (adt, field)) in e or ('M:%s.%s' % (adt, field)) in e

    def writers_of(self, adt, field, direct=True, kinds=('W', 'M')):
        src = self.folded if direct else self.trans
        atoms = {'%s:%s.%s' % (k, adt, field) for k in kinds}
        return sorted(n for n, e in src.items() if e & atoms)

    def modset(self, adt='Foca'):
        """callable for symx: callee nname -> set of first-level fields of `adt` it may write (or None)."""
        pre_w, pre_m = 'W:%s.' % adt, 'M:%s.' % adt

        def fn(nname):
            if nname not in self.trans:
                return None
            return {a.split('.', 1)[1] for a in self.trans[nname] if a.startswith(pre_w) or a.startswith(pre_m)}
        return fn

    def reachable(self, roots):
        seen = set()
        st = list(roots)
        while st:
            n = st.pop()
            if n in seen:
                continue
            seen.add(n)
            st.extend(self.edges.get(n, ()))
        return seen

    def callers(self, nname):
        return sorted(n for n, outs in self.edges.items() if nname in outs)

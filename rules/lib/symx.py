"""Symbolic path enumeration over MIR (no solver, no execution of the program).

For one function body this walks every normal control-flow path (loops are
traversed at most `max_visits-1` times per path, longer paths are reported as
'cut'), keeping a symbolic store so that every branch condition, call argument,
field write and return value is an *expression tree over the function's inputs*:
parameters, initial memory (`load`), constants, results of opaque calls.

Drop flags and other compiler temporaries are constants along a path and fold
away, so the only branching left is the program's own.  Small crate-local
callees can be inlined (policy decided by the rule), which is what turns
`Member::can_change`, closures, accessors etc. into decision tables.

The result is a list of Path objects: ordered events (cond / call / write /
assert / ret) that rules query.  Nothing here decides a property by itself.

Value expressions (tuples):
  ('const', ty, int|None, text)        ('variant', adt, name)           fieldless enum value
  ('agg', what, name, variant, fields, ops)                             struct/enum/tuple/closure value
  ('param', fid, n)                    initial value of argument local n of frame fid
  ('load', place, epoch)               read of memory not written on this path
  ('ref', place, mutable)
  ('binop', op, a, b) ('unop', op, a) ('cast', kind, a, ty) ('discr', v)
  ('call', id)                         result of opaque call event #id on this path
  ('fieldv', v, name, variant)         field of an opaque value
  ('optref', P, mut, snapshot)         Option::as_ref/as_mut of the place P
  ('uninit', fid, n) / ('unknown', why)
Place expressions:
  ('local', fid, n) ('deref', v) ('field', place, name, variant) ('index', place, v)
"""
from .facts import strip_generics
from .cfg import CFG

ORDERING = {'255': 'Less', '0': 'Equal', '1': 'Greater', '-1': 'Less'}


class PathLimit(Exception):
    pass


class State:
    __slots__ = ('store', 'events', 'facts', 'visits', 'havocs', 'ncalls')

    def __init__(self):
        self.store = {}
        self.events = []
        self.facts = {}
        self.visits = {}
        self.havocs = []    # (place, call id, fieldset or None)
        self.ncalls = 0

    def clone(self):
        s = State()
        s.store = dict(self.store)
        s.events = list(self.events)
        s.facts = dict(self.facts)
        s.visits = dict(self.visits)
        s.havocs = list(self.havocs)
        s.ncalls = self.ncalls
        return s


class Path:
    def __init__(self, events, end, ret):
        self.events = events
        self.end = end          # 'return' | 'diverge' | 'cut' | 'unreachable'
        self.ret = ret

    def conds(self, upto=None):
        evs = self.events if upto is None else self.events[:upto]
        return [e for e in evs if e['kind'] == 'cond']

    def calls(self):
        return [e for e in self.events if e['kind'] == 'call']

    def writes(self):
        return [e for e in self.events if e['kind'] == 'write']

    def index_of(self, ev):
        for i, e in enumerate(self.events):
            if e is ev:
                return i
        return -1


def is_prefix(p, q):
    """place p is a prefix of (or equal to) place q"""
    while True:
        if p == q:
            return True
        if q[0] in ('field', 'index'):
            q = q[1]
        else:
            return False


def place_root(p):
    while p[0] in ('field', 'index'):
        p = p[1]
    return p


def loop_info(body):
    """header block -> set of locals assigned (or mutably borrowed) inside the natural loop(s) of that header."""
    li = getattr(body, '_loop_info', None)
    if li is not None:
        return li
    li = {}
    try:
        cfg = CFG(body)
    except Exception:
        body._loop_info = li
        return li
    for (a, h) in cfg.back_edges():
        # natural loop of back edge a->h
        nodes = {h, a}
        st = [a]
        while st:
            x = st.pop()
            for p in cfg.pred.get(x, []):
                if p not in nodes and p in cfg.reach:
                    nodes.add(p)
                    if p != h:
                        st.append(p)
        hdr = h
        # the header of an edge-split node is the block it leads to / from
        if not isinstance(hdr, int):
            continue
        assigned = li.setdefault(hdr, set())
        borrowed = getattr(body, '_loop_borrowed', None)
        if borrowed is None:
            borrowed = body._loop_borrowed = {}
        bset = borrowed.setdefault(hdr, set())
        really = borrowed.setdefault(('assigned', hdr), set())
        for n in nodes:
            if not isinstance(n, int):
                continue
            bl = body.blocks[n]
            for s_ in bl['stmts']:
                if 'lhs' in s_:
                    assigned.add(s_['lhs']['local'])
                    really.add(s_['lhs']['local'])
                    rv = s_['rv']
                    if rv['k'] in ('ref', 'rawptr') and rv.get('mut', True):
                        assigned.add(rv['place']['local'])
                        bset.add(rv['place']['local'])
                elif 'setdiscr' in s_:
                    assigned.add(s_['setdiscr']['local'])
                    really.add(s_['setdiscr']['local'])
            t = bl['term']
            if t['k'] == 'call':
                assigned.add(t['dest']['local'])
                really.add(t['dest']['local'])
    body._loop_info = li
    return li


class Executor:
    def __init__(self, facts, inline=None, max_visits=2, max_paths=20000, max_depth=4, modset=None,
                 opaque_locals=False):
        self.facts = facts
        self.inline = inline or (lambda caller, callee, depth: False)
        self.max_visits = max_visits
        self.max_paths = max_paths
        self.max_depth = max_depth
        self.modset = modset       # callable(callee nname) -> set of first-level field names or None
        self.npaths = 0
        self.next_fid = 0

    # ------------------------------------------------------------------ API
    def run(self, body, args=None):
        """Enumerate paths of `body`. Returns [Path]."""
        self.npaths = 0
        self.next_fid = 0
        st = State()
        out = []
        fid = self._new_frame()
        self.top = body
        if args:
            for i, v in enumerate(args):
                st.store[('local', fid, i + 1)] = v
        for s, end, ret in self._exec(body, fid, 0, st, 0):
            ev = list(s.events)
            if end == 'return':
                ev.append({'kind': 'ret', 'value': ret, 'body': body.nname, 'depth': 0})
            self._attribute(ev)
            out.append(Path(ev, end, ret))
            self.npaths += 1
            if self.npaths > self.max_paths:
                raise PathLimit('%s: more than %d paths' % (body.nname, self.max_paths))
        return out

    @staticmethod
    def _attribute(events):
        """Give every event the top-level site it belongs to: 'tblock' = block (in the analysed function) of the
        outermost call through which it was reached by inlining, or its own block at depth 0."""
        stack = []
        for e in events:
            k = e['kind']
            if k == 'leave':
                if stack:
                    stack.pop()
                continue
            if 'tblock' not in e:
                e['tblock'] = stack[0] if stack else e.get('block')
            if k == 'enter':
                stack.append(e['tblock'] if stack else e.get('block'))

    def _new_frame(self):
        self.next_fid += 1
        return self.next_fid - 1

    # ------------------------------------------------------------- places
    def canon(self, body, fid, st, p):
        P = ('local', fid, p['local'])
        pending_variant = None
        for e in p['proj']:
            k = e['k']
            if k == 'deref':
                v = self.read(body, fid, st, P)
                if v[0] == 'ref':
                    P = v[1]
                else:
                    P = ('deref', v)
            elif k == 'field':
                P = ('field', P, e['name'], pending_variant)
                pending_variant = None
            elif k == 'downcast':
                pending_variant = e['variant']
            elif k == 'index':
                P = ('index', P, self.read(body, fid, st, ('local', fid, e['local'])))
            elif k == 'constindex':
                P = ('index', P, ('const', 'usize', e['offset'], str(e['offset'])))
            else:
                P = ('index', P, ('unknown', k))
        return P

    def epoch(self, st, P):
        ep = 0
        for (Q, k, fields) in st.havocs:
            if is_prefix(Q, P):
                if fields is not None and Q != P:
                    # which first-level field of Q does P go through?
                    x = P
                    first = None
                    while x != Q:
                        if x[0] == 'field' and x[1] == Q:
                            first = x[2]
                        x = x[1]
                    if first is not None and first not in fields:
                        continue
                ep = max(ep, k)
            elif is_prefix(P, Q):
                ep = max(ep, k)
        return ep

    def read(self, body, fid, st, P):
        v = self._read0(body, fid, st, P)
        if v[0] != 'agg':
            # fields of P assigned individually after P got its value (`node.remaining_tx -= 1; consume(node)`):
            # the whole value is the base with those fields updated
            subs = {(Q[2], Q[3]) for Q in st.store
                    if Q[0] == 'field' and Q[1] == P}
            for Q in st.store:
                x = Q
                while x[0] in ('field', 'index') and x[1] != P:
                    x = x[1]
                if x[0] == 'field' and x[1] == P and x is not Q:
                    subs.add((x[2], x[3]))
            for (name, variant) in sorted(subs, key=lambda t: (t[0], t[1] or '')):
                fv = self.read(body, fid, st, ('field', P, name, variant))
                v = ('upd', v, name, variant, fv)
        return v

    def _read0(self, body, fid, st, P):
        if P in st.store:
            return st.store[P]
        k = P[0]
        if k == 'local':
            f, n = P[1], P[2]
            if f == 0 and 1 <= n <= self.top.argc:
                return ('param', 0, n)
            return ('uninit', f, n)
        if k == 'field':
            base = self._read0(body, fid, st, P[1])     # (sub-entries of P itself are overlaid by read())
            return self.project(st, base, P[2], P[3], P)
        if k in ('deref', 'index'):
            return ('load', P, self.epoch(st, P))
        return ('unknown', 'read ' + k)

    def project(self, st, base, name, variant, P):
        b = base[0]
        if b == 'upd':
            if base[2] == name and (base[3] == variant or base[3] is None or variant is None):
                return base[4]
            return self.project(st, base[1], name, variant, P)
        if b == 'agg':
            if variant is None or base[3] == variant or not base[3]:
                fields, ops = base[4], base[5]
                if name in fields:
                    return ops[fields.index(name)]
                if name.isdigit() and int(name) < len(ops):
                    return ops[int(name)]
            return ('unknown', 'field %s of %s::%s' % (name, base[2], base[3]))
        if b == 'load':
            Q = ('field', base[1], name, variant)
            if Q in st.store:
                return st.store[Q]
            return ('load', Q, self.epoch(st, Q))
        if b == 'optref':
            if name == '0' and variant in ('Some', None):
                return ('ref', ('field', base[1], '0', 'Some'), base[2])
            return ('unknown', 'field %s of an Option<&T>' % name)
        if b == 'param':
            # by-value parameter: treat as memory rooted at the parameter
            Q = ('field', ('local', base[1], base[2]), name, variant)
            if Q in st.store:
                return st.store[Q]
            return ('fieldv', base, name, variant)
        return ('fieldv', base, name, variant)

    def write(self, st, P, v):
        if P[0] == 'field' and P[1] in st.store and st.store[P[1]][0] == 'agg':
            a = st.store[P[1]]
            if P[2] in a[4] and (P[3] is None or P[3] == a[3]):
                i = a[4].index(P[2])
                ops = list(a[5])
                ops[i] = v
                st.store[P[1]] = a[:5] + (tuple(ops),)
                return
        for Q in [Q for Q in st.store if Q != P and is_prefix(P, Q)]:
            del st.store[Q]
        st.store[P] = v

    def havoc(self, st, P, cid, fields=None):
        """Memory at P (restricted to first-level `fields` if given) may have been mutated by call #cid."""
        for Q in list(st.store):
            if Q != P and is_prefix(P, Q):
                if fields is not None:
                    x = Q
                    first = None
                    while x != P and x[0] in ('field', 'index'):
                        if x[0] == 'field' and x[1] == P:
                            first = x[2]
                        x = x[1]
                    if first is not None and first not in fields:
                        continue
                del st.store[Q]
        if fields is None:
            if place_root(P)[0] == 'local':
                prev = st.store.get(P)
                if prev is not None and prev[0] == 'havoc' and len(prev) > 3:
                    prev = prev[3]          # keep the value before the first mutation only (bounded size)
                self.write(st, P, ('havoc', P, cid, prev))
            elif P in st.store:
                del st.store[P]
        st.havocs.append((P, cid, fields))

    # ------------------------------------------------------------ operands
    def const_value(self, body, o):
        if o.get('promoted', -1) >= 0:
            return self.eval_promoted(body, o['promoted'])
        if o['fn']:
            return ('fn', strip_generics(o['fn']), strip_generics(o['fnres']))
        val = int(o['val']) if o['val'] is not None else None
        if o['adt'] and val is not None:
            adt = strip_generics(o['adt'])
            if adt in self.facts.adts:
                a = self.facts.adts[adt]
                if a['kind'] == 'Enum':
                    vn = self.facts.variant_by_discr(adt, val)
                    if vn is not None:
                        return ('variant', adt, vn)
            if adt == 'core::cmp::Ordering':
                return ('variant', adt, ORDERING.get(str(val), str(val)))
        return ('const', o['ty'], val, o['txt'])

    def eval_promoted(self, body, idx):
        """A promoted constant is a tiny straight-line body; evaluate it symbolically."""
        try:
            pb = body.promoted[idx]
        except Exception:
            return ('unknown', 'promoted')
        key = (body.nname, idx)
        cache = getattr(self, '_promo', None)
        if cache is None:
            cache = self._promo = {}
        if key in cache:
            return cache[key]

        class PB:
            pass
        b = PB()
        b.blocks = pb['blocks']
        b.locals = pb['locals']
        b.argc = 0
        b.nname = body.nname + '::promoted[%d]' % idx
        b.promoted = []
        b.local_names = {}
        fid = ('P', body.nname, idx)
        st = State()
        res = ('unknown', 'promoted')
        saved_top = self.top
        try:
            for s, end, ret in self._exec(b, fid, 0, st, 99):
                if end == 'return':
                    res = ret
                    # keep the promoted frame's memory visible: embed referents
                    res = self._embed(s, res)
                break
        finally:
            self.top = saved_top
        cache[key] = res
        return res

    def _embed(self, st, v):
        """Replace refs to promoted-frame locals by refs to value places."""
        if v[0] == 'ref' and v[1][0] == 'local' and isinstance(v[1][1], tuple):
            inner = st.store.get(v[1], ('unknown', 'promoted local'))
            return ('ref', ('value', self._embed(st, inner)), False)
        if v[0] == 'agg':
            return v[:5] + (tuple(self._embed(st, x) for x in v[5]),)
        return v

    def operand(self, body, fid, st, o):
        k = o['k']
        if k == 'const':
            return self.const_value(body, o)
        if k in ('copy', 'move'):
            P = self.canon(body, fid, st, o['place'])
            return self.read_place(body, fid, st, P)
        return ('unknown', 'operand')

    def read_place(self, body, fid, st, P):
        if P[0] == 'value':
            return P[1]
        if P[0] == 'field' and place_root(P)[0] == 'value':
            base = self.read_place(body, fid, st, P[1])
            return self.project(st, base, P[2], P[3], P)
        return self.read(body, fid, st, P)

    def rvalue(self, body, fid, st, r):
        k = r['k']
        if k == 'use':
            return self.operand(body, fid, st, r['op'])
        if k == 'ref':
            return ('ref', self.canon(body, fid, st, r['place']), bool(r['mut']))
        if k == 'rawptr':
            return ('ref', self.canon(body, fid, st, r['place']), True)
        if k == 'binop':
            a = self.operand(body, fid, st, r['a'])
            b = self.operand(body, fid, st, r['b'])
            if r['op'].endswith('WithOverflow'):
                base = r['op'][:-len('WithOverflow')]
                return ('agg', 'tuple', '', '', ('0', '1'), (fold_binop(base, a, b), ('binop', base + 'Overflows', a, b)))
            return fold_binop(r['op'], a, b)
        if k == 'unop':
            a = self.operand(body, fid, st, r['a'])
            if r['op'] == 'Not' and a[0] == 'const' and a[2] is not None and a[1] == 'bool':
                return ('const', 'bool', 1 - a[2], 'true' if a[2] == 0 else 'false')
            return ('unop', r['op'], a)
        if k == 'discr':
            P = self.canon(body, fid, st, r['place'])
            v = self.read_place(body, fid, st, P)
            return self.discr_of(v, r['place'].get('ty', ''))
        if k == 'cast':
            a = self.operand(body, fid, st, r['a'])
            if r['kind'].startswith('PointerCoercion') or r['kind'].startswith('Transmute') and False:
                return a
            return ('cast', r['kind'], a, r['ty'])
        if k == 'aggregate':
            ops = tuple(self.operand(body, fid, st, x) for x in r['ops'])
            what = r['what']
            name = strip_generics(r['name']) if r['name'] else ''
            if what == 'adt' and not ops and name in self.facts.adts and self.facts.adts[name]['kind'] == 'Enum':
                return ('variant', name, r['variant'])
            fields = tuple(r.get('fields') or [str(i) for i in range(len(ops))])
            if len(fields) != len(ops):
                fields = tuple(str(i) for i in range(len(ops)))
            return ('agg', what, name, r['variant'], fields, ops)
        return ('unknown', 'rvalue ' + k)

    def discr_of(self, v, tystr):
        if v[0] == 'optref':
            return self.discr_of(v[3], 'core::option::Option')
        if v[0] == 'variant':
            adt = v[1]
            if adt in self.facts.adts:
                for x in self.facts.adts[adt]['variants']:
                    if x['name'] == v[2]:
                        return ('const', 'isize', int(x['discr']), x['discr'])
            if adt == 'core::cmp::Ordering':
                return ('const', 'isize', {'Less': 255, 'Equal': 0, 'Greater': 1}[v[2]], v[2])
        if v[0] == 'agg' and v[1] == 'adt':
            adt = v[2]
            if adt in self.facts.adts:
                for x in self.facts.adts[adt]['variants']:
                    if x['name'] == v[3]:
                        return ('const', 'isize', int(x['discr']), x['discr'])
            builtin = {'core::option::Option': {'None': 0, 'Some': 1}, 'core::result::Result': {'Ok': 0, 'Err': 1},
                       'core::ops::ControlFlow': {'Continue': 0, 'Break': 1}}
            if adt in builtin and v[3] in builtin[adt]:
                d = builtin[adt][v[3]]
                return ('const', 'isize', d, str(d))
        return ('discr', v, strip_generics(tystr))

    # --------------------------------------------------------------- calls
    def deep_deref(self, body, fid, st, v):
        n = 0
        while v[0] == 'ref' and n < 6:
            v = self.read_place(body, fid, st, v[1])
            n += 1
        return v

    def model_call(self, body, fid, st, t, args, decl, res):
        """Transparent models of a few library routines (value provenance, P4)."""
        d = decl
        if d == 'core::clone::Clone::clone' and len(args) == 1:
            v = args[0]
            if v[0] == 'ref':
                return self.read_place(body, fid, st, v[1])
            return ('load', ('deref', v), self.epoch(st, ('deref', v)))
        if d in ('core::cmp::PartialEq::eq', 'core::cmp::PartialEq::ne') and len(args) == 2:
            a = self.deep_deref(body, fid, st, args[0])
            b = self.deep_deref(body, fid, st, args[1])
            return fold_binop('Eq' if d.endswith('eq') else 'Ne', a, b)
        if d in ('core::cmp::PartialOrd::lt', 'core::cmp::PartialOrd::le', 'core::cmp::PartialOrd::gt',
                 'core::cmp::PartialOrd::ge') and len(args) == 2:
            a = self.deep_deref(body, fid, st, args[0])
            b = self.deep_deref(body, fid, st, args[1])
            return fold_binop({'lt': 'Lt', 'le': 'Le', 'gt': 'Gt', 'ge': 'Ge'}[d[-2:]], a, b)
        if d == 'core::default::Default::default' and not args:
            ty = t['selfty']
            if ty in ('u8', 'u16', 'u32', 'u64', 'usize', 'i8', 'i16', 'i32', 'i64', 'isize'):
                return ('const', ty, 0, '0')
            if ty == 'bool':
                return ('const', 'bool', 0, 'false')
        if d in ('core::convert::Into::into', 'core::convert::From::from') and len(args) == 1:
            return ('cast', 'Into', args[0], t['dest'].get('ty', ''))
        if d == 'core::num::NonZero::get' and len(args) == 1:
            return ('unop', 'NonZeroGet', args[0])
        if res == '<core::result::Result as core::ops::Try>::branch' and len(args) == 1 and args[0][0] == 'agg' \
                and args[0][2] == 'core::result::Result' and args[0][3] in ('Ok', 'Err') and len(args[0][5]) == 1:
            # `?` on a Result whose variant is known on this path (the value returned by an inlined helper)
            if args[0][3] == 'Ok':
                return ('agg', 'adt', 'core::ops::ControlFlow', 'Continue', ('0',), (args[0][5][0],))
            return ('agg', 'adt', 'core::ops::ControlFlow', 'Break', ('0',), (args[0],))
        if res == '<core::result::Result as core::ops::FromResidual>::from_residual' and len(args) == 1 \
                and args[0][0] == 'agg' and args[0][2] == 'core::result::Result' and args[0][3] == 'Err' \
                and len(args[0][5]) == 1:
            # `?` on an Err whose payload is known on this path (an inlined helper returned it): when the error types
            # agree the conversion is the identity and the function returns that very error
            tys = _top_level_args(t.get('gargs', '')[1:-1])
            if len(tys) == 2:
                e1, e2 = _top_level_args(_inner(tys[0])), _top_level_args(_inner(tys[1]))
                if e1 and e2 and e1[-1] == e2[-1]:
                    return ('agg', 'adt', 'core::result::Result', 'Err', ('0',), (args[0][5][0],))
        if res == '<core::option::Option as core::ops::FromResidual>::from_residual':
            # `opt?` on the None edge: the function returns None
            return ('agg', 'adt', 'core::option::Option', 'None', (), ())
        if (res or d) in ('core::option::Option::as_ref', 'core::option::Option::as_mut') and len(args) == 1 \
                and args[0][0] == 'ref':
            # `opt.as_ref()` is the option seen through a reference: same discriminant as the place, payload = a
            # reference to the place's payload (so `match x.as_ref()`, `match &x` and `Some(ref v) = x` read alike)
            P = args[0][1]
            return ('optref', P, (res or d).endswith('as_mut'), self.read_place(body, fid, st, P))
        if d in ('core::mem::replace',) and len(args) == 2 and args[0][0] == 'ref':
            P = args[0][1]
            old = self.read_place(body, fid, st, P)
            self.write(st, P, args[1])
            # `mem::replace(&mut x, Vec::new())` / `(.., None)` / `(.., Default::default())` is `mem::take(&mut x)`
            via = 'mem::take' if self._is_default_value(st, args[1]) else 'mem::replace'
            st.events.append({'kind': 'write', 'place': P, 'value': args[1], 'old': old, 'via': via,
                              'block': t['_block'], 'span': t['span'], 'body': body.nname, 'depth': t['_depth']})
            return old
        if d == 'core::mem::take' and len(args) == 1 and args[0][0] == 'ref':
            P = args[0][1]
            old = self.read_place(body, fid, st, P)
            new = ('const', 'default', None, 'Default::default()')
            self.write(st, P, new)
            st.events.append({'kind': 'write', 'place': P, 'value': new, 'old': old, 'via': 'mem::take',
                              'block': t['_block'], 'span': t['span'], 'body': body.nname, 'depth': t['_depth']})
            return old
        if d == 'core::mem::swap' and len(args) == 2 and args[0][0] == 'ref' and args[1][0] == 'ref':
            P, Q = args[0][1], args[1][1]
            a = self.read_place(body, fid, st, P)
            b = self.read_place(body, fid, st, Q)
            self.write(st, P, b)
            self.write(st, Q, a)
            for X, nv, ov in ((P, b, a), (Q, a, b)):
                st.events.append({'kind': 'write', 'place': X, 'value': nv, 'old': ov, 'via': 'mem::swap',
                                  'block': t['_block'], 'span': t['span'], 'body': body.nname,
                                  'depth': t['_depth']})
            return ('agg', 'tuple', '', '', (), ())
        return None

    @staticmethod
    def _is_default_value(st, v):
        if v[0] == 'const' and v[1] == 'default':
            return True
        if (v[0] == 'agg' and v[2] == 'core::option::Option' and v[3] == 'None') or \
                (v[0] == 'variant' and v[1] == 'core::option::Option' and v[2] == 'None'):
            return True
        if v[0] == 'call':
            for e in reversed(st.events):
                if e['kind'] == 'call' and e['id'] == v[1]:
                    r = e['res'] or e['decl']
                    return r in ('alloc::vec::Vec::new', 'alloc::string::String::new', 'alloc::collections::VecDeque::new',
                                 'alloc::collections::BinaryHeap::new', 'core::default::Default::default') or \
                        r.endswith(' as core::default::Default>::default')
        return False

    def _ctor_call(self, name, args):
        """`Enum::Variant` / tuple-struct constructors used as functions build the aggregate."""
        if '::' not in name:
            return None
        adt, var = name.rsplit('::', 1)
        a = self.facts.adts.get(adt)
        if a is not None and a['kind'] == 'Enum':
            for v in a['variants']:
                if v['name'] == var and len(v['fields']) == len(args):
                    return ('agg', 'adt', adt, var, tuple(x['name'] for x in v['fields']), tuple(args))
        a = self.facts.adts.get(name)
        if a is not None and a['kind'] == 'Struct' and len(a['variants']) == 1 and len(a['variants'][0]['fields']) == len(args):
            v = a['variants'][0]
            return ('agg', 'adt', name, v['name'], tuple(x['name'] for x in v['fields']), tuple(args))
        return None

    def resolve_refs(self, body, fid, st, v, depth=0):
        """The value with references replaced by what they point to at this moment (for reading aggregates that
        carry references, e.g. Notification::Rename(&old, &new))."""
        if depth > 3:
            return v
        if v[0] == 'ref':
            return self.resolve_refs(body, fid, st, self.read_place(body, fid, st, v[1]), depth + 1)
        if v[0] == 'agg':
            return v[:5] + (tuple(self.resolve_refs(body, fid, st, x, depth + 1) for x in v[5]),)
        return v

    def mut_targets(self, v, tystr, acc, depth=0):
        if depth > 6:
            return
        k = v[0]
        if k == 'ref':
            if v[2]:
                acc.append(v[1])
        elif k == 'agg':
            for x in v[5]:
                self.mut_targets(x, '', acc, depth + 1)
        elif k == 'optref':
            if v[2]:
                acc.append(('field', v[1], '0', 'Some'))
        elif k in ('param', 'load', 'call', 'fieldv'):
            if '&mut' in tystr:
                acc.append(('deref', v))

    # ---------------------------------------------------------------- exec
    def _exec(self, body, fid, block, st, depth):
        """Generator of (state, end, retval) for every path from `block`."""
        blocks = body.blocks
        while True:
            key = (fid, block)
            n = st.visits.get(key, 0) + 1
            if n > self.max_visits:
                yield st, 'cut', None
                return
            st.visits[key] = n
            bl = blocks[block]
            if not isinstance(fid, tuple):
                li = loop_info(body)
                if block in li:
                    self._cur_body = body
                    self._widen(st, fid, block, n, li[block])
            for s in bl['stmts']:
                if 'lhs' in s:
                    v = self.rvalue(body, fid, st, s['rv'])
                    P = self.canon(body, fid, st, s['lhs'])
                    self.write(st, P, v)
                    if P[0] != 'local':
                        st.events.append({'kind': 'write', 'place': P, 'value': v, 'block': block,
                                          'span': s['span'], 'body': body.nname, 'depth': depth, 'fid': fid})
                elif 'setdiscr' in s:
                    P = self.canon(body, fid, st, s['setdiscr'])
                    self.write(st, P, ('unknown', 'setdiscr'))
            t = bl['term']
            k = t['k']
            if k == 'goto':
                block = t['target']
                continue
            if k == 'drop':
                block = t['target']
                continue
            if k == 'return':
                yield st, 'return', self.read(body, fid, st, ('local', fid, 0))
                return
            if k in ('unreachable', 'resume', 'terminate', 'other'):
                yield st, 'unreachable', None
                return
            if k == 'assert':
                c = self.operand(body, fid, st, t['cond'])
                st.events.append({'kind': 'assert', 'cond': c, 'expected': t['expected'], 'akind': t['kind'],
                                  'ops': [self.operand(body, fid, st, o) for o in t['ops']], 'block': block,
                                  'span': t['span'], 'body': body.nname, 'depth': depth})
                block = t['target']
                continue
            if k == 'switch':
                d = self.operand(body, fid, st, t['discr'])
                targets = t['targets']
                vals = [v for v, _ in targets if v != 'otherwise']
                known = None
                if d[0] == 'const' and d[2] is not None:
                    known = str(d[2])
                elif d in st.facts:
                    f = st.facts[d]
                    if f[0] == 'is':
                        known = f[1]
                if known is None:
                    known = self._implied(st, d)
                feasible = []
                for v, tgt in targets:
                    if known is not None:
                        if v == known or (v == 'otherwise' and known not in vals):
                            feasible.append((v, tgt))
                    else:
                        if v == 'otherwise':
                            excl = set(vals)
                            if d in st.facts and st.facts[d][0] == 'not':
                                excl |= st.facts[d][1]
                            if self._otherwise_feasible(d, excl):
                                feasible.append((v, tgt))
                        else:
                            if d in st.facts and st.facts[d][0] == 'not' and v in st.facts[d][1]:
                                continue
                            feasible.append((v, tgt))
                if known is not None:
                    # deterministic: no event unless the value is symbolic (facts-resolved)
                    if not feasible:
                        yield st, 'unreachable', None
                        return
                    v, tgt = feasible[0]
                    if d[0] != 'const':
                        st.events.append(self._cond_event(body, block, t, d, v, vals, depth, resolved=True))
                    block = tgt
                    continue
                last = len(feasible) - 1
                for i, (v, tgt) in enumerate(feasible):
                    s2 = st if i == last else st.clone()
                    if v == 'otherwise':
                        prev = s2.facts.get(d)
                        ex = set(vals) | (prev[1] if prev and prev[0] == 'not' else set())
                        if len(vals) == 1 and self._is_bool(d, t):
                            s2.facts[d] = ('is', '1' if vals[0] == '0' else '0')
                        else:
                            s2.facts[d] = ('not', frozenset(ex))
                    else:
                        s2.facts[d] = ('is', v)
                    s2.events.append(self._cond_event(body, block, t, d, v, vals, depth))
                    self._derive(s2, d)
                    for r in self._exec(body, fid, tgt, s2, depth):
                        yield r
                return
            if k == 'call':
                args = [self.operand(body, fid, st, a) for a in t['args']]
                decl, res = strip_generics(t['decl']), strip_generics(t['res'])
                t = dict(t)
                t['_block'] = block
                t['_depth'] = depth
                modeled = None
                if not decl and not res and t.get('func', {}).get('k') in ('copy', 'move'):
                    # call through a function pointer whose value is known on this path (`make_timer(token)` with
                    # make_timer = Timer::PeriodicGossip handed down by the caller)
                    fv = self.operand(body, fid, st, t['func'])
                    if fv[0] == 'fn':
                        decl, res = fv[1], fv[2] or fv[1]
                        t['decl'], t['res'] = decl, res
                        modeled = self._ctor_call(res, args)
                if modeled is None:
                    modeled = self.model_call(body, fid, st, t, args, decl, res)
                dest = self.canon(body, fid, st, t['dest'])
                if modeled is not None:
                    self.write(st, dest, modeled)
                    if t['target'] < 0:
                        yield st, 'diverge', None
                        return
                    block = t['target']
                    continue
                callee = self.facts.by_name.get(res, [None])[0] if res else None
                if callee is None and decl in ('core::ops::Fn::call', 'core::ops::FnMut::call_mut',
                                               'core::ops::FnOnce::call_once') and args:
                    # call of a closure value known on this path
                    c = self.deep_deref(body, fid, st, args[0])
                    while c[0] == 'havoc' and len(c) > 3 and isinstance(c[3], tuple):
                        c = c[3]        # an FnMut lent mutably inside a loop: its state is unknown, its code is not
                    if c[0] == 'agg' and c[1] == 'closure':
                        cb = self.facts.by_name.get(c[2], [None])[0]
                        if cb is not None:
                            callee = cb
                            tup = args[1] if len(args) > 1 else ('agg', 'tuple', '', '', (), ())
                            ca = [args[0]] + (list(tup[5]) if tup[0] == 'agg' else [tup])
                            args_for_callee = ca
                        else:
                            args_for_callee = None
                    else:
                        args_for_callee = None
                else:
                    args_for_callee = args
                if (callee is not None and args_for_callee is not None and depth < self.max_depth
                        and len(args_for_callee) == callee.argc
                        and self.inline(body, callee, depth)):
                    nf = self._new_frame()
                    for i, v in enumerate(args_for_callee):
                        st.store[('local', nf, i + 1)] = v
                    st.events.append({'kind': 'enter', 'callee': callee.nname, 'block': block, 'span': t['span'],
                                      'body': body.nname, 'depth': depth, 'args': args_for_callee})
                    tgt = t['target']
                    for s2, end, ret in self._exec(callee, nf, 0, st, depth + 1):
                        if end != 'return':
                            yield s2, end, None
                            continue
                        s2.events.append({'kind': 'leave', 'callee': callee.nname, 'value': ret, 'depth': depth})
                        self.write(s2, dest, ret)
                        if tgt < 0:
                            yield s2, 'diverge', None
                            continue
                        for r in self._exec(body, fid, tgt, s2, depth):
                            yield r
                    return
                # opaque call
                if res.startswith(('<&mut T as bytes::BufMut>::', '<&mut T as bytes::Buf>::', '<&T as bytes::Buf>::')) \
                        and args and args[0][0] == 'ref':
                    # forwarding impl on a reference to a buffer (`impl BufMut for &mut T`): the receiver `&r` with
                    # r: &mut B designates the buffer r points to
                    inner = self.read_place(body, fid, st, args[0][1])
                    if inner[0] == 'ref':
                        args = [('ref', inner[1], args[0][2])] + list(args[1:])
                st.ncalls += 1
                cid = st.ncalls
                derefs = [self.read_place(body, fid, st, a[1]) if a[0] == 'ref' else None for a in args]
                argvals = [self.resolve_refs(body, fid, st, a) for a in args]
                ev = {'kind': 'call', 'id': cid, 'decl': decl, 'res': res, 'selfty': t['selfty'], 'args': args,
                      'derefs': derefs, 'argvals': argvals,
                      'argtys': [a.get('place', {}).get('ty', a.get('ty', '')) for a in t['args']],
                      'block': block, 'span': t['span'], 'body': body.nname, 'depth': depth, 'fid': fid,
                      'diverges': t['target'] < 0, 'gargs': t['gargs']}
                st.events.append(ev)
                targets = []
                for a, o in zip(args, t['args']):
                    ty = o.get('place', {}).get('ty', '') if o['k'] != 'const' else o.get('ty', '')
                    self.mut_targets(a, ty, targets)
                fields = None
                if self.modset is not None and callee is not None:
                    fields = self.modset(callee.nname)
                for i, P in enumerate(targets):
                    # the modset describes writes through the callee's first &mut self-like argument
                    self.havoc(st, P, cid, fields if (i == 0 and fields is not None) else None)
                if res == '<core::result::Result as core::ops::FromResidual>::from_residual':
                    # whatever the error conversion yields, the result of from_residual is an Err (so that a `?` on
                    # it in an enclosing, inlined-into caller does not fork a path on which it is Ok)
                    self.write(st, dest, ('agg', 'adt', 'core::result::Result', 'Err', ('0',), (('call', cid),)))
                else:
                    self.write(st, dest, ('call', cid))
                if t['target'] < 0:
                    yield st, 'diverge', None
                    return
                block = t['target']
                continue
            yield st, 'unreachable', None
            return

    def _widen(self, st, fid, header, visit, assigned):
        """Loop head: values carried around the loop are unknown (sound for any number of iterations)."""
        only_borrowed = set()
        for b_ in (self._cur_body,) if getattr(self, '_cur_body', None) is not None else ():
            lb = getattr(b_, '_loop_borrowed', {})
            only_borrowed = lb.get(header, set()) - lb.get(('assigned', header), set())
        for L in assigned:
            P = ('local', fid, L)
            if P in st.store:
                v = st.store[P]
                if v[0] in ('ref',):
                    continue    # references to fixed places stay what they are
                if L in only_borrowed:
                    # never assigned inside the loop, only lent mutably (an iterator advanced by next()): unknown state,
                    # but still the object it was before the loop
                    prev = v[3] if (v[0] == 'havoc' and len(v) > 3) else v
                    st.store[P] = ('havoc', P, ('loop', header, visit), prev)
                    continue
                b_ = getattr(self, '_cur_body', None)
                if visit >= 2 and b_ is not None and not isinstance(fid, tuple) and str(b_.locals[L]) == 'bool' \
                        and v[0] in ('binop', 'unop', 'call', 'const'):
                    # a flag variable: unknown in general, but on this path it is what the previous iteration left
                    # (`done = backlog() == 0; while !done { .. }` is the flag form of `if backlog() == 0 { break }`)
                    st.store[P] = ('loopvar', fid, L, header, visit, v)
                else:
                    st.store[P] = ('loopvar', fid, L, header, visit)
            for Q in [Q for Q in st.store if Q != P and is_prefix(P, Q)]:
                del st.store[Q]
        # memory reached through references may have been written by earlier iterations
        st.ncalls += 1
        cid = st.ncalls
        for Q in [Q for Q in st.store if place_root(Q)[0] != 'local']:
            del st.store[Q]
            st.havocs.append((Q, cid, None))
        st.facts = {k: v for k, v in st.facts.items() if not _mentions_loopy(k)}

    # -- cross-fact reasoning between `x == Enum::Variant` tests and discriminant switches on x ------------
    def _variant_test(self, d):
        """(subject value, adt, variant, is_eq) if d is `subject ==/!= fieldless-variant-constant`."""
        if d[0] == 'binop' and d[1] in ('Eq', 'Ne'):
            for x, y in ((d[2], d[3]), (d[3], d[2])):
                if y[0] == 'variant' and x[0] != 'variant':
                    return x, y[1], y[2], d[1] == 'Eq'
        return None

    def _variant_discr(self, adt, name):
        if adt in self.facts.adts:
            for x in self.facts.adts[adt]['variants']:
                if x['name'] == name:
                    return str(x['discr'])
        return None

    def _derive(self, st, d):
        vt = self._variant_test(d)
        if vt is None or d not in st.facts or st.facts[d][0] != 'is':
            return
        subj, adt, name, is_eq = vt
        dv = self._variant_discr(adt, name)
        if dv is None:
            return
        truth = st.facts[d][1] == '1'
        key = ('discr', subj, adt)
        if truth == is_eq:
            st.facts[key] = ('is', dv)
        else:
            prev = st.facts.get(key)
            if prev is None or prev[0] == 'not':
                st.facts[key] = ('not', frozenset((prev[1] if prev else frozenset()) | {dv}))

    def _implied(self, st, d):
        """Value of a boolean `x == Variant` test implied by what is already known about discr(x) - or of a boolean that
        is a known one under an odd/even number of negations (`let bad = !ok(); if bad {..}; ensure(!bad)`)."""
        base, neg = d, False
        while base[0] == 'unop' and base[1] == 'Not':
            base, neg = base[2], not neg
        if base is not d:
            for cand, cneg in ((base, neg), (('unop', 'Not', base), not neg)):
                f0 = st.facts.get(cand)
                if f0 is not None and f0[0] == 'is' and f0[1] in ('0', '1'):
                    return f0[1] if not cneg else ('1' if f0[1] == '0' else '0')
        elif ('unop', 'Not', d) in st.facts:
            f0 = st.facts[('unop', 'Not', d)]
            if f0[0] == 'is' and f0[1] in ('0', '1'):
                return '1' if f0[1] == '0' else '0'
        vt = self._variant_test(d)
        if vt is None:
            return None
        subj, adt, name, is_eq = vt
        dv = self._variant_discr(adt, name)
        f = st.facts.get(('discr', subj, adt))
        if dv is None or f is None:
            return None
        if f[0] == 'is':
            same = (f[1] == dv)
            return '1' if same == is_eq else '0'
        if f[0] == 'not' and dv in f[1]:
            return '0' if is_eq else '1'
        return None

    def _is_user_place(self, body, P):
        return False

    def _is_bool(self, d, t):
        return t.get('dty') == 'bool'

    def _otherwise_feasible(self, d, excl):
        if d[0] == 'discr' and d[2] in self.facts.adts:
            alld = {str(v['discr']) for v in self.facts.adts[d[2]]['variants']}
            return bool(alld - set(excl))
        if d[0] == 'discr' and (d[2].startswith('core::option::Option') or d[2].startswith('core::result::Result')
                                or d[2].startswith('core::ops::ControlFlow')):
            return bool({'0', '1'} - set(excl))
        if d[0] == 'discr' and d[2].startswith('core::cmp::Ordering'):
            return bool({'255', '0', '1'} - set(excl))
        return True

    def _cond_event(self, body, block, t, d, v, vals, depth, resolved=False):
        if t.get('dty') == 'bool' and v == 'otherwise' and vals == ['0']:
            v = '1'
        return {'kind': 'cond', 'expr': d, 'taken': v, 'values': vals, 'block': block, 'span': t['span'],
                'body': body.nname, 'depth': depth, 'dty': t.get('dty', ''), 'resolved': resolved}


def _top_level_args(s):
    out, depth, cur = [], 0, ''
    for ch in s:
        if ch in '<([':
            depth += 1
        elif ch in '>)]':
            depth -= 1
        if ch == ',' and depth == 0:
            out.append(cur.strip())
            cur = ''
        else:
            cur += ch
    if cur.strip():
        out.append(cur.strip())
    return out


def _inner(s):
    i, j = s.find('<'), s.rfind('>')
    return s[i + 1:j] if 0 <= i < j else ''


def _mentions_loopy(v, depth=0):
    return False


# ------------------------------------------------------------------ folding

def fold_binop(op, a, b):
    if a[0] == 'const' and b[0] == 'const' and a[2] is not None and b[2] is not None:
        x, y = a[2], b[2]
        r = {'Eq': x == y, 'Ne': x != y, 'Lt': x < y, 'Le': x <= y, 'Gt': x > y, 'Ge': x >= y}.get(op)
        if r is not None:
            return ('const', 'bool', int(r), 'true' if r else 'false')
        if op == 'Add' and a[1] == b[1] and a[1] in ('usize', 'u16', 'u8', 'u32', 'u64'):
            return ('const', a[1], x + y, str(x + y))
    if a[0] == 'variant' and b[0] == 'variant' and a[1] == b[1] and op in ('Eq', 'Ne'):
        r = (a[2] == b[2]) == (op == 'Eq')
        return ('const', 'bool', int(r), 'true' if r else 'false')
    return ('binop', op, a, b)


# ---------------------------------------------------------------- printing

def show(v, body=None, depth=0):
    """Readable rendering of a value/place expression (evidence, diagnostics, matching by text is NOT done)."""
    if depth > 12:
        return '…'
    k = v[0]
    s = lambda x: show(x, body, depth + 1)
    if k == 'const':
        return v[3] if v[2] is None else (v[3] if v[1] in ('bool',) else str(v[2]))
    if k == 'variant':
        return '%s::%s' % (v[1].split('::')[-1], v[2])
    if k == 'agg':
        if v[1] == 'closure':
            return 'closure<%s>[%s]' % (v[2], ', '.join(s(x) for x in v[5]))
        nm = v[2].split('::')[-1] + ('::' + v[3] if v[3] and v[3] != v[2].split('::')[-1] else '')
        if v[1] == 'tuple':
            nm = ''
        return '%s(%s)' % (nm, ', '.join('%s: %s' % (f, s(x)) if not f.isdigit() else s(x) for f, x in zip(v[4], v[5])))
    if k == 'param':
        if body is not None and v[1] == 0 and v[2] in body.local_names:
            return body.local_names[v[2]]
        return 'arg%d' % v[2]
    if k == 'load':
        return s(v[1]) + ('@%d' % v[2] if v[2] else '')
    if k == 'ref':
        return ('&mut ' if v[2] else '&') + s(v[1])
    if k == 'binop':
        return '%s(%s, %s)' % (v[1], s(v[2]), s(v[3]))
    if k == 'unop':
        return '%s(%s)' % (v[1], s(v[2]))
    if k == 'cast':
        return '(%s as %s)' % (s(v[2]), v[3])
    if k == 'discr':
        return 'discr(%s)' % s(v[1])
    if k == 'optref':
        return '%s.as_%s()' % (s(v[1]), 'mut' if v[2] else 'ref')
    if k == 'call':
        return 'call#%d' % v[1]
    if k == 'fieldv':
        return '%s.%s%s' % (s(v[1]), (v[3] + '.') if v[3] else '', v[2])
    if k == 'local':
        if body is not None and v[1] == 0 and v[2] in body.local_names:
            return body.local_names[v[2]]
        return '_%s_%d' % (v[1], v[2])
    if k == 'deref':
        inner = s(v[1])
        return inner if v[1][0] in ('param',) else '*' + inner
    if k == 'field':
        base = s(v[1])
        if body is not None and body.kind == 'Closure' and v[1] == ('deref', ('param', 0, 1)) and v[2].isdigit():
            nm = body.upvar_names.get(int(v[2]))
            if nm:
                return 'upvar:' + nm[0]
        return '%s.%s%s' % (base, (v[3] + '.') if v[3] else '', v[2])
    if k == 'index':
        return '%s[%s]' % (s(v[1]), s(v[2]))
    if k == 'value':
        return s(v[1])
    if k == 'fn':
        return 'fn ' + (v[2] or v[1])
    if k == 'havoc':
        return 'havoc#%s(%s)' % (v[2] if isinstance(v[2], int) else 'loop', s(v[1]))
    if k == 'upd':
        return '%s{%s: %s}' % (s(v[1]), v[2], s(v[4]))
    if k == 'loopvar':
        nm = body.local_names.get(v[2]) if (body is not None and v[1] == 0) else None
        return '%s~%d' % (nm or ('_%d' % v[2]), v[4])
    if k in ('uninit', 'unknown'):
        return '?' + ':'.join(str(x) for x in v[1:])
    return str(v)


def show_call(ev, path=None, body=None):
    return '%s(%s)' % (ev['res'] or ev['decl'], ', '.join(show(a, body) for a in ev['args']))

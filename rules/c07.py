"""C07 - every emitted datagram is well-formed, bounded and accepted by its peer.

Decided statically: the shape of the single writer (send_message), the agreement of the writer's and the reader's
tables and framing primitives, and the kind predicates.  Not decided: byte-level acceptance for an arbitrary
user codec (the rules decide the framing Foca itself adds around codec output).
"""
from .lib import query as q
from .lib.budget import buffer_id
from .lib.symx import show

MESSAGE = 'payload::Message'
KINDS = ['Ping', 'Ack', 'PingReq', 'IndirectPing', 'IndirectAck', 'ForwardedAck', 'Announce', 'Feed', 'Gossip',
         'Broadcast', 'TurnUndead']


def kind_table(ctx, f, rep, fn, rule):
    """{variant: bool} for a `Message -> bool` predicate, extracted from MIR."""
    b = f.fn(fn)
    if not ctx.cfg(b).is_loop_free():
        rep.violation(rule, fn, 'loop', 'predicate is no longer loop-free')
        return None
    out = {}
    for p in ctx.paths(f, b, 'small'):
        vs = set(f.variant_names(MESSAGE))
        for c in p.conds():
            cv = q.cond_variants(f, c)
            if cv is None or q.scrutinee(c) != ('load', q.SELF, 0):
                rep.violation(rule, fn, 'foreign-condition', 'predicate branches on something other than the message kind')
                return None
            vs &= cv
        if not (p.end == 'return' and p.ret[0] == 'const' and p.ret[1] == 'bool'):
            rep.violation(rule, fn, 'result-shape', 'predicate result is not a constant per kind')
            return None
        for v in vs:
            out[v] = bool(p.ret[2])
    if set(out) != set(f.variant_names(MESSAGE)):
        rep.violation(rule, fn, 'coverage', 'predicate does not cover every Message variant')
        return None
    return out


def _message_param(b):
    ks = [k for k in range(1, b.argc + 1) if str(b.locals[k]).startswith('payload::Message<')]
    return ('param', 0, ks[0]) if len(ks) == 1 else None


def inlined_feed_table(ctx, f):
    b = f.fn('Foca::send_message')
    msg = _message_param(b)
    if msg is None:
        return None
    allk = set(f.variant_names(MESSAGE))
    feed, other = set(), set()

    def kinds(p, upto):
        ks = set(allk)
        for c in q.conds_before(p, upto):
            vs = q.variant_test(f, c, lambda v: v == msg or (v[0] in ('load', 'fieldv') and q.mentions(v, lambda y: y == msg)))
            if vs is not None and vs <= allk:
                ks &= vs
        return ks
    for p in ctx.paths(f, b, 'none'):
        for i, e in enumerate(p.events):
            if e['kind'] != 'call':
                continue
            if e['res'] == 'member::Members::choose_active_members':
                feed |= kinds(p, i)
            elif e['res'] == 'broadcast::Broadcasts::fill':
                other |= kinds(p, i)
    if not feed or not other or (feed & other):
        return None
    return {k: (k in feed) for k in allk}


def tables(ctx, f, rep):
    exp = {
        'payload::Message::needs_piggyback': {'Announce', 'TurnUndead', 'Broadcast'},
        'payload::Message::allow_custom_broadcasts': {'Announce', 'TurnUndead'},
    }
    res = {}
    allk = set(f.variant_names(MESSAGE))
    rep.check(allk == set(KINDS), 'C07-R3', MESSAGE, 'Message has the 11 known variants', construct='variants',
              facts={'variants': sorted(allk)})
    for fn, false_set in exp.items():
        t = kind_table(ctx, f, rep, fn, 'C07-R3')
        res[fn] = t
        if t is None:
            continue
        got_false = {k for k, v in t.items() if not v}
        rep.check(got_false == false_set, 'C07-R3', fn, 'false exactly for %s' % sorted(false_set),
                  site=f.fn(fn).raw['span'], construct='table', facts={'false_for': sorted(got_false)})
    if 'payload::Message::piggyback_only_active' in f.by_name:
        t = kind_table(ctx, f, rep, 'payload::Message::piggyback_only_active', 'C07-R3')
    else:
        # the predicate was inlined at its only use (`matches!(header.message, Message::Feed)` in send_message): the table is
        # read off that use - the kinds for which the member section is filled from choose_active_members
        t = inlined_feed_table(ctx, f)
    res['payload::Message::piggyback_only_active'] = t
    if t is not None:
        got_true = {k for k, v in t.items() if v}
        rep.check(got_true == {'Feed'}, 'C07-R3', 'payload::Message::piggyback_only_active', 'true exactly for Feed',
                  construct='table', facts={'true_for': sorted(got_true)})
    return res


def pred_conds(p, i, b):
    """{'needs_piggyback': bool, ...} established by conds before event i on the kind predicates and handler gate,
    applied to the header's message / dst."""
    calls = {c['id']: c for c in p.calls()}
    out = {}
    for c in q.conds_before(p, i):
        ex = c['expr']
        if ex[0] == 'call' and ex[1] in calls:
            nm = calls[ex[1]]['res'] or calls[ex[1]]['decl']
            short = nm.split('::')[-1]
            if short in ('needs_piggyback', 'allow_custom_broadcasts', 'piggyback_only_active',
                         'should_add_broadcast_data', 'has_remaining_mut'):
                out[short] = q.cond_truth(c)
                out[short + '#arg'] = calls[ex[1]]['args'][-1]
    if 'piggyback_only_active' not in out and 'payload::Message::piggyback_only_active' not in b.facts.by_name:
        msg = _message_param(b)
        for c in q.conds_before(p, i):
            vs = q.variant_test(b.facts, c, lambda v: msg is not None and (v == msg or (v[0] in ('load', 'fieldv') and
                                                                              q.mentions(v, lambda y: y == msg))))
            if vs is not None and (vs == {'Feed'} or 'Feed' not in vs):
                out['piggyback_only_active'] = (vs == {'Feed'})
    return out


def _buf_object(e, k):
    """The buffer object the k-th argument of a call designates: the value the borrowed variable held before any call
    mutated it (for the datagram: the result of `limit(..)`, whichever local it has been moved to since)."""
    d = (e.get('derefs') or [None] * (k + 1))[k]
    return q.pre_havoc(d) if d is not None else None


def packet_buf(p):
    """Identity of the datagram under construction on this path: the buffer the header is encoded into, as
    (place, object)."""
    pb = getattr(p, '_packet_buf', 0)
    if pb == 0:
        enc = [c for c in p.calls() if c['decl'] == 'codec::Codec::encode_header']
        pb = p._packet_buf = (buffer_id(enc[0]['args'][2]), _buf_object(enc[0], 2)) if enc else (None, None)
    return pb


def touches_packet(p, e, mutably=True):
    """Does the call receive (a mutable reference to) the datagram buffer?"""
    place, obj = packet_buf(p)
    for k, a in enumerate(e['args']):
        if a[0] != 'ref' or (mutably and not a[2]):
            continue
        if place is not None and buffer_id(a) == place:
            return True
        o = _buf_object(e, k)
        if obj is not None and o == obj and obj[0] == 'call':
            return True
    return False


def r1_r2_sender(ctx, f, rep):
    rep.rule('C07-R1', 'Runtime::send_to is called from exactly one crate function (send_message) besides the &mut R '
                       'forwarding impl; the header is built from self.identity, self.incarnation, the dst parameter '
                       'and the message parameter; send_to gets that same dst and the buffer the header was encoded into')
    rep.rule('C07-R2', 'the buffer is the taken send_buf wrapped by BufMut::limit(config.max_packet_size); every write '
                       'goes through the Limit, except Limit::get_mut used only for Vec::truncate and an in-place '
                       'overwrite of an existing slice')
    callers = sorted({c[0].nname for c in f.callers_of(lambda n: n == 'runtime::Runtime::send_to')})
    rep.check(callers == ['<&mut R as runtime::Runtime>::send_to', 'Foca::send_message'], 'C07-R1', 'runtime::Runtime::send_to',
              'single sender: send_message (plus the &mut R forwarder)', construct='senders', facts={'callers': callers})
    b = f.fn('Foca::send_message')
    paths = ctx.paths(f, b, 'none')
    dst, msg = ('param', 0, 2), ('param', 0, 3)
    n = 0
    for p in paths:
        calls = {c['id']: c for c in p.calls()}
        for i, e in enumerate(p.events):
            if e['kind'] != 'call' or e['decl'] != 'runtime::Runtime::send_to':
                continue
            n += 1
            enc = [c for c in p.events[:i] if c['kind'] == 'call' and c['decl'] == 'codec::Codec::encode_header']
            lim = [c for c in p.events[:i] if c['kind'] == 'call' and c['res'] == 'bytes::BufMut::limit']
            inner = [c for c in p.events[:i] if c['kind'] == 'call' and c['res'] == 'bytes::buf::Limit::into_inner']
            good = len(enc) == 1 and len(lim) == 1 and len(inner) == 1
            facts = {}
            if good:
                hv = enc[0]['derefs'][1]
                facts['header'] = show(hv, b) if hv else None
                good = hv is not None and hv[0] == 'agg' and hv[2] == 'payload::Header'
                if good:
                    src, inc, hd, hm = (q.agg_field(hv, k) for k in ('src', 'src_incarnation', 'dst', 'message'))
                    good = (q.is_self_field_load(src, 'identity') and q.is_self_field_load(inc, 'incarnation')
                            and hd == dst and hm == msg)
                # send_to(dst, bytes of the encoded buffer)
                good = good and e['args'][1] == dst
                bufid = buffer_id(enc[0]['args'][2])
                good = good and buffer_id(('ref', ('local', 0, 0), True)) is not None
                # limit(taken send_buf, max_packet_size)
                good = good and q.loads_self_field(lim[0]['args'][1], 'config', 'max_packet_size') and \
                    lim[0]['args'][1][0] == 'unop'
                took = q.pre_havoc(lim[0]['args'][0])      # (cleared before or after being taken)
                good = good and took[0] == 'load' and took[1] == q.self_field('send_buf')
                # into_inner(buf) feeds send_to
                data = e['args'][2]
                ok_data = False
                if data[0] == 'ref' and data[1][0] == 'deref' and data[1][1][0] == 'call':
                    dc = calls[data[1][1][1]]
                    if dc['res'] == '<alloc::vec::Vec as core::ops::Deref>::deref':
                        ok_data = True
                good = good and ok_data
            rep.check(good, 'C07-R1', b.nname, 'header {src: self.identity, src_incarnation: self.incarnation, dst, message} '
                      'is encoded into the limited send_buf and that buffer is handed to send_to(dst, ..)',
                      site=e['span'], construct='send_to', facts=facts)
            # R2: uses of get_mut
            gm = {c['id'] for c in p.events[:i] if c['kind'] == 'call' and c['res'] == 'bytes::buf::Limit::get_mut'}
            bad_use = []
            for c in p.events[:i]:
                if c['kind'] != 'call':
                    continue
                for a in c['args']:
                    if a[0] == 'ref' and a[1][0] == 'deref' and a[1][1][0] == 'call' and a[1][1][1] in gm:
                        if c['res'] not in ('alloc::vec::Vec::truncate', '<alloc::vec::Vec as core::ops::IndexMut>::index_mut'):
                            bad_use.append(c['res'] or c['decl'])
            # every other mutation of the buffer goes through &mut Limit
            inner_vec_mut = [c['res'] for c in p.events[:i] if c['kind'] == 'call' and
                             c['res'] in ('alloc::vec::Vec::push', 'alloc::vec::Vec::extend_from_slice',
                                          'alloc::vec::Vec::resize', 'alloc::vec::Vec::insert',
                                          'alloc::vec::Vec::append', 'alloc::vec::Vec::reserve')]
            rep.check(not bad_use and not inner_vec_mut, 'C07-R2', b.nname,
                      'inner Vec reached through Limit::get_mut is only truncated or overwritten in place',
                      site=e['span'], construct='get_mut-uses', facts={'other_uses': bad_use + inner_vec_mut})
    rep.floor('C07-R1', n, 8, 'send_to occurrences on send_message paths')


def header_value(p, place):
    """Value stored in local `place` by its aggregate assignment (the path keeps no store; re-scan the events)."""
    # the header local is written by a plain statement (no event); recover it from the encode_header argument's
    # referent by replaying: the executor keeps aggregates in the store only, so expose via path attribute.
    return getattr(p, 'locals_at_end', {}).get(place)


def count_always_present(ctx, f, rep, rule):
    """For a kind that piggybacks (the reader then takes the first two bytes after the header for the member count),
    the count is written on every path that reaches send_to - unless fewer than three bytes were left, in which case
    nothing can follow either.  No other reason (an empty backlog, say) may skip it: a custom item would be read as
    the count."""
    b = f.fn('Foca::send_message')
    n = 0
    for p in ctx.paths(f, b, 'none'):
        calls = {c['id']: c for c in p.calls()}
        snd = [i for i, e in enumerate(p.events) if e['kind'] == 'call' and e['decl'] == 'runtime::Runtime::send_to']
        if not snd:
            continue
        g = pred_conds(p, snd[0], b)
        if g.get('needs_piggyback') is not True:
            continue
        n += 1
        count = [e for e in p.events[:snd[0]] if e['kind'] == 'call' and e['decl'] == 'bytes::BufMut::put_u16'
                 and touches_packet(p, e)]
        is_rem = lambda v: v[0] == 'call' and v[1] in calls and calls[v[1]]['decl'].endswith('remaining_mut')
        no_room = any((q.at_most(c, is_rem) or (None, 99))[1] <= 2 for c in q.conds_before(p, snd[0]))
        rep.check(bool(count) or no_room, rule, b.nname, 'a piggybacking kind always carries its member count (unless fewer than '
                  'three bytes are left): nothing else may decide to omit it', site=p.events[snd[0]]['span'],
                  construct='count-always-present')
    rep.floor(rule, n, 4, 'send_message paths of piggybacking kinds')


def r3_sections(ctx, f, rep, tabs):
    rep.rule('C07-R3', 'kind predicates equal the statement\'s sets (no member section for Announce|TurnUndead|Broadcast, '
                       'no custom items for Announce|TurnUndead, active-members section only for Feed); in send_message '
                       'the member section is guarded by needs_piggyback, the custom section by allow_custom_broadcasts '
                       'and should_add_broadcast_data(&dst), nothing else writes to the buffer, and the buffer is cleared right before use')
    b = f.fn('Foca::send_message')
    paths = ctx.paths(f, b, 'none')
    # the datagram starts empty: send_buf is cleared before it is taken, on every path (it comes back dirty from a send
    # whose header did not encode - clearing it only after a successful send prefixes the next datagram with that junk)
    ntk = 0
    for p in paths:
        for i, e in enumerate(p.events):
            if e['kind'] == 'write' and e['place'] == q.self_field('send_buf') and e.get('via') == 'mem::take':
                ntk += 1
                cl = [k for k, x in enumerate(p.events[:i]) if x['kind'] == 'call' and x['res'] == 'alloc::vec::Vec::clear'
                      and x['args'][0] == ('ref', q.self_field('send_buf'), True)]
                dirty = [k for k, x in enumerate(p.events[:i]) if (x['kind'] == 'write' and x['place'] == q.self_field('send_buf')) or
                         (x['kind'] == 'call' and x['res'] != 'alloc::vec::Vec::clear' and
                          any(a in (('ref', q.self_field('send_buf'), True), ('ref', q.SELF, True)) for a in x['args']))]
                good = bool(cl) and not (dirty and dirty[-1] > cl[-1])
                if not good:
                    # ... or right after: the first thing done with the taken Vec is `clear()`
                    users = [x for x in p.events[i + 1:] if x['kind'] == 'call' and
                             any(d == e.get('old') for d in (x.get('derefs') or []) if d is not None) or
                             (x['kind'] == 'call' and e.get('old') in x['args'])]
                    good = bool(users) and users[0]['res'] == 'alloc::vec::Vec::clear'
                rep.check(good, 'C07-R3', b.nname, 'the datagram buffer is cleared right before (or right after) it is taken',
                          site=e['span'], construct='buffer-starts-empty')
                break
    rep.floor('C07-R3', ntk, 4, 'send_message paths taking the send buffer')
    msg_place_ok = lambda a: True
    n = {'count': 0, 'fill': 0, 'feed': 0, 'custom': 0}
    writers = set()
    for p in paths:
        for i, e in enumerate(p.events):
            if e['kind'] != 'call':
                continue
            nm = e['res'] or e['decl']
            touches_buf = touches_packet(p, e)
            if touches_buf and nm not in ('bytes::buf::Limit::get_mut',):
                writers.add(nm)
            g = pred_conds(p, i, b)
            if nm == 'bytes::BufMut::put_u16' and touches_buf:
                n['count'] += 1
                rep.check(g.get('needs_piggyback') is True, 'C07-R3', b.nname, 'count placeholder only for kinds that piggyback',
                          site=e['span'], construct='count-guard', facts=_g(g))
            elif nm == 'broadcast::Broadcasts::fill':
                n['fill'] += 1
                rep.check(g.get('needs_piggyback') is True and g.get('piggyback_only_active') is False and
                          e['args'][0] == ('ref', q.self_field('updates'), True), 'C07-R3', b.nname,
                          'cluster updates are piggybacked only when needs_piggyback and not piggyback_only_active',
                          site=e['span'], construct='fill-guard', facts=_g(g))
            elif nm == 'codec::Codec::encode_member':
                n['feed'] += 1
                rep.check(g.get('needs_piggyback') is True and g.get('piggyback_only_active') is True, 'C07-R3', b.nname,
                          'members are encoded one by one only in the Feed branch', site=e['span'],
                          construct='feed-guard', facts=_g(g))
            elif nm == 'broadcast::Broadcasts::fill_with_len_prefix':
                n['custom'] += 1
                rep.check(g.get('allow_custom_broadcasts') is True and g.get('should_add_broadcast_data') is True and
                          g.get('should_add_broadcast_data#arg') == ('ref', ('local', 0, 2), False) and
                          e['args'][0] == ('ref', q.self_field('custom_broadcasts'), True), 'C07-R3', b.nname,
                          'custom broadcasts only when allow_custom_broadcasts() and should_add_broadcast_data(&dst)',
                          site=e['span'], construct='custom-guard', facts=_g(g))
    count_always_present(ctx, f, rep, 'C07-R3')
    allowed = {'codec::Codec::encode_header', 'bytes::BufMut::put_u16', 'codec::Codec::encode_member',
               'broadcast::Broadcasts::fill', 'broadcast::Broadcasts::fill_with_len_prefix',
               'bytes::buf::Limit::into_inner'}
    rep.check(writers <= allowed, 'C07-R3', b.nname, 'only header, count, members/updates and custom items are written',
              construct='buffer-writers', facts={'writers': sorted(writers)})
    for k, v in n.items():
        rep.floor('C07-R3', v, 1, 'send_message section ' + k)
    # predicates are applied to the header's message (= the message parameter)
    # (the header aggregate is checked in R1; here: the three predicate calls take &header.message)
    for p in paths[:1]:
        pass


def _g(g):
    return {k: v for k, v in g.items() if not k.endswith('#arg')}


def r4_count(ctx, f, rep):
    rep.rule('C07-R4', 'the 16-bit count is written back at the position recorded right before the placeholder and its '
                       'value is num_items; in the Feed branch num_items += 1 happens exactly when encode_member '
                       'succeeded, and on error the buffer is truncated to the position saved before the call and the '
                       'loop is left; otherwise it is the value returned by Broadcasts::fill; the number of members '
                       'selected is capped at u16::MAX')
    b = f.fn('Foca::send_message')
    paths = ctx.paths(f, b, 'none')
    n_inc = n_err = n_patch = 0
    for p in paths:
        evs = p.events
        calls = {c['id']: c for c in p.calls()}
        for i, e in enumerate(evs):
            if e['kind'] == 'assert' and e['akind'] == 'Overflow(Add)':
                n_inc += 1
                # the last encode_member before it succeeded
                j = max([k for k in range(i) if evs[k]['kind'] == 'call' and evs[k]['decl'] == 'codec::Codec::encode_member'],
                        default=None)
                good = j is not None
                if good:
                    cid = evs[j]['id']
                    cs = [c for c in evs[j:i] if c['kind'] == 'cond' and c['expr'][0] == 'discr' and c['expr'][1] == ('call', cid)]
                    good = len(cs) == 1 and q.cond_variants(f, cs[0]) == {'Ok'}
                    good = good and not any(x['kind'] == 'call' and x['res'] == 'alloc::vec::Vec::pop' for x in evs[j:i])
                rep.check(good, 'C07-R4', b.nname, 'num_items is incremented only after encode_member returned Ok for '
                          'that member', site=e['span'], construct='increment')
            if e['kind'] == 'cond' and e['expr'][0] == 'discr' and e['expr'][1][0] == 'call' and \
                    calls.get(e['expr'][1][1], {}).get('decl') == 'codec::Codec::encode_member' and \
                    q.cond_variants(f, e) == {'Err'}:
                n_err += 1
                rest = evs[i + 1:]
                tr = [x for x in rest if x['kind'] == 'call' and x['res'] == 'alloc::vec::Vec::truncate']
                more = [x for x in rest if x['kind'] == 'call' and x['decl'] == 'codec::Codec::encode_member']
                inc = [x for x in rest if x['kind'] == 'assert' and x['akind'] == 'Overflow(Add)']
                good = len(tr) >= 1 and not more and not inc
                if good:
                    pos = tr[0]['args'][1]
                    enc_idx = [k for k, x in enumerate(evs) if x['kind'] == 'call' and x.get('id') == e['expr'][1][1]][0]
                    # pos = Vec::len(get_ref(buf)) taken between the pop and the encode call
                    good = pos[0] == 'call' and calls[pos[1]]['res'] == 'alloc::vec::Vec::len'
                    if good:
                        pidx = [k for k, x in enumerate(evs) if x['kind'] == 'call' and x.get('id') == pos[1]][0]
                        pops = [k for k in range(enc_idx) if evs[k]['kind'] == 'call' and evs[k]['res'] == 'alloc::vec::Vec::pop']
                        good = bool(pops) and pops[-1] < pidx < enc_idx
                rep.check(good, 'C07-R4', b.nname, 'on an encode_member error the buffer is truncated to the position '
                          'saved before that call and no further member is encoded or counted', site=e['span'],
                          construct='truncate-on-error')
            if e['kind'] == 'call' and e['decl'] == 'bytes::BufMut::put_u16' and \
                    not touches_packet(p, dict(e, args=e['args'][:1]), mutably=False):
                n_patch += 1
                v = e['args'][1]
                g = pred_conds(p, i, b)
                if g.get('piggyback_only_active') is True:
                    good = v[0] == 'loopvar' or (v[0] == 'const' and v[2] == 0) or v[0] == 'binop'
                    what = 'Feed: the patched count is the running num_items'
                else:
                    good = False
                    if v[0] == 'call' and calls[v[1]]['res'] == 'core::result::Result::expect':
                        a = calls[v[1]]['args'][0]
                        if a[0] == 'call' and calls[a[1]]['res'].endswith('TryFrom for u16>::try_from'):
                            a2 = calls[a[1]]['args'][0]
                            good = a2[0] == 'call' and calls[a2[1]]['res'] == 'broadcast::Broadcasts::fill'
                    what = 'non-Feed: the patched count is the value returned by Broadcasts::fill'
                rep.check(good, 'C07-R4', b.nname, what, site=e['span'], construct='patched-value',
                          facts={'value': q.describe(p, v, b)})
    # must-pass-through: once the placeholder is in the datagram, every path to the send overwrites it in place, and
    # nothing cuts the buffer back to a position recorded before it (the reader takes the two bytes after the header
    # for the count whenever the kind piggybacks: S198 dropped a zero count and let the custom tail follow the header)
    n_ph = 0
    for p in paths:
        evs = p.events
        calls = {c['id']: c for c in p.calls()}
        snd = [i for i, e in enumerate(evs) if e['kind'] == 'call' and e['decl'] == 'runtime::Runtime::send_to']
        ph = [i for i, e in enumerate(evs) if e['kind'] == 'call' and e['decl'] == 'bytes::BufMut::put_u16'
              and touches_packet(p, e)]
        if not snd or not ph or ph[0] > snd[0]:
            continue
        n_ph += 1
        i0, i1 = ph[0], snd[0]
        patched = [e for e in evs[i0 + 1:i1] if e['kind'] == 'call' and e['decl'] == 'bytes::BufMut::put_u16'
                   and not touches_packet(p, dict(e, args=e['args'][:1]), mutably=False)]
        rep.check(len(patched) == 1, 'C07-R4', b.nname, 'between the placeholder and the send the count is overwritten in place '
                  'exactly once on this path', site=evs[i0]['span'], construct='count-patched-on-every-path',
                  facts={'patches': len(patched)})
        idx_of = {e['id']: k for k, e in enumerate(evs) if e['kind'] == 'call'}
        for e in evs[i0 + 1:i1]:
            if e['kind'] == 'call' and e['res'] == 'alloc::vec::Vec::truncate':
                pos = e['args'][1]
                good = pos[0] == 'call' and pos[1] in calls and calls[pos[1]]['res'] == 'alloc::vec::Vec::len' \
                    and idx_of[pos[1]] > i0
                rep.check(good, 'C07-R4', b.nname, 'a truncation after the placeholder cuts back to a length taken after the '
                          'placeholder was written (the count stays in the datagram)', site=e['span'],
                          construct='truncate-keeps-count', facts={'position': q.describe(p, pos, b)})
    rep.floor('C07-R4', n_ph, 4, 'paths that write the placeholder and send')
    rep.floor('C07-R4', n_inc, 1, 'num_items increments')
    rep.floor('C07-R4', n_err, 1, 'encode_member error edges')
    rep.floor('C07-R4', n_patch, 2, 'count patch-ups')
    # cap on the number of members selected (D6)
    capped = 0
    for p in paths:
        calls = {c['id']: c for c in p.calls()}
        for e in p.calls():
            if e['res'] == 'member::Members::choose_active_members':
                w = e['args'][1]
                good = q.bounded_by(p, w, 65535, follow=lambda nm: ctx.paths(f, f.fn(nm), 'none') if nm in f.by_name else None)
                capped += 1
                if not good:
                    rep.violation('C07-R4', b.nname, 'feed-cap', 'the number of members selected for a Feed is not '
                                  'capped at u16::MAX although the count field is 16 bits wide', site=e['span'])
                    return
    rep.check(capped > 0, 'C07-R4', b.nname, 'Feed selection is capped at u16::MAX members', construct='feed-cap')


def r5_agreement(ctx, f, rep, tabs):
    rep.rule('C07-R5', 'writer and reader agree: counts and item lengths are written with put_u16 and read with '
                       'get_u16; the reader parses a member section iff remaining >= 2 and kind != Broadcast, which is '
                       'compatible with the writer on every kind (when the count is omitted nothing else can fit: '
                       'threshold <= 2 < smallest custom item); empty custom items are refused on both sides')
    # writer primitives
    sm = f.fn('Foca::send_message')
    prims = set()
    for p in ctx.paths(f, sm, 'none'):
        for i, e in enumerate(p.events):
            if e['kind'] == 'call' and e['decl'].startswith('bytes::BufMut::put_'):
                prims.add(e['decl'])
            if e['kind'] == 'cond':
                calls = {c['id']: c for c in p.calls()}
                isrem = lambda v: v[0] == 'call' and v[1] in calls and calls[v[1]]['res'].endswith('remaining_mut')
                al = q.at_least(e, isrem)
                am = q.at_most(e, isrem)
                if al is not None and not am:
                    # remaining_mut >= k on this edge: the count is written when k-1 < remaining, i.e. threshold c = k-1
                    c_ = al[1] - 1
                    nxt = [x for x in p.events[i + 1:i + 12] if x['kind'] == 'call' and x['decl'] == 'bytes::BufMut::put_u16']
                    if nxt:
                        rep.check(1 <= c_ <= 2, 'C07-R5', sm.nname, 'member-count threshold `remaining_mut > c` has '
                                  '1 <= c <= 2 (room for the count; if omitted, no 3-byte custom item fits either)',
                                  site=e['span'], construct='count-threshold', facts={'c': c_})
    rep.check(prims == {'bytes::BufMut::put_u16'}, 'C07-R5', sm.nname, 'send_message frames with put_u16 only',
              construct='writer-primitives', facts={'prims': sorted(prims)})
    fl = f.fn('broadcast::Broadcasts::fill_with_len_prefix')
    wp = {e['decl'] for p in ctx.paths(f, fl, 'none') for e in p.calls() if e['decl'].startswith('bytes::BufMut::put_')}
    rep.check(wp == {'bytes::BufMut::put_u16', 'bytes::BufMut::put_slice'}, 'C07-R5', fl.nname,
              'items are framed as put_u16(len) + put_slice(data)', construct='item-framing', facts={'prims': sorted(wp)})
    # the prefix value is the length of the data that follows
    for p in ctx.paths(f, fl, 'none'):
        calls = {c['id']: c for c in p.calls()}
        evs = p.events
        for i, e in enumerate(evs):
            if e['kind'] == 'call' and e['decl'] == 'bytes::BufMut::put_u16':
                v = q.peel(e['args'][1])
                while v[0] == 'cast':
                    v = v[2]
                nxt = [x for x in evs[i + 1:] if x['kind'] == 'call' and x['decl'].startswith('bytes::BufMut::put_')]
                good = v[0] == 'call' and calls[v[1]]['res'] in ('alloc::vec::Vec::len', 'core::slice::<impl [T]>::len') and \
                    bool(nxt) and nxt[0]['decl'] == 'bytes::BufMut::put_slice'
                if good:
                    # the Vec (or the slice borrowed from it) whose length was written is the one written next

                    def vec_of(x):
                        for _ in range(6):
                            if x[0] == 'ref' and x[1][0] == 'deref':
                                x = x[1][1]
                            elif x[0] == 'call' and x[1] in calls and calls[x[1]]['res'] == '<alloc::vec::Vec as core::ops::Deref>::deref':
                                x = calls[x[1]]['args'][0]
                            else:
                                break
                        return buffer_id(x) if x[0] == 'ref' else x
                    good = vec_of(nxt[0]['args'][1]) == vec_of(calls[v[1]]['args'][0])
                rep.check(good, 'C07-R5', fl.nname, 'the prefix is the length of exactly the slice written next',
                          site=e['span'], construct='prefix-value')
                break
    # reader primitives and predicate
    hd = f.fn('Foca::handle_data')
    rp = set()
    seen_pred = False
    for p in ctx.paths(f, hd, 'none'):
        calls = {c['id']: c for c in p.calls()}
        for i, e in enumerate(p.events):
            if e['kind'] == 'call' and e['decl'].startswith('bytes::Buf::get_'):
                rp.add(e['decl'])
                cs = q.conds_before(p, i)
                isrem = lambda v: v[0] == 'call' and v[1] in calls and calls[v[1]]['res'].endswith('remaining')
                ge2 = any((q.at_least(c, isrem) or (None, 0))[1] == 2 for c in cs)
                nb = False
                for c in cs:
                    kt = q.kind_test(f, c, 'Broadcast')      # `!=`, `!matches!(..)` and `match` alike
                    if kt is not None:
                        nb = (kt is False)
                seen_pred = True
                rep.check(ge2 and nb, 'C07-R5', hd.nname, 'member section is parsed iff remaining >= 2 and kind != Broadcast',
                          site=e['span'], construct='reader-predicate')
                break
        if seen_pred:
            break
    rep.check(rp == {'bytes::Buf::get_u16'}, 'C07-R5', hd.nname, 'the reader takes the count with get_u16',
              construct='reader-primitives', facts={'prims': sorted(rp)})
    hc = f.fn('Foca::handle_custom_broadcasts')
    rp2 = {e['decl'] for p in ctx.paths(f, hc, 'none') for e in p.calls() if e['decl'].startswith('bytes::Buf::get_')}
    rep.check(rp2 == {'bytes::Buf::get_u16'}, 'C07-R5', hc.nname, 'item lengths are read with get_u16',
              construct='reader-item-primitives', facts={'prims': sorted(rp2)})
    # compatibility on every kind, from the extracted tables
    np_ = tabs.get('payload::Message::needs_piggyback')
    ac = tabs.get('payload::Message::allow_custom_broadcasts')
    if np_ and ac:
        for k in KINDS:
            writer_members = np_[k]
            reader_members = (k != 'Broadcast')     # when remaining >= 2
            # if the writer writes no member section but the reader would parse one, nothing may follow the header
            good = writer_members or not reader_members or not ac[k]
            rep.check(good, 'C07-R5', 'tables', 'kind %s: reader and writer agree on the presence of a member section' % k,
                      construct='kind-compat:' + k, facts={'writer_members': writer_members, 'custom_allowed': ac[k]})
    # empty items refused on both sides
    ab = f.fn('Foca::add_broadcast')
    good = False
    for p in ctx.paths(f, ab, 'none'):
        cs = p.conds()
        if cs and p.ret[0] == 'agg' and p.ret[3] == 'Err':
            c0 = cs[0]
            calls = {c['id']: c for c in p.calls()}
            if c0['expr'][0] == 'call' and calls[c0['expr'][1]]['res'].endswith('is_empty') and q.cond_truth(c0) is True \
                    and len(p.calls()) == 1:
                good = True
    rep.check(good, 'C07-R5', ab.nname, 'add_broadcast refuses empty items before anything else', construct='empty-item-writer')
    good = False
    for p in ctx.paths(f, hc, 'none'):
        for c in p.conds():
            ex = c['expr']
            if ex[0] == 'binop' and ex[1] == 'Eq' and ex[3][0] == 'const' and ex[3][2] == 0 and q.cond_truth(c) is True \
                    and p.ret[0] == 'agg' and p.ret[3] == 'Err':
                good = True
    rep.check(good, 'C07-R5', hc.nname, 'the reader refuses zero-length items', construct='empty-item-reader')


def r5b_reader_constants(ctx, f, rep):
    """The reader must accept everything the writer can produce: its rejection predicates, with their constants."""
    hd = f.fn('Foca::handle_data')
    seen = set()
    n = 0
    for p in ctx.paths(f, hd, 'none'):
        if not (p.end == 'return' and p.ret[0] == 'agg' and p.ret[3] == 'Err' and q.variant_name(p.ret[5][0]) == 'MalformedPacket'):
            continue
        if any(c['res'] == 'Foca::handle_custom_broadcasts' for c in p.calls()):
            continue
        n += 1
        calls = {c['id']: c for c in p.calls()}
        isrem = lambda v: v[0] == 'call' and v[1] in calls and calls[v[1]]['res'].endswith('remaining')
        one = ann = more = None
        for c in p.conds():
            es = q.eq_sides(c['expr'])
            if es and any(isrem(x) for x in es[1:]) and any(x[0] == 'const' and x[2] == 1 for x in es[1:]):
                one = (q.cond_truth(c) == es[0])
            kt = q.kind_test(f, c, 'Announce')
            if kt is not None:
                ann = kt
            al = q.at_least(c, isrem)
            if al is not None and al[1] == 1:
                more = True
        cls = 'one-trailing-byte' if one else ('announce-with-payload' if (ann and more) else 'other')
        seen.add(cls)
        rep.check(cls != 'other', 'C07-R5', hd.nname, 'the framing check right after the header rejects exactly: one trailing '
                  'byte, or an Announce followed by anything', construct='reader-malformed:' + cls,
                  facts={'remaining==1': one, 'announce': ann, 'remaining>0': more})
    rep.check(seen == {'one-trailing-byte', 'announce-with-payload'}, 'C07-R5', hd.nname, 'both rejection classes exist and no '
              'other', construct='reader-malformed-classes', facts={'classes': sorted(seen)})
    rep.floor('C07-R5', n, 2, 'MalformedPacket returns after the header')
    # size limit: the writer may fill the packet to exactly max_packet_size, so the reader must refuse only what is larger
    nb = 0
    for p in ctx.paths(f, hd, 'none'):
        calls = {c['id']: c for c in p.calls()}
        cs = p.conds()
        if not cs:
            continue
        nrm = q.cmp_norm(cs[0])
        if nrm is None:
            continue
        rel, a, b_ = nrm
        isrem = lambda v: v[0] == 'call' and v[1] in calls and calls[v[1]]['res'].endswith('remaining')
        ismax = lambda v: q.loads_self_field(v, 'config', 'max_packet_size')
        toobig = p.end == 'return' and p.ret[0] == 'agg' and p.ret[3] == 'Err' and q.variant_name(p.ret[5][0]) == 'DataTooBig'
        if (isrem(a) and ismax(b_)) or (isrem(b_) and ismax(a)):
            nb += 1
            if toobig:
                good = rel == 'gt' and isrem(a) and ismax(b_)
            else:
                good = rel == 'ge' and ismax(a) and isrem(b_)
            rep.check(good, 'C07-R5', hd.nname, 'DataTooBig iff the datagram is strictly larger than max_packet_size (a datagram '
                      'of exactly max_packet_size, which the writer can emit, is accepted)', site=cs[0]['span'],
                      construct='size-limit-strict:%s' % ('reject' if toobig else 'accept'))
    rep.floor('C07-R5', nb, 2, 'paths through the size check')
    hc = f.fn('Foca::handle_custom_broadcasts')
    thresholds = set()
    for p in ctx.paths(f, hc, 'none'):
        calls = {c['id']: c for c in p.calls()}
        issz = lambda v: v[0] == 'call' and v[1] in calls and calls[v[1]]['res'].split('::')[-1] in ('len', 'remaining')
        first_get = next((i for i, e in enumerate(p.events) if e['kind'] == 'call' and e['decl'] == 'bytes::Buf::get_u16'), None)
        if first_get is None:
            continue
        # what the path established about the section size before reading the first length prefix
        lb = 0
        for c in q.conds_before(p, first_get):
            al = q.at_least(c, issz)
            if al is not None:
                lb = max(lb, al[1])
        thresholds.add(lb)
    rep.check(thresholds == {3}, 'C07-R5', hc.nname, 'a custom section is parsed as soon as it holds 3 bytes (2-byte prefix + 1 '
              'byte): the smallest item the writer can produce is accepted', construct='custom-min-size',
              facts={'lower_bounds_seen': sorted(thresholds)})
    # sections of 1 or 2 bytes are rejected, an empty one is fine
    small = set()
    for p in ctx.paths(f, hc, 'none'):
        if p.end == 'return' and not any(e['decl'] == 'bytes::Buf::get_u16' for e in p.calls()):
            small.add(q.variant_name(p.ret[5][0]) if p.ret[3] == 'Err' else 'Ok')
    rep.check(small == {'Ok', 'MalformedPacket'}, 'C07-R5', hc.nname, 'without any item the section is either empty (Ok) or '
              'malformed', construct='custom-empty-or-malformed', facts={'outcomes': sorted(small)})


def closure_ret(ctx, f, clo):
    cb = f.fn(clo)
    ps = ctx.paths(f, cb, 'small')
    return cb, ps


def r6_feed(ctx, f, rep):
    rep.rule('C07-R6', 'the Feed section is filled from choose_active_members whose picker is `member != dst`; '
                       'choose_active_members selects `is_active() && picker(id)`; Member::is_active is Alive|Suspect')
    b = f.fn('Foca::send_message')
    n = 0
    for p in ctx.paths(f, b, 'none'):
        for e in p.calls():
            if e['res'] == 'member::Members::choose_active_members':
                n += 1
                clo = e['args'][4]
                # the capture is (a reference to) the dst parameter of send_message, possibly handed down to a helper
                cv = e['argvals'][4]
                good = clo[0] == 'agg' and clo[1] == 'closure' and cv[0] == 'agg' and cv[5] == (('param', 0, 2),)
                if good:
                    cb, cps = closure_ret(ctx, f, clo[2])
                    good = len(cps) == 1 and cps[0].ret[0] == 'binop' and cps[0].ret[1] == 'Ne' and \
                        ('param', 0, 2) in cps[0].ret[2:4]
                rep.check(good, 'C07-R6', b.nname, 'Feed picker closure is `member != &dst` capturing the dst parameter',
                          site=e['span'], construct='feed-picker')
                break
        if n:
            break
    rep.floor('C07-R6', n, 1, 'choose_active_members call in send_message')
    cam = f.fn('member::Members::choose_active_members')
    ok_ = False
    for p in ctx.paths(f, cam, 'none'):
        for e in p.calls():
            if e['res'] == 'member::Members::choose_members':
                clo = e['args'][4]
                if clo[0] == 'agg' and clo[1] == 'closure':
                    cb, cps = closure_ret(ctx, f, clo[2])
                    # paths: is_active false -> false ; is_active true -> picker(id)
                    rets = []
                    for cp in cps:
                        conds = [(q.describe(cp, c['expr'], cb), q.cond_truth(c)) for c in cp.conds()]
                        rets.append((conds, cp.ret))
                    t = [r for r in rets if any('state' in c[0] or 'is_active' in c[0] for c in r[0])]
                    falses = [r for r in rets if r[1][0] == 'const' and r[1][2] == 0]
                    picks = [r for r in rets if r[1][0] == 'call']
                    ok_ = bool(falses) and bool(picks) and len(rets) >= 2 and \
                        all(any(q.cond_variants(f, c) == {'Down'} for c in cp.conds() if c['expr'][0] == 'discr')
                            for cp in cps if cp.ret[0] == 'const' and cp.ret[2] == 0)
    rep.check(ok_, 'C07-R6', cam.nname, 'selection predicate is member.is_active() && picker(member.id())',
              construct='active-picker')
    ia = f.fn('member::Member::is_active')
    tab = {}
    for p in ctx.paths(f, ia, 'none'):
        vs = set(f.variant_names('member::State'))
        for c in p.conds():
            cv = q.cond_variants(f, c)
            if cv:
                vs &= cv
        for v in vs:
            tab[v] = p.ret
    rep.check(tab.get('Alive') == ('const', 'bool', 1, 'true') and tab.get('Suspect') == ('const', 'bool', 1, 'true') and
              tab.get('Down') == ('const', 'bool', 0, 'false'), 'C07-R6', ia.nname, 'is_active: Alive|Suspect -> true, Down -> false',
              construct='is_active-table', facts={k: show(v) for k, v in tab.items()})


def r7_scratch(ctx, f, rep):
    rep.rule('C07-R7', 'a loop that pops targets from choice_buf only calls send_message with kinds for which '
                       'send_message does not itself refill choice_buf (i.e. never Feed)')
    n = 0
    param_msgs = []
    for b in f.analysed_bodies():
        if b.nname == 'Foca::send_message' or not b.nname.startswith('Foca::'):
            continue
        if not any('send_message' in t['res'] for _, t in f.calls_deep(b)):
            continue
        for p in ctx.paths(f, b, 'none'):
            popped = False
            for e in p.events:
                if e['kind'] != 'call':
                    continue
                if e['res'] == 'alloc::vec::Vec::pop' and e['args'][0] == ('ref', q.self_field('choice_buf'), True):
                    popped = True
                if e['res'] == 'Foca::send_message' and popped:
                    n += 1
                    m = e['args'][2]
                    vn = q.variant_name(m)
                    if vn is not None:
                        rep.check(vn != 'Feed', 'C07-R7', b.nname, 'kind sent while draining choice_buf is not Feed',
                                  site=e['span'], construct='drain-kind', facts={'kind': vn})
                    elif m[0] == 'load' and m[1][0] == 'deref' and m[1][1][0] == 'ref':
                        param_msgs.append((b, e))
                    else:
                        # clone of a parameter: resolve at the callers
                        param_msgs.append((b, e))
    seen = set()
    for b, e in param_msgs:
        if b.nname in seen:
            continue
        seen.add(b.nname)
        for cb, bi, t in f.callers_of(lambda n_: n_ == b.nname):
            for p in ctx.paths(f, cb, 'none'):
                for ce in p.calls():
                    if ce['res'] == b.nname and ce['tblock'] == bi:
                        kinds = {q.variant_name(a) for a in ce['args'] if q.variant_name(a) in KINDS}
                        rep.check(len(kinds) == 1 and 'Feed' not in kinds, 'C07-R7', cb.nname,
                                  'constant kind passed to %s is not Feed' % b.nname, site=ce['span'],
                                  construct='drain-kind-caller', facts={'kinds': sorted(kinds)})
    rep.floor('C07-R7', n, 4, 'send_message calls inside choice_buf draining loops')
    # every fill of choice_buf starts from an empty buffer: the previous choice_buf operation on the path is clear()
    CB = ('ref', q.self_field('choice_buf'), True)
    nf = 0
    for b in f.analysed_bodies():
        if not b.nname.startswith('Foca::'):
            continue
        if not any('choose_' in t['res'] for _, t in f.calls_deep(b)):
            continue
        for p in ctx.paths(f, b, 'none'):
            last = None
            pcalls = {c['id']: c for c in p.calls()}
            for e in p.events:
                if e['kind'] == 'call' and CB not in e['args'] and e['res'] in (
                        'member::Members::choose_active_members', 'member::Members::choose_down_members'):
                    # targets chosen into some other vector: it must be a fresh one (the number of datagrams a round sends is
                    # bounded by `wanted` only if nothing was in the vector before)
                    fresh = False
                    for a, d, ty in zip(e['args'], e.get('derefs') or [], e.get('argtys') or []):
                        if a[0] == 'ref' and a[2] is True and 'Vec<member::Member' in ty:
                            fresh = d is not None and d[0] == 'call' and d[1] in pcalls and \
                                pcalls[d[1]]['res'] in ('alloc::vec::Vec::new', 'alloc::vec::Vec::with_capacity')
                    nf += 1
                    rep.check(fresh, 'C07-R7', b.nname, 'members are chosen into the cleared scratch buffer or into a fresh vector '
                              '(left-overs would be sent to as well)', site=e['span'], construct='fill-into-fresh')
                if e['kind'] != 'call' or CB not in e['args']:
                    continue
                nm = e['res']
                if nm in ('member::Members::choose_active_members', 'member::Members::choose_down_members'):
                    nf += 1
                    rep.check(last == 'alloc::vec::Vec::clear', 'C07-R7', b.nname, 'choice_buf is cleared immediately before it '
                              'is filled (a previous user may have left elements behind)', site=e['span'],
                              construct='fill-after-clear', facts={'previous_operation': last})
                last = nm
    rep.floor('C07-R7', nf, 5, 'choice_buf fills')


def check(ctx):
    rep = ctx.report
    rep.explanation = (
        'Static decision of the writer\'s shape: single sender and faithful header (R1), boundedness by construction '
        'through BufMut::limit(max_packet_size) with audited escapes (R2), the kind predicates as extracted tables and '
        'the guards of each section (R3), the count patch-up and truncate-on-error discipline (R4), agreement of '
        'writer and reader primitives/predicates on every kind (R5), Feed content (R6) and scratch-buffer discipline '
        '(R7). NOT decided: byte-level acceptance for an arbitrary user codec.')
    rep.not_decided = ['byte-level acceptance by a peer for every codec (depends on user codec)']
    rep.assumptions = ['bytes::buf::Limit bounds writes (third-party)', 'user Codec writes only through the BufMut it is given']
    for cfgname in ctx.configs(quick=('base',), thorough=('base', 'wire', 'nostd')):
        f = ctx.facts(cfgname)
        rep.cur_config = cfgname
        from . import common as _cm
        _cm.check_helpers(ctx, f, rep, 'C07-R0', {'choose_members'})
        tabs = tables(ctx, f, rep)
        r1_r2_sender(ctx, f, rep)
        r3_sections(ctx, f, rep, tabs)
        r4_count(ctx, f, rep)
        r5_agreement(ctx, f, rep, tabs)
        r5b_reader_constants(ctx, f, rep)
        r6_feed(ctx, f, rep)
        r7_scratch(ctx, f, rep)
        # what the update section carries was produced by serialize_member: one member encoded into a fresh Vec (a reused
        # scratch buffer keeps the partial bytes of a failed encode and prefixes the next update with them)
        from . import common as _cmn7
        _cmn7.check_helpers(ctx, f, rep, 'C07-R7', {'serialize_member'})
    # with the bundled (serde-based, positional) codecs, what the writer encodes is what the reader decodes only if the
    # derived Serialize/Deserialize of the wire types are symmetric and plain (C20-R4, re-run on the configuration that
    # compiles them)
    from . import c20 as _c20
    from .c09 import _Rename
    fw = ctx.facts('wire')
    rep.cur_config = 'wire'
    _c20.r4_derives(ctx, fw, _Rename(rep, 'C20-R4', 'C07-R5'))
    rep.cur_config = None

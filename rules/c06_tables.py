"""Classification of every external callee Foca reaches (C06-R1c) and the audited discharge table (C06-R2.4).

A callee that is in no class is reported (fail closed): a new dependency on library behaviour must be looked
at once.  Names are generics-stripped def paths as printed by rustc.
"""

# cannot panic for any argument (allocation aside)
TOTAL = {
    # iterators / collections
    "<&'a alloc::vec::Vec as core::iter::IntoIterator>::into_iter", '<I as core::iter::IntoIterator>::into_iter',
    '<core::iter::Filter as core::iter::Iterator>::count', '<core::slice::Iter as core::iter::Iterator>::any',
    '<core::slice::Iter as core::iter::Iterator>::next', '<core::slice::Iter as core::iter::Iterator>::position',
    '<core::slice::IterMut as core::iter::Iterator>::find', 'core::iter::Iterator::filter',
    'core::iter::Iterator::position', 'core::iter::ExactSizeIterator::len', 'core::iter::Iterator::skip', 'core::iter::Iterator::take',
    'core::iter::range::<impl core::iter::Iterator for core::ops::Range>::next',
    'alloc::collections::BinaryHeap::is_empty', 'alloc::collections::BinaryHeap::len',
    'alloc::collections::BinaryHeap::pop', 'alloc::collections::BinaryHeap::retain',
    'alloc::collections::VecDeque::len', 'alloc::collections::VecDeque::pop_front',
    'alloc::vec::Vec::capacity', 'alloc::vec::Vec::clear', 'alloc::vec::Vec::len', 'alloc::vec::Vec::new',
    'alloc::vec::Vec::pop', 'alloc::vec::Vec::retain', 'alloc::vec::Vec::truncate',
    '<alloc::vec::Vec as core::ops::Deref>::deref', '<alloc::vec::Vec as core::ops::DerefMut>::deref_mut',
    '<[T] as core::convert::AsMut>::as_mut', '<[T] as rand::prelude::SliceRandom>::shuffle',
    'rand::prelude::IteratorRandom::choose',
    'core::slice::<impl [T]>::get', 'core::slice::<impl [T]>::is_empty', 'core::slice::<impl [T]>::iter',
    'core::slice::<impl [T]>::iter_mut', 'core::slice::<impl [T]>::len',
    # bytes: queries and wrappers
    '<&[u8] as bytes::Buf>::remaining', '<bytes::buf::Limit as bytes::BufMut>::remaining_mut',
    'bytes::Buf::has_remaining', 'bytes::BufMut::has_remaining_mut', 'bytes::BufMut::limit',
    'bytes::buf::Limit::get_mut', 'bytes::buf::Limit::get_ref', 'bytes::buf::Limit::into_inner',
    'bytes::BytesMut::freeze', 'bytes::BytesMut::split',
    # Option / Result combinators
    '<core::result::Result as core::ops::FromResidual>::from_residual', '<core::result::Result as core::ops::Try>::branch',
    '<core::option::Option as core::ops::FromResidual>::from_residual', '<core::option::Option as core::ops::Try>::branch',
    'core::option::Option::cloned', 'core::option::Option::copied',
    'core::option::Option::as_ref', 'core::option::Option::is_none', 'core::option::Option::is_some',
    'core::option::Option::is_some_and', 'core::option::Option::map', 'core::option::Option::or_else',
    'core::option::Option::take', 'core::option::Option::unwrap_or', 'core::option::Option::unwrap_or_else',
    'core::result::Result::is_ok', 'core::result::Result::map', 'core::result::Result::map_err',
    # comparisons, clones, defaults, conversions of primitive / std types
    '<T as core::convert::Into>::into', '<core::num::NonZero as core::clone::Clone>::clone',
    '<core::num::NonZero as core::cmp::PartialEq>::ne', '<core::num::NonZero as core::cmp::PartialEq>::eq',
    '<core::option::Option as core::clone::Clone>::clone',
    '<core::time::Duration as core::clone::Clone>::clone', '<core::time::Duration as core::cmp::PartialEq>::ne',
    '<core::time::Duration as core::cmp::PartialEq>::eq',
    '<u16 as core::default::Default>::default', '<u8 as core::default::Default>::default',
    '<alloc::string::String as core::cmp::PartialEq>::eq',
    'core::clone::impls::<impl core::clone::Clone for bool>::clone',
    'core::clone::impls::<impl core::clone::Clone for u16>::clone',
    'core::clone::impls::<impl core::clone::Clone for u8>::clone',
    'core::clone::impls::<impl core::clone::Clone for usize>::clone',
    'core::cmp::Ord::max', 'core::cmp::Ord::min', 'core::cmp::max', 'core::cmp::min', 'core::cmp::Ordering::is_eq', 'core::cmp::Ordering::then_with',
    'core::cmp::PartialEq::ne', '<core::cmp::Ordering as core::cmp::PartialEq>::eq', '<core::cmp::Ordering as core::cmp::PartialEq>::ne',
    'core::cmp::impls::<impl core::cmp::Ord for u16>::cmp',
    'core::cmp::impls::<impl core::cmp::Ord for usize>::cmp',
    'core::cmp::impls::<impl core::cmp::PartialEq for &A>::eq', 'core::cmp::impls::<impl core::cmp::PartialEq for &A>::ne',
    'core::cmp::impls::<impl core::cmp::PartialOrd for u8>::partial_cmp',
    'core::convert::num::<impl core::convert::From for f64>::from',
    'core::convert::num::<impl core::convert::From for usize>::from',
    'core::convert::num::ptr_try_from_impls::<impl core::convert::TryFrom for u16>::try_from',
    'core::f64::<impl f64>::max', 'std::f64::<impl f64>::log10', 'core::time::Duration::as_secs_f64',
    'core::time::Duration::from_millis', 'core::time::Duration::from_secs',
    'core::mem::replace', 'core::mem::swap', 'core::mem::take',
    'core::num::<impl u16>::saturating_add', 'core::num::<impl u32>::saturating_add',
    'core::num::<impl u8>::wrapping_add', 'core::num::<impl usize>::saturating_add',
    'core::num::<impl usize>::saturating_sub', 'core::num::NonZero::get', 'core::num::NonZero::new',
    '<core::net::SocketAddr as core::clone::Clone>::clone', '<core::net::SocketAddrV4 as core::clone::Clone>::clone',
    '<core::net::SocketAddrV6 as core::clone::Clone>::clone',
}

# total, allocate (allocation failure / capacity overflow is excluded by the property, as in the README)
ALLOC = {
    '<T as alloc::string::ToString>::to_string', '<alloc::collections::BinaryHeap as core::default::Default>::default',
    '<alloc::collections::VecDeque as core::default::Default>::default', '<alloc::vec::Vec as core::clone::Clone>::clone',
    '<bytes::BytesMut as core::default::Default>::default', 'alloc::boxed::Box::new',
    'alloc::collections::BinaryHeap::append', 'alloc::collections::BinaryHeap::push',
    'alloc::collections::VecDeque::push_back', 'alloc::slice::<impl [T]>::to_vec', 'alloc::vec::Vec::push',
    'alloc::vec::Vec::with_capacity', 'bytes::BytesMut::extend_from_slice',
}

# formatting machinery (Display/Debug impls): total
TOTAL_PREFIXES = ('core::fmt::', '<alloc::boxed::Box as core::fmt::', '<alloc::string::String as core::fmt::',
                  '<str as core::fmt::', '<&T as core::fmt::', '<u8 as core::fmt::', '<u16 as core::fmt::',
                  '<usize as core::fmt::', '<bool as core::fmt::', '<core::time::Duration as core::fmt::',
                  '<core::num::NonZero as core::fmt::', '<core::option::Option as core::fmt::',
                  '<alloc::vec::Vec as core::fmt::', '<bincode::error::', '<postcard::Error as')

# comparison impls of the primitive types: total functions, whatever the width
import re as _re
TOTAL_RE = _re.compile(r'^core::cmp::impls::<impl core::cmp::(Ord|PartialOrd|PartialEq|Eq) for '
                       r'(u8|u16|u32|u64|u128|usize|i8|i16|i32|i64|i128|isize|bool|char)>::'
                       r'(cmp|partial_cmp|eq|ne|lt|le|gt|ge|max|min)$')

# iterator adaptors of core over slices/ranges: constructing one is total, and advancing / consuming one only runs the
# closures it was given (crate code, whose own panic sites are enumerated separately)
TOTAL_ITER_RE = _re.compile(
    r'^(core::iter::Iterator::(enumerate|filter|skip|take|map|rev|zip|chain|peekable|cloned|copied|by_ref|filter_map|'
    r'take_while|skip_while|inspect|fuse|position|any|all|find|find_map|count|last|fold|for_each|next)'
    r'|<core::(iter|slice)::(Enumerate|Filter|Skip|Take|Map|Rev|Zip|Chain|Cloned|Copied|FilterMap|TakeWhile|SkipWhile|'
    r'Inspect|Fuse|Iter|IterMut) as core::iter::(Iterator|DoubleEndedIterator|ExactSizeIterator)>::'
    r'(next|next_back|position|any|all|find|find_map|count|last|fold|for_each|len|size_hint|nth)'
    r'|core::mem::drop'
    r'|alloc::(vec::Vec|collections::(BinaryHeap|VecDeque|BTreeMap|BTreeSet)|string::String)::new)$')

# third-party entry points that are documented to return Result for every input; their internals are outside
# the crate (trusted: see DESIGN section 9)
THIRD_PARTY = {
    'bincode::serde::decode_from_std_read', 'bincode::serde::encode_into_std_write',
    'postcard::serialize_with_flavor', 'postcard::take_from_bytes',
    'bytes::Buf::reader', 'bytes::BufMut::writer',
}

# library routines with a panicking precondition -> discharge handler id (see c06.py)
PARTIAL = {
    'bytes::Buf::get_u16': 'buf_need_const:2',
    'bytes::Buf::get_u8': 'buf_need_const:1',
    '<&[u8] as bytes::Buf>::advance': 'buf_advance',
    'bytes::Buf::advance': 'buf_advance',
    'bytes::BufMut::put_u16': 'bufmut_need_const:2',
    'bytes::BufMut::put_u8': 'bufmut_need_const:1',
    'bytes::BufMut::put_slice': 'bufmut_put_slice',
    'alloc::vec::Vec::swap_remove': 'swap_remove',
    '<alloc::vec::Vec as core::ops::IndexMut>::index_mut': 'index',
    '<alloc::vec::Vec as core::ops::Index>::index': 'index',
    'core::slice::index::<impl core::ops::Index for [T]>::index': 'index',
    'core::slice::index::<impl core::ops::IndexMut for [T]>::index_mut': 'index',
    'core::slice::<impl [T]>::swap': 'audited',
    'alloc::vec::Vec::drain': 'drain_full',
    'rand::Rng::random_range': 'audited',
    'core::option::Option::unwrap': 'unwrap',
    'core::option::Option::expect': 'unwrap',
    'core::result::Result::unwrap': 'unwrap',
    'core::result::Result::expect': 'unwrap',
    'core::time::Duration::from_secs_f64': 'audited',
}

# calls into user-supplied code (type parameters): the property assumes these do not panic
USER_DECL_PREFIXES = ('runtime::Runtime::', 'codec::Codec::', 'broadcast::BroadcastHandler::',
                      'broadcast::Invalidates::', 'identity::Identity::', 'core::clone::Clone::clone',
                      'core::cmp::PartialEq::', 'core::ops::Fn::call', 'core::ops::FnMut::call_mut',
                      'core::ops::FnOnce::call_once', 'core::iter::Iterator::next', 'bytes::Buf::chunk',
                      'bytes::Buf::remaining', 'bytes::BufMut::remaining_mut', 'bytes::BufMut::has_remaining_mut',
                      'bytes::Buf::has_remaining', 'core::fmt::Debug::fmt', 'core::fmt::Display::fmt')

# ---------------------------------------------------------------------------------------------------------
# Audited discharges: (function, site kind, descriptor) -> argument.  Each entry names ONE site by the
# function it is in, the kind of panic site and a semantic descriptor (callee or assert kind plus the operand's
# provenance as rendered by the engine) - never a line number.  The handler in c06.py additionally verifies the
# structural sub-conditions listed in 'checks' for the entries that have them.
AUDITED = {
    ('member::Members::choose_members', 'call', 'rand::Rng::random_range'):
        'range is 0..num_seen and `num_seen += 1` precedes the call in the same iteration, so it is non-empty '
        '(checked: range start is the constant 0 and the end is an incremented value)',
    ('member::Members::choose_members', 'call', '<alloc::vec::Vec as core::ops::IndexMut>::index_mut'):
        'reached only on the failing edge of `num_chosen < wanted` (checked) with replace_at < wanted (checked); every '
        'increment of num_chosen is paired with a push onto output, so output.len() >= num_chosen >= wanted',
    ('member::Members::apply', 'call', 'core::slice::<impl [T]>::swap'):
        'both indices are < len: inserted_at = len-1 after the push; swap_idx is drawn from 0..len or is inserted_at',
    ('Foca::send_message', 'call', 'core::result::Result::expect'):
        'u16::try_from(Broadcasts::fill(.., max_items = u16::MAX)): fill never returns more than max_items '
        '(checked: the argument is the constant 65535)',
    ('Foca::send_message', 'call', '<alloc::vec::Vec as core::ops::IndexMut>::index_mut'):
        '`buf.get_mut()[tally_position..]`: tally_position is the length before put_u16(0); the vector only grows or '
        'is truncated to a position recorded after that put (checked), so tally_position + 2 <= len',
    ('Foca::send_message', 'call', 'bytes::BufMut::put_u16#slice'):
        'writes 2 bytes into the slice [tally_position..], which is at least 2 long (same argument, checked)',
    ('config::Config::compute_max_tx', 'call', 'core::option::Option::expect'):
        'NonZeroU8::new(max_tx as u8) on the path 1.0 < max_tx < 255.0 (checked), a saturating cast into 1..=254',
    ('config::Config::suspicion_duration', 'call', 'core::time::Duration::from_secs_f64'):
        'secs = max(1, log10(n)) * m * period with n <= 2^32, m in {4,6} and period in {1s,5s} (checked: the only call '
        'sites are new_lan/new_wan passing literals): finite, positive, < 300',
    ('<runtime::Timer as core::cmp::Ord>::cmp', 'call', 'core::option::Option::expect'):
        'partial_cmp delegates to u8::partial_cmp on seq() (checked), which is always Some',
    ('<codec::postcard_impl::PostcardCodec as codec::Codec>::decode_header', 'call', 'bytes::Buf::advance'):
        'advance(remaining - rest.len()) <= remaining (checked: argument is that subtraction)',
    ('<codec::postcard_impl::PostcardCodec as codec::Codec>::decode_member', 'call', 'bytes::Buf::advance'):
        'as decode_header',
    ('Foca::estimate_feed_capacity', 'assert', 'DivisionByZero'):
        'divisor identity_len = (max_packet_size - remaining)/2 where the only call site passes buf.remaining_mut() '
        'after put_u16 on the Limit built from max_packet_size (checked), hence max - remaining >= 2',
}

# arithmetic asserts discharged by a written argument; key = (function, 'assert', kind:operand origins)
AUDITED_ASSERTS = {
    ('member::Members::next', 'assert', 'Overflow(Add):<usize>,self.cursor'):
        'pos is an index into inner.iter().skip(cursor), so pos + cursor < inner.len() <= isize::MAX',
    ('member::Members::choose_members', 'assert', 'Overflow(Add):counter:usize,1'):
        'num_seen / num_chosen: usize counters starting at 0 and stepped by 1 at most once per element of self.inner '
        'visited by this loop: <= inner.len() <= isize::MAX',
    ('member::Members::apply', 'assert', 'Overflow(Sub):len(self.inner),1'):
        '`self.inner.len() - 1` immediately after `self.inner.push(..)` (checked: push precedes, nothing shrinks it)',
    ('probe::Probe::receive_indirect_ack', 'assert', 'Overflow(Add):self.indirect_ack_count,1'):
        'every increment removes one element from `indirect` (checked: paired with swap_remove), bounded by memory',
    ('Foca::send_message', 'assert', 'Overflow(Add):acc:u16,1'):
        '`num_items += 1` (u16) runs once per element popped from choice_buf, which holds at most `wanted` elements, '
        'and wanted is min(estimate, u16::MAX) (checked: D6 repair)',
    ('Foca::send_message', 'assert', 'Overflow(Add):counter:u16,1'):
        'the same counter when the Feed loop lives in a helper of send_message (starts at 0 there): one step per '
        'element popped from choice_buf, at most min(estimate, u16::MAX) of them (checked)',
    ('broadcast::Broadcasts::fill', 'assert', 'Overflow(Add):counter:usize,1'):
        'a usize counter from 0 stepped by 1: num_taken counts heap entries popped in this call: bounded by memory',
    ('broadcast::Broadcasts::fill_with_len_prefix', 'assert', 'Overflow(Add):counter:usize,1'):
        'as fill',
    ('broadcast::Broadcasts::fill_with_len_prefix', 'assert', 'Overflow(Add):len(pop(self.flip).some.data),2'):
        'a Vec length is <= isize::MAX, so + 2 cannot overflow usize',
    ('<codec::postcard_impl::PostcardCodec as codec::Codec>::decode_header', 'assert',
     'Overflow(Sub):remaining(<impl Buf>),len(take_from_bytes(chunk(<impl Buf>)).ok.1)'):
        'rest is the tail take_from_bytes returns for buf.chunk(), whose length equals remaining (debug-asserted), '
        'so rest.len() <= remaining',
    ('<codec::postcard_impl::PostcardCodec as codec::Codec>::decode_member', 'assert',
     'Overflow(Sub):remaining(<impl Buf>),len(take_from_bytes(chunk(<impl Buf>)).ok.1)'):
        'as decode_header',
}


# audited arithmetic asserts whose operand can be spelled in several ways: (owner, compiled pattern over the
# descriptor, argument).  Used when no exact key of AUDITED_ASSERTS matches.
def _distinct_queue_lengths(desc):
    leaves = _re.findall(r'len\(self\.(\w+)\)', desc)
    rest = _re.sub(r'len\(self\.\w+\)|AddWithOverflow|\.0|[(),]', '', desc.split(':', 1)[1])
    return not rest and len(leaves) == len(set(leaves)) and set(leaves) <= {'to_send', 'to_schedule', 'notifications'}


AUDITED_ASSERT_PATTERNS = [
    ('runtime::AccumulatingRuntime::backlog', _re.compile(r'^Overflow\(Add\):'),
     'a sum, in any order, of the lengths of distinct queues among to_send / to_schedule / notifications (elements >= 32, '
     '>= 16 and >= 1 bytes: lengths <= isize::MAX/32, /16 and isize::MAX, so the total is < usize::MAX)',
     _distinct_queue_lengths),
    ('member::Members::next',
     _re.compile(r'^Overflow\(Add\):.*skip\(iter\(deref\(self\.inner\)\),self\.cursor\).*,self\.cursor$'),
     'an offset produced by enumerating / searching inner.iter().skip(cursor): offset + cursor < inner.len() <= isize::MAX'),
]

"""C08 - notifications faithfully mirror membership and connection state.

Decided statically: notifications are produced only from, and always from, the summary of an actual change; the
summary flags are computed from reads before/after the mutation; the connection state machine's write/notify
pairing and guards; the FIFO discipline of AccumulatingRuntime.  Not decided: the replay equation over histories
(implied by the decided parts plus C09's uniqueness; no history is replayed).
"""
from .lib import query as q
from .lib.effects import Effects
from .lib.facts import strip_generics
from .lib.symx import show

NOTIF = 'runtime::Notification'
SUMMARY = ('param', 0, 2)
UPDATE = ('param', 0, 3)


def notif_sites(ctx, f):
    """(body, path, idx, event, variant, resolved value) for every Runtime::notify call."""
    out = []
    for b in f.analysed_bodies():
        if not any(strip_generics(t['decl']) == 'runtime::Runtime::notify' for _, t in f.calls_deep(b)):
            continue
        if b.nname.startswith('<&mut R as'):
            continue
        for p in ctx.paths(f, b, 'none'):
            for i, e in enumerate(p.events):
                if e['kind'] == 'call' and e['decl'] == 'runtime::Runtime::notify':
                    v = e['argvals'][1]
                    out.append((b, p, i, e, q.variant_name(v), v))
    return out


EXPECT_SITE = {
    'MemberUp': 'Foca::handle_apply_summary', 'MemberDown': 'Foca::handle_apply_summary',
    'Rename': 'Foca::handle_apply_summary', 'Active': 'Foca::become_connected', 'Idle': 'Foca::become_disconnected',
    'Defunct': 'Foca::become_undead', 'Rejoin': 'Foca::attempt_rejoin',
    'DataReceived': 'Foca::handle_data', 'DataSent': 'Foca::send_message', 'ProbeFailed': 'Foca::probe_random_member',
}


def r1_sites(ctx, f, rep, sites):
    rep.rule('C08-R1', 'MemberUp, MemberDown and Rename are constructed only in handle_apply_summary; Active only in '
                       'become_connected, Idle only in become_disconnected, Defunct only in become_undead, Rejoin only '
                       'in attempt_rejoin')
    by_fn = {}
    for b, p, i, e, vn, v in sites:
        by_fn.setdefault((b.nname, e['block']), (vn, e))
    for (fn, blk), (vn, e) in sorted(by_fn.items()):
        rep.check(vn in EXPECT_SITE and EXPECT_SITE[vn] == fn, 'C08-R1', fn,
                  'notification %s is produced in %s' % (vn, EXPECT_SITE.get(vn, '?')), site=e['span'],
                  construct='notify:%s' % vn)
    rep.floor('C08-R1', len(by_fn), 7, 'Runtime::notify call sites')
    # aggregates of Notification anywhere else
    for b in f.bodies:
        if '_serde' in b.nname or 'core::fmt' in b.nname or 'core::cmp' in b.nname:
            continue
        for bl in b.blocks:
            for s in bl['stmts']:
                if 'rv' in s and s['rv']['k'] == 'aggregate' and strip_generics(s['rv']['name']) == NOTIF:
                    vn = s['rv']['variant']
                    if [EXPECT_SITE.get(vn)] != f.attributed(b):
                        rep.violation('C08-R1', b.nname, 'notification-aggregate:' + vn,
                                      'Notification::%s constructed outside %s' % (vn, EXPECT_SITE.get(vn)), site=s['span'])


def fld(name):
    return ('fieldv', SUMMARY, name, None)


def r2_guards(ctx, f, rep):
    rep.rule('C08-R2', 'in handle_apply_summary: MemberUp(id) iff changed_active_set && is_active_now, MemberDown(id) iff '
                       'changed_active_set && !is_active_now, Rename(old, id) iff conflict = Replaced(old), with id the '
                       'identity of the applied update and Rename preceding MemberUp/MemberDown')
    b = f.fn('Foca::handle_apply_summary')
    paths = ctx.paths(f, b, 'none')
    n = 0
    for p in paths:
        calls = {c['id']: c for c in p.calls()}
        conds = {}
        repl = None
        for c in p.conds():
            ex = c['expr']
            if ex == fld('changed_active_set'):
                conds['changed'] = q.cond_truth(c)
            elif ex == fld('is_active_now'):
                conds.setdefault('active', q.cond_truth(c))
                conds['active_last'] = q.cond_truth(c)
            elif ex == fld('apply_successful'):
                conds['ok'] = q.cond_truth(c)
            elif ex[0] == 'discr' and ex[1] == fld('conflict'):
                repl = q.cond_variants(f, c) == {'Replaced'}
        notes = [(i, e) for i, e in enumerate(p.events) if e['kind'] == 'call' and e['decl'] == 'runtime::Runtime::notify']
        kinds = [q.variant_name(e['argvals'][1]) for i, e in notes]
        errpath = q.path_is_error_propagation(p)
        # id provenance: clone of Member::id(&update)
        idcalls = [c for c in p.calls() if c['res'] == 'member::Member::id' and c['args'][0] == ('ref', ('local', 0, 3), False)]
        idval = ('load', ('deref', ('call', idcalls[0]['id'])), 0) if idcalls else None
        for i, e in notes:
            n += 1
            v = e['argvals'][1]
            vn = q.variant_name(v)
            if vn == 'MemberUp':
                good = conds.get('changed') is True and conds.get('active_last') is True and v[5][0] == idval
            elif vn == 'MemberDown':
                good = conds.get('changed') is True and conds.get('active_last') is False and v[5][0] == idval
            elif vn == 'Rename':
                good = repl is True and v[5][0] == ('fieldv', fld('conflict'), '0', 'Replaced') and v[5][1] == idval
            else:
                good = False
            rep.check(good, 'C08-R2', b.nname, '%s is guarded by the matching summary flags and names the applied identity' % vn,
                      site=e['span'], construct='guard:%s' % vn, facts={'conds': conds, 'replaced': repl,
                                                                        'value': show(v, b)})
        if 'Rename' in kinds and len(kinds) > 1:
            rep.check(kinds[0] == 'Rename', 'C08-R2', b.nname, 'Rename precedes MemberUp/MemberDown', construct='order',
                      site=notes[0][1]['span'])
        if p.end == 'return' and not errpath:
            want = set()
            if conds.get('changed') is True:
                want.add('MemberUp' if conds.get('active_last') else 'MemberDown')
            if repl:
                want.add('Rename')
            rep.check(set(kinds) == want and len(kinds) == len(want), 'C08-R2', b.nname,
                      'exactly the notifications the summary calls for are emitted on this path (%s)' % sorted(want),
                      construct='exactly:%s|%s|%s' % (conds.get('changed'), conds.get('active_last'), repl),
                      facts={'emitted': kinds})
    rep.floor('C08-R2', n, 6, 'notify occurrences in handle_apply_summary paths')


def r3_summary_flow(ctx, f, rep):
    rep.rule('C08-R3', 'at each call of Members::apply / apply_existing_if the returned ApplySummary flows into '
                       'handle_apply_summary on every normal path, together with the very Member value that was applied')
    n = 0
    for fn in ('Foca::apply_update', 'Foca::handle_timer', 'Foca::probe_random_member'):
        b = f.fn(fn)
        for p in ctx.paths(f, b, 'none'):
            evs = p.events
            for i, e in enumerate(evs):
                if e['kind'] != 'call' or e['res'] not in ('member::Members::apply', 'member::Members::apply_existing_if'):
                    continue
                applied = e['args'][1]
                if e['res'] == 'member::Members::apply':
                    summ = ('call', e['id'])
                    has_summary = True
                else:
                    summ = ('fieldv', ('call', e['id']), '0', 'Some')
                    cs = [c for c in evs[i:] if c['kind'] == 'cond' and c['expr'][0] == 'discr' and c['expr'][1] == ('call', e['id'])]
                    has_summary = bool(cs) and q.cond_variants(f, cs[0]) == {'Some'}
                if not has_summary:
                    continue
                n += 1
                hs = [x for x in evs[i:] if x['kind'] == 'call' and x['res'] == 'Foca::handle_apply_summary']
                good = len(hs) == 1 and hs[0]['args'][1] == summ and hs[0]['args'][2] == applied
                if not hs and p.end != 'return':
                    continue
                rep.check(good, 'C08-R3', fn, 'summary of this application and the applied member reach handle_apply_summary',
                          site=e['span'], construct='summary-flow',
                          facts={'applied': show(applied, b), 'handled': [show(x['args'][2], b) for x in hs]})
    rep.floor('C08-R3', n, 3, 'apply sites with a summary')
    callers = sorted({c[0].nname for c in f.callers_of(lambda x: x == 'Foca::handle_apply_summary')})
    rep.check(callers == ['Foca::apply_update', 'Foca::handle_timer', 'Foca::probe_random_member'], 'C08-R3',
              'Foca::handle_apply_summary', 'called only where a summary was just produced', construct='callers',
              facts={'callers': callers})


def r4_flags(ctx, f, rep, eff):
    rep.rule('C08-R4', 'ApplySummary flags are honest: was_active is read before any write to the record and '
                       'is_active_now after the last one; changed_active_set = (is_active_now != was_active); num_active '
                       'is adjusted iff changed_active_set (+1 when active now, -1 otherwise); early returns write nothing '
                       'and report no change; num_active has no other writer; remove_if_down removes only Down records')
    b = f.fn('member::Members::apply_existing_if')
    n = 0
    for p in ctx.paths(f, b, 'none'):
        if p.end != 'return':
            continue
        r = p.ret
        if q.is_variant(r, 'Option', 'None') or (r[0] == 'agg' and r[3] == 'None'):
            rep.check(not p.writes(), 'C08-R4', b.nname, 'unknown address: nothing is written', construct='none-path')
            continue
        s = r[5][0]
        get = lambda k: q.agg_field(s, k)
        calls = {c['id']: c for c in p.calls()}
        rec_writes = [i for i, w in enumerate(p.events) if w['kind'] == 'write' and q.place_root(w['place'])[0] == 'deref'
                      and q.field_path(w['place'])[1][-1] in ('id', 'state', 'incarnation')]
        cs_calls = [i for i, e in enumerate(p.events) if e['kind'] == 'call' and e['res'] == 'member::Member::change_state']
        muts = rec_writes + cs_calls
        na_writes = [w for w in p.writes() if w['place'] == q.self_field('num_active')]
        n += 1
        if get('apply_successful') == ('const', 'bool', 0, 'false') and not muts:
            good = get('changed_active_set') == ('const', 'bool', 0, 'false') and not na_writes
            rep.check(good, 'C08-R4', b.nname, 'early return (%s): no write, no change reported' % q.variant_name(get('conflict')),
                      construct='early:%s' % q.variant_name(get('conflict')))
            continue
        ian, chg = get('is_active_now'), get('changed_active_set')
        good = ian[0] == 'call' and calls[ian[1]]['res'] == 'member::Member::is_active'
        if good:
            idx_now = [i for i, e in enumerate(p.events) if e['kind'] == 'call' and e['id'] == ian[1]][0]
            good = bool(muts) and idx_now > max(muts)
            good = good and chg[0] == 'binop' and chg[1] == 'Ne' and ian in chg[2:4]
            if good:
                was = chg[3] if chg[2] == ian else chg[2]
                good = was[0] == 'call' and calls[was[1]]['res'] == 'member::Member::is_active'
                if good:
                    idx_was = [i for i, e in enumerate(p.events) if e['kind'] == 'call' and e['id'] == was[1]][0]
                    good = idx_was < min(muts)
        # num_active adjustment
        cc = [c for c in p.conds() if c['expr'] == chg]
        changed = q.cond_truth(cc[-1]) if cc else None
        if good and changed is True:
            act = [c for c in p.conds() if c['expr'] == ian]
            an = q.cond_truth(act[-1]) if act else None
            good = len(na_writes) == 1 and na_writes[0]['value'][0] == 'call'
            if good:
                nm = calls[na_writes[0]['value'][1]]
                good = nm['res'].endswith('saturating_add' if an else 'saturating_sub') and \
                    q.is_self_field_load(nm['args'][0], 'num_active') and nm['args'][1] == ('const', 'usize', 1, '1_usize') \
                    or (good and nm['args'][1][0] == 'const' and nm['args'][1][2] == 1 and
                        nm['res'].endswith('saturating_add' if an else 'saturating_sub'))
        elif good and changed is False:
            good = not na_writes
        elif good:
            # the adjustment must be decided by changed_active_set itself
            good = False
        rep.check(good, 'C08-R4', b.nname, 'flags computed from is_active() before the first and after the last mutation; '
                  'num_active follows changed_active_set', construct='flags:%s' % q.variant_name(get('conflict')),
                  facts={'summary': show(s, b), 'changed': changed})
    rep.floor('C08-R4', n, 6, 'apply_existing_if summary paths')
    # unknown member branch: the code that pushes the new record - the fallback closure of Members::apply, or the
    # paths of apply itself that reach the push when it is written inline
    parent = f.fn('member::Members::apply')
    is_push = lambda res: res.endswith('Vec::<member::Member<T>>::push') or strip_generics(res) == 'alloc::vec::Vec::push'
    regs = []
    for c in [parent] + list(f.closures_of('member::Members::apply')):
        if any(is_push(t['res']) for _, t in f.calls_deep(c)):
            regs.append(c)
    if not regs:
        rep.anchor_missing('C08-R4', 'registration code (push of the new record) of Members::apply')
    nreg = 0
    for reg in regs:
        for p in ctx.paths(f, reg, 'none'):
            if p.end != 'return' or not any(is_push(e['res']) for e in p.calls()):
                continue
            nreg += 1
            calls = {c['id']: c for c in p.calls()}
            s = p.ret
            ian = q.agg_field(s, 'is_active_now')
            good = ian is not None and ian[0] == 'call' and calls[ian[1]]['res'] == 'member::Member::is_active' and \
                q.agg_field(s, 'changed_active_set') == ian and q.agg_field(s, 'apply_successful') == ('const', 'bool', 1, 'true')
            act = [c for c in p.conds() if c['expr'] == ian]
            an = q.cond_truth(act[-1]) if act else None
            naw = [w for w in p.writes() if w['place'] == q.self_field('num_active') or
                   q.field_path(w['place'])[1][-1:] == ['num_active'] or
                   (w['place'][0] == 'deref' and (q.upvar_of(reg, w['place'][1]) or '').endswith('num_active'))]
            if an is True:
                good = good and len(naw) == 1 and naw[0]['value'][0] == 'call' and \
                    calls[naw[0]['value'][1]]['res'].endswith('saturating_add')
            else:
                good = good and not naw
            rep.check(good, 'C08-R4', 'member::Members::apply', 'new record: changed_active_set = is_active_now = update.is_active(); '
                      'num_active + 1 iff active', construct='register:%s' % an, facts={'summary': show(s, reg)})
    rep.floor('C08-R4', nreg, 2, 'registration paths of Members::apply')
    w = set(eff.writers_of('member::Members', 'num_active'))
    rep.check(w <= {'member::Members::apply_existing_if', 'member::Members::apply::{closure#1}', 'member::Members::apply'}
              or all(x.startswith('member::Members::apply') for x in w), 'C08-R4', 'member::Members',
              'num_active is written only by apply / apply_existing_if', construct='num_active-writers',
              facts={'writers': sorted(w)})
    check_remove_predicate(ctx, f, rep, 'C08-R4')


def check_remove_predicate(ctx, f, rep, rule):
    """The position() predicate of Members::remove_if_down is `member.id == given && member.state == Down`."""
    rb = f.fn('member::Members::remove_if_down')
    pred = None
    for p in ctx.paths(f, rb, 'none'):
        for e in p.calls():
            if e['res'].endswith('Iterator>::position') or e['decl'].endswith('Iterator::position'):
                clo = e['args'][1]
                if clo[0] == 'agg' and clo[1] == 'closure':
                    pred = f.fn(clo[2])
    if pred is None:
        # no position() closure: the test is written inline in a loop over the records -
        # `for (pos, m) in inner.iter().enumerate() { if m.id == *id && m.state == Down { return Some(swap_remove(pos)) } }`
        n = 0
        good = True
        for p in ctx.paths(f, rb, 'none'):
            calls = {c['id']: c for c in p.calls()}
            for i, e in enumerate(p.events):
                if e['kind'] != 'call' or not e['res'].endswith('::swap_remove'):
                    continue
                n += 1
                nx = [k for k in range(i) if p.events[k]['kind'] == 'call' and p.events[k]['res'].endswith('Iterator>::next')]
                if not nx:
                    good = False
                    continue
                item = ('call', p.events[nx[-1]]['id'])
                of_item = lambda v: q.mentions(v, lambda y: y == item)
                id_eq = down = None
                for c in p.events[nx[-1]:i]:
                    if c['kind'] != 'cond':
                        continue
                    es = q.eq_sides(c['expr'])
                    if es and any(x[0] == 'load' and q.field_path(x[1])[1][-1:] == ['id'] and of_item(x) for x in es[1:]) and \
                            any(x == ('load', ('deref', ('param', 0, 2)), 0) or q.is_param(x, 2) for x in es[1:]):
                        id_eq = (q.cond_truth(c) == es[0])
                    vs = q.variant_test(f, c, lambda x: x[0] == 'load' and q.field_path(x[1])[1][-1:] == ['state'] and of_item(x))
                    if vs is not None:
                        down = True if vs == {'Down'} else (False if 'Down' not in vs else down)
                good = good and id_eq is True and down is True and of_item(e['args'][1])
        rep.check(good and n >= 1, rule, rb.nname, 'removal predicate is `id == given && state == Down` (tested inline on the '
                  'record that is then removed)', construct='remove-predicate')
        if n == 0:
            rep.anchor_missing(rule, 'removal site (swap_remove) of remove_if_down')
        return
    ps = ctx.paths(f, pred, 'small')
    good = bool(ps)
    saw_true = False
    for p in ps:
        # collect what the path establishes
        id_eq = None
        down = None
        is_state = lambda x: x[0] == 'load' and q.field_path(x[1])[1][-1:] == ['state']
        for c in p.conds():
            es = q.eq_sides(c['expr'])
            if es:
                is_eq, a, b = es
                sides = (a, b)
                if any(x[0] == 'load' and q.field_path(x[1])[1][-1:] == ['id'] for x in sides):
                    id_eq = (q.cond_truth(c) == is_eq)
            vs = q.variant_test(f, c, is_state)
            if vs is not None:
                down = True if vs == {'Down'} else (False if 'Down' not in vs else down)
        r = p.ret
        if r[0] == 'const':
            res_true = bool(r[2])
            if res_true:
                good = good and id_eq is True and down is True
                saw_true = True
        else:
            es = q.eq_sides(r)
            # result is itself the remaining conjunct
            if es and es[0] and any(q.is_variant(x, 'State', 'Down') for x in es[1:]) and \
                    any(x[0] == 'load' and q.field_path(x[1])[1][-1:] == ['state'] for x in es[1:]):
                good = good and id_eq is True
                saw_true = True
            elif es and es[0] and any(x[0] == 'load' and q.field_path(x[1])[1][-1:] == ['id'] for x in es[1:]):
                good = good and down is True
                saw_true = True
            else:
                good = False
    rep.check(good and saw_true, rule, pred.nname, 'removal predicate is `id == given && state == Down`',
              site=pred.raw['span'], construct='remove-predicate')


def single_path_fn(ctx, f, rep, fn, state, notif, rule='C08-R5'):
    b = f.fn(fn)
    ps = [p for p in ctx.paths(f, b, 'none') if p.end == 'return']
    good = len(ps) >= 1
    for p in ps:
        ws = [w for w in p.writes() if w['place'] == q.self_field('connection_state')]
        ns = [q.variant_name(e['argvals'][1]) for e in p.calls() if e['decl'] == 'runtime::Runtime::notify']
        ns = [x for x in ns if x in ('Active', 'Idle', 'Defunct', 'Rejoin', 'MemberUp', 'MemberDown', 'Rename')]
        good = good and len(ws) == 1 and q.is_variant(ws[0]['value'], 'ConnectionState', state) and \
            ns == ([notif] if notif else [])
    rep.check(good, rule, fn, 'writes connection_state := %s exactly once and notifies %s exactly once on every path'
              % (state, notif or 'nothing'), site=b.raw['span'], construct='pairing')


def exact_zero_split(p):
    """Every test on the number of active members on this path splits at zero exactly (x == 0 | x > 0), not at one."""
    term = q.num_active_term(p)
    for c in p.conds():
        e, t = q.norm_bool(c)
        if e[0] != 'binop' or not (term(e[2]) or term(e[3])):
            continue
        k = e[3] if term(e[2]) else e[2]
        k = q.peel(k)
        if k[0] != 'const' or k[2] is None:
            return False
        op = e[1] if term(e[2]) else {'Gt': 'Lt', 'Ge': 'Le', 'Lt': 'Gt', 'Le': 'Ge', 'Eq': 'Eq', 'Ne': 'Ne'}[e[1]]
        if (op, k[2]) not in (('Eq', 0), ('Ne', 0), ('Gt', 0), ('Le', 0), ('Ge', 1), ('Lt', 1)):
            return False
    return True


def r5_state_machine(ctx, f, rep, eff):
    rep.rule('C08-R5', 'connection_state is written only by become_connected (->Connected, Active), become_disconnected '
                       '(->Disconnected, Idle), become_undead (->Undead, Defunct) and reset (->Disconnected, silent); '
                       'become_connected is called only on Disconnected && num_active() > 0, become_disconnected only on '
                       'Connected && num_active() == 0, become_undead only from leave_cluster and from handle_self_update '
                       'when attempt_rejoin returned false; Rejoin is notified exactly when change_identity succeeded')
    w = sorted(eff.writers_of('Foca', 'connection_state'))
    rep.check(w == ['Foca::become_connected', 'Foca::become_disconnected', 'Foca::become_undead', 'Foca::reset'],
              'C08-R5', 'Foca', 'writers of connection_state', construct='writers', facts={'writers': w})
    single_path_fn(ctx, f, rep, 'Foca::become_connected', 'Connected', 'Active')
    single_path_fn(ctx, f, rep, 'Foca::become_disconnected', 'Disconnected', 'Idle')
    single_path_fn(ctx, f, rep, 'Foca::become_undead', 'Undead', 'Defunct')
    single_path_fn(ctx, f, rep, 'Foca::reset', 'Disconnected', None)
    b = f.fn('Foca::adjust_connection_state')
    n = 0
    for p in ctx.paths(f, b, 'none'):
        calls = {c['id']: c for c in p.calls()}
        st = None
        na = None
        for c in p.conds():
            if c['expr'][0] == 'discr' and q.is_self_field_load(c['expr'][1], 'connection_state'):
                st = q.cond_variants(f, c)
            z = q.zero_test(c, q.num_active_term(p))
            if z:
                na = z
        tr = [e['res'] for e in p.calls() if e['res'] in ('Foca::become_connected', 'Foca::become_disconnected', 'Foca::become_undead')]
        want = []
        if st == {'Disconnected'} and na == 'pos':
            want = ['Foca::become_connected']
        if st == {'Connected'} and na == 'zero':
            want = ['Foca::become_disconnected']
        n += 1
        rep.check(tr == want, 'C08-R5', b.nname, 'state %s, num_active %s -> %s' % (sorted(st or []), na, want or 'no transition'),
                  construct='adjust:%s:%s' % (sorted(st or []), na), facts={'transitions': tr})
        if st in ({'Disconnected'}, {'Connected'}):
            # the table is exact: the only thing consulted is whether the number of active members is zero (a threshold
            # of two would leave an instance with a single peer idle for ever)
            rep.check(na in ('pos', 'zero') and exact_zero_split(p), 'C08-R5', b.nname, 'the connection state follows "is there any '
                      'active member": the test is num_active == 0 / > 0 and nothing else', construct='adjust-exact:%s' % sorted(st))
    rep.floor('C08-R5', n, 5, 'adjust_connection_state paths')
    for fn, want in (('Foca::adjust_connection_state', ['Foca::apply_many', 'Foca::handle_timer']),
                     ('Foca::become_connected', ['Foca::adjust_connection_state']),
                     ('Foca::become_disconnected', ['Foca::adjust_connection_state']),
                     ('Foca::become_undead', ['Foca::handle_self_update', 'Foca::leave_cluster']),
                     ('Foca::reset', ['Foca::change_identity', 'Foca::reuse_down_identity'])):
        cs = sorted({c[0].nname for c in f.callers_of(lambda x: x == fn)})
        rep.check(cs == want, 'C08-R5', fn, 'called only from %s' % want, construct='callers', facts={'callers': cs})
    # leave_cluster declares the own identity Down: whatever the state it is called in, every path that does not fail ends
    # in become_undead (Defunct) - an early return for "nothing to tell anybody" leaves the instance alive
    lc = f.fn('Foca::leave_cluster')
    nl = 0
    for p in ctx.paths(f, lc, 'none'):
        if p.end != 'return' or q.path_is_error_propagation(p):
            continue
        nl += 1
        rep.check(any(e['res'] == 'Foca::become_undead' for e in p.calls()), 'C08-R5', lc.nname,
                  'leave_cluster always ends in become_undead (Defunct)', construct='leave-always-defunct')
    rep.floor('C08-R5', nl, 1, 'returning paths of leave_cluster')
    # become_undead in handle_self_update: only when attempt_rejoin returned Ok(false)
    hs = f.fn('Foca::handle_self_update')
    n = 0
    for p in ctx.paths(f, hs, 'none'):
        calls = {c['id']: c for c in p.calls()}
        for i, e in enumerate(p.events):
            if e['kind'] == 'call' and e['res'] == 'Foca::become_undead':
                n += 1
                ar = [c for c in p.events[:i] if c['kind'] == 'call' and c['res'] == 'Foca::attempt_rejoin']
                good = False
                if ar:
                    okmap = q.try_ok_of(p, i)
                    good = okmap.get(ar[-1]['id']) == 'ok'
                    # the Ok value tested false
                    vals = [c for c in q.conds_before(p, i) if c.get('dty') == 'bool' and q.ok_payload_of(p, c['expr']) is not None]
                    good = good and bool(vals) and q.cond_truth(vals[-1]) is False
                rep.check(good, 'C08-R5', hs.nname, 'become_undead only after attempt_rejoin returned Ok(false)',
                          site=e['span'], construct='undead-guard')
    rep.floor('C08-R5', n, 2, 'become_undead call occurrences in handle_self_update')
    ar = f.fn('Foca::attempt_rejoin')
    n = 0
    for p in ctx.paths(f, ar, 'none'):
        if p.end != 'return':
            continue
        notes = [e for e in p.calls() if e['decl'] == 'runtime::Runtime::notify']
        ci = [e for e in p.calls() if e['res'] == 'Foca::change_identity']
        okmap = q.try_ok_of(p, len(p.events))
        succeeded = bool(ci) and okmap.get(ci[0]['id']) == 'ok'
        n += 1
        good = (len(notes) == 1) == succeeded
        if succeeded and notes:
            v = notes[0]['argvals'][1]
            good = good and q.variant_name(v) == 'Rejoin' and v[5][0] == ci[0]['args'][1]
            good = good and p.ret[0] == 'agg' and p.ret[3] == 'Ok' and p.ret[5][0] == ('const', 'bool', 1, 'true')
        elif not q.path_is_error_propagation(p):
            good = good and p.ret[0] == 'agg' and p.ret[5][0] == ('const', 'bool', 0, 'false')
        rep.check(good, 'C08-R5', ar.nname, 'Rejoin(new identity) is notified exactly when change_identity succeeded, and '
                  'only then true is returned', construct='rejoin:%s' % succeeded)
    rep.floor('C08-R5', n, 4, 'attempt_rejoin paths')


def r6_reevaluate(ctx, f, rep):
    rep.rule('C08-R6', 'the connection state machine is re-evaluated after every change of the active set: every function '
                       'that applies updates calls adjust_connection_state after its last application on every normal '
                       'path; exceptions checked structurally: a probe failure applies State::Suspect (active set can '
                       'only grow) and the inactive-sender return of handle_data follows an application of State::Alive '
                       'that reported "not active"')
    # apply_many
    b = f.fn('Foca::apply_many')
    n = 0
    for p in ctx.paths(f, b, 'none'):
        if p.end != 'return' or q.path_is_error_propagation(p):
            continue
        n += 1
        idx = [i for i, e in enumerate(p.events) if e['kind'] == 'call' and e['res'] in ('Foca::apply_update', 'Foca::handle_self_update')]
        adj = [i for i, e in enumerate(p.events) if e['kind'] == 'call' and e['res'] == 'Foca::adjust_connection_state']
        rep.check(bool(adj) and (not idx or adj[-1] > idx[-1]), 'C08-R6', b.nname,
                  'adjust_connection_state follows the last application', construct='apply_many')
    rep.floor('C08-R6', n, 2, 'normal paths of apply_many')
    b = f.fn('Foca::handle_timer')
    n = 0
    for p in ctx.paths(f, b, 'none'):
        if p.end != 'return' or q.path_is_error_propagation(p):
            continue
        idx = [i for i, e in enumerate(p.events) if e['kind'] == 'call' and e['res'] == 'Foca::handle_apply_summary']
        if not idx:
            continue
        n += 1
        adj = [i for i, e in enumerate(p.events) if e['kind'] == 'call' and e['res'] == 'Foca::adjust_connection_state']
        rep.check(bool(adj) and adj[-1] > idx[-1], 'C08-R6', b.nname, 'suspicion timeout: adjust_connection_state follows '
                  'the application', construct='handle_timer')
    rep.floor('C08-R6', n, 1, 'normal paths of handle_timer applying a summary')
    b = f.fn('Foca::probe_random_member')
    n = 0
    for p in ctx.paths(f, b, 'ctor'):
        for e in p.calls():
            if e['res'] == 'member::Members::apply_existing_if':
                n += 1
                m = e['args'][1]
                rep.check(q.is_variant(q.agg_field(m, 'state') if m[0] == 'agg' else ('x',), 'State', 'Suspect'),
                          'C08-R6', b.nname, 'exception (i): the probe-failure path applies a constant State::Suspect',
                          site=e['span'], construct='probe-exception', facts={'applied': show(m, b)})
                break
    rep.floor('C08-R6', n, 1, 'probe failure application')
    b = f.fn('Foca::handle_data')
    n = 0
    for p in ctx.paths(f, b, 'ctor'):
        if p.end != 'return' or q.path_is_error_propagation(p):
            continue
        au = [(i, e) for i, e in enumerate(p.events) if e['kind'] == 'call' and e['res'] == 'Foca::apply_update']
        if not au:
            continue
        n += 1
        i, e = au[-1]
        am = [j for j, x in enumerate(p.events) if x['kind'] == 'call' and x['res'] == 'Foca::apply_many' and j > i]
        if am:
            rep.ok('C08-R6', b.nname, 'sender update is followed by apply_many (which re-evaluates)', site=e['span'])
            continue
        m = e['args'][1]
        alive = m[0] == 'agg' and q.is_variant(q.agg_field(m, 'state'), 'State', 'Alive')
        # the Ok(bool) it returned tested false
        vals = [c for c in p.events[i:] if c['kind'] == 'cond' and c.get('dty') == 'bool' and q.ok_payload_of(p, c['expr']) is not None]
        inactive = bool(vals) and q.cond_truth(vals[0]) is False
        rep.check(alive and inactive, 'C08-R6', b.nname, 'exception (ii): return without re-evaluation only after applying '
                  'State::Alive that reported the sender inactive', site=e['span'], construct='inactive-sender-exception')
    rep.floor('C08-R6', n, 2, 'normal handle_data paths applying the sender')


def r7_accumulating(ctx, f, rep):
    rep.rule('C08-R7', 'AccumulatingRuntime is three FIFOs: each Runtime method does one push_back on its own queue, each '
                       'to_* accessor one pop_front on the same queue; notify stores to_owned() (identity on variant '
                       'names and on the order of their payloads); send_to stores exactly the bytes given')
    AR = 'runtime::AccumulatingRuntime'
    pairs = [('<%s as runtime::Runtime>::notify' % AR, 'notifications', AR + '::to_notify'),
             ('<%s as runtime::Runtime>::send_to' % AR, 'to_send', AR + '::to_send'),
             ('<%s as runtime::Runtime>::submit_after' % AR, 'to_schedule', AR + '::to_schedule')]
    for put, field, get in pairs:
        pb, gb = f.fn(put), f.fn(get)
        pp = [p for p in ctx.paths(f, pb, 'none') if p.end == 'return']
        gp = [p for p in ctx.paths(f, gb, 'none') if p.end == 'return']
        pushes = [e for p in pp for e in p.calls() if 'VecDeque' in e['res'] and e['res'].split('::')[-1].startswith('push')]
        pops = [e for p in gp for e in p.calls() if 'VecDeque' in e['res'] and e['res'].split('::')[-1].startswith('pop')]
        good = len(pp) == 1 and len(pushes) == 1 and pushes[0]['res'].endswith('push_back') and \
            pushes[0]['args'][0] == ('ref', q.self_field(field), True)
        good = good and len(gp) == 1 and len(pops) == 1 and pops[0]['res'].endswith('pop_front') and \
            pops[0]['args'][0] == ('ref', q.self_field(field), True) and gp[0].ret == ('call', pops[0]['id'])
        rep.check(good, 'C08-R7', put, 'push_back on %s / pop_front on %s' % (field, field), site=pb.raw['span'],
                  construct='fifo:' + field)
        if field == 'notifications' and good:
            calls = {c['id']: c for c in pp[0].calls()}
            v = pushes[0]['args'][1]
            rep.check(v[0] == 'call' and calls[v[1]]['res'] == 'runtime::Notification::to_owned' and
                      calls[v[1]]['args'][0] == ('param', 0, 2), 'C08-R7', put, 'stores notification.to_owned()',
                      construct='notify-value')
        if field == 'to_send' and good:
            p = pp[0]
            calls = {c['id']: c for c in p.calls()}
            names = [c['res'].split('::')[-1] for c in p.calls()]
            v = pushes[0]['args'][1]
            ext = [c for c in p.calls() if c['res'] == 'bytes::BytesMut::extend_from_slice']
            good2 = names == ['extend_from_slice', 'split', 'freeze', 'push_back'] and ext[0]['args'][1] in (('param', 0, 3), ('ref', ('deref', ('param', 0, 3)), False)) \
                and v[0] == 'agg' and v[5][0] == ('param', 0, 2) and v[5][1][0] == 'call' and \
                calls[v[5][1][1]]['res'] == 'bytes::BytesMut::freeze'
            rep.check(good2, 'C08-R7', put, 'stores (to, copy of exactly the bytes given): extend_from_slice(data) -> '
                      'split() -> freeze()', construct='send_to-value', facts={'calls': names})
        if field == 'to_schedule' and good:
            v = pushes[0]['args'][1]
            rep.check(v[0] == 'agg' and set(v[5]) == {('param', 0, 2), ('param', 0, 3)}, 'C08-R7', put,
                      'stores the (delay, timer) it was given', construct='submit-value')
    # to_owned is the identity on variant names
    b = f.fn('runtime::Notification::to_owned')
    seen = {}
    for p in ctx.paths(f, b, 'none'):
        if p.end != 'return':
            continue
        vs = None
        for c in p.conds():
            cv = q.cond_variants(f, c)
            if cv is not None and c['expr'][1] == ('param', 0, 1):
                vs = cv if vs is None else vs & cv
        if vs and len(vs) == 1:
            seen[next(iter(vs))] = q.variant_name(p.ret)
            # payload i of the owned variant is (a clone of) payload i of the borrowed one
            if p.ret[0] == 'agg':
                for i, v in zip(p.ret[4], p.ret[5]):
                    src = payload_source(v)
                    rep.check(src is not None and src[1] == ('param', 0, 1) and src[2] == i and src[3] == p.ret[3],
                              'C08-R7', b.nname, 'to_owned: field %s of the owned %s is field %s of the borrowed one'
                              % (i, p.ret[3], i), construct='to_owned:%s.%s' % (p.ret[3], i),
                              facts={'value': repr(v)[:200]})
    allv = set(f.variant_names(NOTIF))
    rep.check(set(seen) == allv and all(k == v for k, v in seen.items()), 'C08-R7', b.nname,
              'to_owned maps every variant to the variant of the same name', construct='to_owned', facts=seen)


def payload_source(v):
    """The ('fieldv', base, idx, variant) a value is a copy/clone/reborrow of, else None."""
    for _ in range(8):
        if not isinstance(v, tuple) or not v:
            return None
        if v[0] == 'fieldv':
            return v
        if v[0] in ('load', 'deref', 'ref', 'cast'):
            v = v[1]
        else:
            return None
    return None


def check(ctx):
    rep = ctx.report
    rep.explanation = (
        'Static decision of: where each notification kind can be produced (R1); the guards, payload provenance and '
        'order of MemberUp/MemberDown/Rename in handle_apply_summary, as an iff over all its paths (R2); that no '
        'ApplySummary is dropped between Members::apply* and handle_apply_summary (R3); honesty of the summary flags and '
        'of num_active (R4); the connection state machine: writers, write/notify pairing, transition guards, '
        'Rejoin/Defunct conditions (R5); re-evaluation after every change of the active set with two structurally '
        'checked exceptions (R6); AccumulatingRuntime as three FIFOs (R7). NOT decided: the replay equation as a '
        'behaviour over histories.')
    rep.not_decided = ['replay of notifications equals iter_members() after every call (no history is replayed)']
    rep.assumptions = ['VecDeque push_back/pop_front are FIFO (std)', 'user Runtime receives calls in program order']
    for cfgname in ctx.configs(quick=('base',), thorough=('base', 'wire', 'nostd')):
        f = ctx.facts(cfgname)
        rep.cur_config = cfgname
        from . import common as _cm
        _cm.check_helpers(ctx, f, rep, 'C08-R0', {'Members::iter_active', 'Members::is_active'})
        _cm.check_state_fields(f, rep, 'C08-R0', ('members',))
        from . import common as _common
        _common.check_frame(f, rep, 'C08-R0')
        _common.check_derives(f, rep, 'C08-R0')
        eff = Effects(f)
        sites = notif_sites(ctx, f)
        r1_sites(ctx, f, rep, sites)
        r2_guards(ctx, f, rep)
        r3_summary_flow(ctx, f, rep)
        r4_flags(ctx, f, rep, eff)
        r5_state_machine(ctx, f, rep, eff)
        # the reaction to a TurnUndead (Defunct / Rejoin) is not called off by an error in the datagram's custom-broadcast tail
        from . import c12 as _c12
        _c12.r4b_tail_does_not_veto(ctx, f, rep, 'C08-R5')
        r6_reevaluate(ctx, f, rep)
        r7_accumulating(ctx, f, rep)
        from . import c10
        from .c09 import _Rename
        from .lib.symx import place_root
        c10.r4_rejoin_or_defunct(ctx, f, _Rename(rep, 'C10-R4', 'C08-R5'))
        eb = f.fn('member::Members::apply_existing_if')
        for p in ctx.paths(f, eb, 'none'):
            ws = [w for w in p.writes() if q.field_path(w['place'])[1][-1:] == ['id'] and place_root(w['place'])[0] == 'deref']
            if ws and p.end == 'return':
                conf = q.agg_field(p.ret[5][0], 'conflict')
                rep.check(q.variant_name(conf) == 'Replaced' and conf[5][0] == ws[0].get('old'), 'C08-R2', eb.nname,
                          'Rename\'s first identity is the one that was stored before the replacement', site=ws[0]['span'],
                          construct='replaced-reports-old')
    rep.cur_config = None

"""C14 - round-robin probing: the structural half.

Decided here (all from MIR, no run): each probe round asks Members::next exactly once and pings exactly the record it
returns; that record is found with the is_active predicate (never Down) and never bears the own address; and the
*scan/cursor mechanism* of Members::next is the cyclic first-active-at-or-after-the-cursor search with cursor := found + 1,
a reshuffle exactly when the cursor has left the vector, and nothing else reordering the vector or moving the cursor.

Not decided here: the number 2n-1 as a count over runs.  It follows from the decided mechanism by the pen-and-paper
argument in DESIGN.md (10.7): the rules are the hypotheses of that lemma, and each one is necessary for the bound
(the mutant corpus has a starving variant for every rule).
"""
from .lib import query as q
from .lib.effects import Effects
from .lib.facts import strip_generics
from .lib.symx import show
from . import c09, c12, common

CURSOR = q.self_field('cursor')
INNER = q.self_field('inner')
USIZE_MAX = 18446744073709551615
LEN = ('LEN',)


class Unreadable(Exception):
    pass


def subst(v, env):
    """Replace reads of closure captures (`*capture_k`, `capture_k`) by the values captured at the construction site."""
    if not isinstance(v, tuple):
        return v
    if v[0] == 'load' and v[1][0] == 'deref' and v[1][1][0] == 'fieldv' and v[1][1][1] == ('param', 0, 1):
        k = int(v[1][1][2])
        if k < len(env['vals']):
            return env['vals'][k]
    if v[0] == 'ref' and v[1][0] == 'deref' and v[1][1][0] == 'fieldv' and v[1][1][1] == ('param', 0, 1):
        k = int(v[1][1][2])
        if k < len(env['refs']):
            return env['refs'][k]
    return tuple(subst(x, env) for x in v)


def is_position(c):
    return (c['res'] or '').endswith('::position') and c['decl'] == 'core::iter::Iterator::position'


def is_search(c):
    return is_position(c) or c['res'] in ('core::option::Option::map', 'core::option::Option::or_else', 'core::option::Option::or')


class Scan:
    """Normal form of an Option<usize> expression that searches self.inner for an active record: a list of segments
    (lo, hi) searched in order, each yielding the *absolute* index of the first active record in [lo, hi)."""

    def __init__(self, ctx, f):
        self.ctx, self.f = ctx, f

    def is_active_pred(self, clo):
        if not (clo[0] == 'agg' and clo[1] == 'closure'):
            raise Unreadable('search predicate is not a closure')
        cb = self.f.fn(clo[2])
        ps = [p for p in self.ctx.paths(self.f, cb, 'none') if p.end == 'return']
        if len(ps) != 1:
            return False
        p = ps[0]
        cs = p.calls()
        return len(cs) == 1 and p.ret == ('call', cs[0]['id']) and cs[0]['res'] == 'member::Member::is_active' and \
            cs[0]['args'][0] in (('ref', ('deref', ('param', 0, 2)), False), ('param', 0, 2))

    def inner_iter(self, calls, v, env):
        """v is `self.inner.iter()` (through Deref)"""
        if not (v[0] == 'call' and v[1] in calls and calls[v[1]]['res'] == 'core::slice::<impl [T]>::iter'):
            return False
        a = subst(calls[v[1]]['args'][0], env)
        if a == ('ref', INNER, False):
            return True
        if a[0] == 'ref' and a[1][0] == 'deref' and a[1][1][0] == 'call' and a[1][1][1] in calls:
            d = calls[a[1][1][1]]
            return d['res'] == '<alloc::vec::Vec as core::ops::Deref>::deref' and subst(d['args'][0], env) == ('ref', INNER, False)
        return False

    def inner_slice_iter(self, calls, v, env):
        """v is `self.inner[n..].iter()` / `self.inner[..n].iter()`: (lo, hi, base) or None"""
        if not (v[0] == 'call' and v[1] in calls and calls[v[1]]['res'] == 'core::slice::<impl [T]>::iter'):
            return None
        a = subst(calls[v[1]]['args'][0], env)
        if not (a[0] == 'ref' and a[1][0] == 'deref' and a[1][1][0] == 'call' and a[1][1][1] in calls):
            return None
        ix = calls[a[1][1][1]]
        if not ix['res'].endswith('core::ops::Index>::index'):
            return None
        base = subst(ix['args'][0], env)
        whole = base == ('ref', INNER, False)
        if not whole and base[0] == 'ref' and base[1][0] == 'deref' and base[1][1][0] == 'call' and base[1][1][1] in calls:
            d = calls[base[1][1][1]]
            whole = d['res'] == '<alloc::vec::Vec as core::ops::Deref>::deref' and subst(d['args'][0], env) == ('ref', INNER, False)
        if not whole:
            return None
        rng = subst(ix['argvals'][1], env)
        zero = ('const', 'usize', 0, '0_usize')
        if rng[0] == 'agg' and 'RangeFrom' in str(rng[2]):
            n = q.agg_field(rng, 'start')
            return (n, LEN, n) if n is not None else None
        if rng[0] == 'agg' and 'RangeTo' in str(rng[2]) and 'Inclusive' not in str(rng[2]):
            n = q.agg_field(rng, 'end')
            return (zero, n, zero) if n is not None else None
        return None

    def raw_position(self, calls, c, env):
        """position(<iterator over inner>, is_active) -> (lo, hi, base): indices searched and what the result counts from"""
        it = c['derefs'][0] if c['derefs'][0] is not None else c['args'][0]
        if not self.is_active_pred(c['argvals'][1]):
            raise Unreadable('the search predicate is not Member::is_active')
        if self.inner_iter(calls, it, env):
            return (('const', 'usize', 0, '0_usize'), LEN, ('const', 'usize', 0, '0_usize'))
        sl = self.inner_slice_iter(calls, it, env)
        if sl is not None:
            return sl
        if it[0] == 'call' and it[1] in calls:
            ic = calls[it[1]]
            if ic['res'] == 'core::iter::Iterator::skip' and self.inner_iter(calls, ic['args'][0], env):
                n = subst(ic['argvals'][1], env)
                return (n, LEN, n)
            if ic['res'] == 'core::iter::Iterator::take' and self.inner_iter(calls, ic['args'][0], env):
                n = subst(ic['argvals'][1], env)
                return (('const', 'usize', 0, '0_usize'), n, ('const', 'usize', 0, '0_usize'))
        raise Unreadable('the iterator searched is not inner.iter() / .skip(n) / .take(n)')

    def closure_ret(self, clo):
        cb = self.f.fn(clo[2])
        ps = [p for p in self.ctx.paths(self.f, cb, 'none') if p.end == 'return']
        if len(ps) != 1:
            raise Unreadable('closure %s has %d returning paths' % (clo[2], len(ps)))
        env = {'vals': list(clo[5]), 'refs': []}
        return cb, ps[0], env

    def segs(self, calls, v, env, clo_args=None):
        if not (v[0] == 'call' and v[1] in calls):
            raise Unreadable('search result is not a call: %s' % (v,))
        c = calls[v[1]]
        argv = lambda i: c['argvals'][i]
        if is_position(c):
            lo, hi, base = self.raw_position(calls, c, env)
            if not q.is_const(base, 0):
                raise Unreadable('an offset search (skip) whose result is not mapped back to an absolute index')
            return [(lo, hi)]
        if c['res'] == 'core::option::Option::map':
            src = c['args'][0]
            if not (src[0] == 'call' and src[1] in calls and is_position(calls[src[1]])):
                raise Unreadable('Option::map over something that is not a position() result')
            lo, hi, base = self.raw_position(calls, calls[src[1]], env)
            clo = argv(1)
            cb, p, cenv = self.closure_ret(clo)
            r = subst(p.ret, cenv)
            if not (r[0] == 'binop' and r[1] == 'Add' and ('param', 0, 2) in (r[2], r[3])):
                raise Unreadable('the index correction is not `pos + offset`')
            off = r[3] if r[2] == ('param', 0, 2) else r[2]
            off = subst(off, env)
            if off != base:
                raise Unreadable('offset added (%s) is not the number of records skipped (%s)' % (off, base))
            return [(lo, hi)]
        if c['res'] in ('core::option::Option::or_else', 'core::option::Option::or'):
            first = self.segs(calls, c['args'][0], env)
            snd = argv(1)
            if snd[0] == 'agg' and snd[1] == 'closure':
                cb = self.f.fn(snd[2])
                ps = [p for p in self.ctx.paths(self.f, cb, 'none') if p.end == 'return']
                if len(ps) != 1:
                    raise Unreadable('fallback closure has %d returning paths' % len(ps))
                # captures: values (loaded at construction) and the references themselves
                raw = c['args'][1]
                cenv = {'vals': [subst(x, env) for x in snd[5]], 'refs': [subst(x, env) for x in raw[5]]}
                ccalls = {x['id']: x for x in ps[0].calls()}
                return first + self.segs(ccalls, ps[0].ret, cenv)
            return first + self.segs(calls, snd, env)
        raise Unreadable('unrecognised search combinator %s' % c['res'])


def is_single_option(calls, v):
    """the tested Option already combines the forward scan with its fallback (or_else / or)"""
    return v[0] == 'call' and v[1] in calls and calls[v[1]]['res'] in ('core::option::Option::or_else', 'core::option::Option::or')


def cursor_now(p, upto):
    """Value self.cursor holds just before event index `upto` on this path"""
    val = ('load', CURSOR, 0)
    for e in p.events[:upto]:
        if e['kind'] == 'write' and e['place'] == CURSOR:
            val = e['value']
    return val


def same_cursor(v, cur):
    if v == cur:
        return True
    # a load of the field at any epoch is the current value when no call in between could have changed it (Members::next
    # lends self.inner only); the enumerator forwards stores, so after `cursor = 0` reads show as the constant
    return v[0] == 'load' and v[1] == CURSOR and cur[0] == 'load' and cur[1] == CURSOR


def r1_one_ping_per_round(ctx, f, rep):
    rep.rule('C14-R1', 'each probe round pings exactly one member, the one Members::next returned: a probe tick asks '
                       'Members::next exactly once, starts a round and sends exactly one Ping to that record iff it yields one '
                       '(C12-R5 re-run); Members::next is called from nowhere else; the record never bears the own address '
                       'because no active record does (C09-R3 re-run)')
    c12.r5_suspect_once(ctx, f, c09._Rename(rep, 'C12-R5', 'C14-R1'))
    c09.r3_own_address(ctx, f, c09._Rename(rep, 'C09-R3', 'C14-R1'))


def r2_predicate(ctx, f, rep):
    rep.rule('C14-R2', 'never a Down member: Member::is_active is exactly {Alive, Suspect}, and it is the predicate of every '
                       'search in Members::next (R3 reads the searches)')
    b = f.fn('member::Member::is_active')
    tab = {}
    for p in ctx.paths(f, b, 'none'):
        if p.end != 'return':
            continue
        vs = set(f.variant_names('member::State'))
        for c in p.conds():
            t = q.variant_test(f, c, lambda x: x[0] == 'load' and q.field_path(x[1])[1][-1:] == ['state'])
            if t is not None:
                vs &= t
            else:
                cv = q.cond_variants(f, c)
                if cv:
                    vs &= cv
        for v in vs:
            tab.setdefault(v, set()).add(p.ret if p.ret[0] == 'const' else ('?',))
    want = {'Alive': 1, 'Suspect': 1, 'Down': 0}
    good = set(tab) == set(want) and all(len(tab[k]) == 1 and next(iter(tab[k]))[0] == 'const' and
                                         next(iter(tab[k]))[2] == want[k] for k in want)
    rep.check(good, 'C14-R2', b.nname, 'is_active() is true exactly for Alive and Suspect', construct='is-active-table',
              facts={'table': {k: sorted(str(x) for x in v) for k, v in tab.items()}})


def r3_r4_next(ctx, f, rep):
    rep.rule('C14-R3', 'Members::next searches cyclically from the cursor: the first active record at an index in '
                       '[cursor, len), else the first active one in [0, cursor), where cursor is the value the field holds at '
                       'that moment (0 right after a reshuffle); it returns inner.get(that index), and None only when the '
                       'search found nothing')
    rep.rule('C14-R4', 'cursor discipline inside Members::next: when the cursor has left the vector (cursor >= len) - and '
                       'only then - the vector is reshuffled and the cursor reset to 0 before the search; a record found at '
                       'or after the cursor moves the cursor to exactly index + 1; a record found by wrapping around sets '
                       'the cursor past the end (usize::MAX, forcing the reshuffle) or to index + 1; nothing else writes '
                       'the cursor or touches the vector on the way')
    b = f.fn('member::Members::next')
    sc = Scan(ctx, f)
    n = n_some = n_reset = 0
    for p in ctx.paths(f, b, 'none'):
        if p.end != 'return':
            continue
        n += 1
        calls = {c['id']: c for c in p.calls()}
        # --- the reshuffle test
        reset = None
        reset_at = None
        for i, e in enumerate(p.events):
            if e['kind'] != 'cond':
                continue
            cn = q.cmp_norm(e)
            if cn is None:
                continue
            rel, a, b_ = cn
            is_len = lambda x: x[0] == 'call' and x[1] in calls and calls[x[1]]['res'] == 'alloc::vec::Vec::len' and \
                calls[x[1]]['args'][0] == ('ref', INNER, False)
            # `cursor >= len` (as written) or `cursor > len`: with the latter a cursor equal to len falls into the wrap
            # branch, which sets it past the end - the same round later; both keep the lemma
            if rel in ('ge', 'gt') and a == ('load', CURSOR, 0) and is_len(b_):
                reset, reset_at = True, i
                break
            if rel in ('ge', 'gt') and is_len(a) and b_ == ('load', CURSOR, 0):
                reset, reset_at = False, i
                break
        if reset is None:
            rep.violation('C14-R4', b.nname, 'no-bounds-test', 'a path through Members::next does not compare the cursor with '
                          'inner.len() first: a cursor past the end would never be reset', facts={'path_ret': show(p.ret, b)})
            continue
        shuf = [(i, e) for i, e in enumerate(p.events) if e['kind'] == 'call' and (e['res'] or e['decl']).endswith('::shuffle')]
        # the search = the Option whose discriminant decides between Some and None
        # (the fallback may be spelled `a.or_else(|| b)` - one Option - or `match a { Some(p) => .., None => b }` - a chain of
        # tests, all but the last of which found nothing)
        tests = []
        for i, e in enumerate(p.events):
            if e['kind'] == 'cond':
                t = q.option_test(f, p, e)
                if t is not None and t[0][0] == 'call' and t[0][1] in calls and is_search(calls[t[0][1]]):
                    tests.append((i, t[0], t[1]))
        if not tests:
            rep.violation('C14-R3', b.nname, 'no-search', 'no Option-valued search result is tested on this path')
            continue
        if any(k != 'None' for _, _, k in tests[:-1]):
            rep.violation('C14-R3', b.nname, 'search-after-found', 'a further search is made after one already found a record')
            continue
        opt_at, opt, known = tests[-1]
        first_search = min([i for i, e in enumerate(p.events) if e['kind'] == 'call' and
                            e['res'] in ('core::iter::Iterator::position', 'core::iter::Iterator::skip')] or [opt_at])
        wr_before = [(i, e) for i, e in enumerate(p.events[:first_search]) if e['kind'] == 'write' and e['place'] == CURSOR]
        if reset:
            n_reset += 1
            good = len(shuf) == 1 and reset_at < shuf[0][0] < first_search and len(wr_before) == 1 and \
                q.is_const(wr_before[0][1]['value'], 0) and wr_before[0][0] < first_search
            if good:
                sa = shuf[0][1]['args'][0]
                # the slice shuffled is the whole of self.inner
                good = q.mentions(sa, lambda x: x[0] == 'call' and x[1] in calls and
                                  calls[x[1]]['res'] == '<alloc::vec::Vec as core::ops::DerefMut>::deref_mut' and
                                  calls[x[1]]['args'][0] == ('ref', INNER, True)) or sa == ('ref', INNER, True)
            rep.check(good, 'C14-R4', b.nname, 'cursor >= len: the whole vector is reshuffled once and the cursor reset to 0 '
                      'before the search', construct='reset-when-past-end', site=p.events[reset_at]['span'])
        else:
            rep.check(not shuf and not wr_before, 'C14-R4', b.nname, 'cursor < len: no reshuffle and no cursor write before the '
                      'search (a pass is not cut short)', construct='no-reset-inside-a-pass', site=p.events[reset_at]['span'])
        cur = cursor_now(p, first_search)
        # --- the search itself
        try:
            segs = []
            for _, E, _k in tests:
                segs += sc.segs(calls, E, {'vals': [], 'refs': []})
        except Unreadable as e:
            rep.violation('C14-R3', b.nname, 'search-unreadable', 'the search of Members::next can no longer be read as a '
                          'cyclic first-active scan: %s' % e, site=p.events[opt_at]['span'])
            continue
        zero = lambda x: q.is_const(x, 0)
        ok = len(segs) >= 1 and same_cursor(segs[0][0], cur) and segs[0][1] == LEN
        rest = segs[1:]
        if ok:
            if zero(cur):
                # after a reset the forward scan already covers everything; a second segment may only be empty / redundant
                ok = all(zero(lo) and (same_cursor(hi, cur) or hi == LEN) for lo, hi in rest)
            elif known == 'Some':
                # a path that found its record may have stopped after the forward scan (match-form fallback): a prefix of the
                # cyclic scan; the paths that found nothing must have searched all of it (below)
                ok = len(rest) <= 1 and all(zero(lo) and same_cursor(hi, cur) for lo, hi in rest)
            else:
                ok = len(rest) == 1 and zero(rest[0][0]) and same_cursor(rest[0][1], cur)
        rep.check(ok, 'C14-R3', b.nname, 'the search is [cursor, len) then [0, cursor) with the is_active predicate',
                  construct='cyclic-scan:%s' % ('after-reset' if reset else 'in-pass'), site=p.events[opt_at]['span'],
                  facts={'segments': [(show(lo, b), 'len' if hi == LEN else show(hi, b)) for lo, hi in segs],
                         'cursor': show(cur, b)})
        # --- outcome
        wr_after = [(i, e) for i, e in enumerate(p.events) if i > opt_at and e['kind'] == 'write' and e['place'] == CURSOR]
        mut_inner = [e for i, e in enumerate(p.events) if i > first_search and e['kind'] == 'call' and
                     any(a == ('ref', INNER, True) for a in e['args'])]
        rep.check(not mut_inner, 'C14-R4', b.nname, 'the vector is not modified after the search', construct='no-late-mutation')
        # the index found: `Some(pos) = opt` or `opt?`
        is_pos = lambda v: isinstance(v, tuple) and q.some_payload(p, v) == opt
        if known == 'None':
            rep.check(p.ret[0] == 'agg' or q.variant_name(p.ret) == 'None' or 'None' in show(p.ret, b), 'C14-R3', b.nname,
                      'nothing found: None is returned', construct='none-when-nothing-found')
            continue
        n_some += 1
        # returned record = inner.get(pos) / Some(&inner[pos])
        r = p.ret
        good = False
        if r[0] == 'call' and r[1] in calls and calls[r[1]]['res'] == 'core::slice::<impl [T]>::get':
            g = calls[r[1]]
            good = is_pos(g['args'][1]) and q.mentions(g['args'][0], lambda x: x[0] == 'call' and x[1] in calls and
                                                      calls[x[1]]['res'] == '<alloc::vec::Vec as core::ops::Deref>::deref'
                                                      and calls[x[1]]['args'][0] == ('ref', INNER, False))
        rep.check(good, 'C14-R3', b.nname, 'the record returned is inner.get(index found)', construct='returns-found-record',
                  facts={'ret': show(r, b)})
        # wrapped or not: the test pos < cursor
        wrapped = None
        for i, e in enumerate(p.events):
            if i <= opt_at or e['kind'] != 'cond':
                continue
            cn = q.cmp_norm(e)
            if cn is None:
                continue
            rel, a, b_ = cn
            if rel == 'gt' and same_cursor(a, cur) and is_pos(b_):
                wrapped = True          # cursor > pos
            elif rel == 'ge' and is_pos(a) and same_cursor(b_, cur):
                wrapped = False         # pos >= cursor
        def is_next(v):
            if v[0] == 'call' and v[1] in calls:
                c = calls[v[1]]
                return c['res'] in ('core::num::<impl usize>::saturating_add', 'core::num::<impl usize>::wrapping_add') and \
                    is_pos(c['args'][0]) and q.is_const(c['args'][1], 1)
            return v[0] == 'binop' and v[1] == 'Add' and (is_pos(v[2]) or is_pos(v[3])) and \
                (q.is_const(v[2], 1) or q.is_const(v[3], 1))
        if len(wr_after) != 1:
            rep.violation('C14-R4', b.nname, 'cursor-writes:%d' % len(wr_after), 'a path that found a record writes the cursor '
                          '%d times after the search (must be exactly once)' % len(wr_after))
            continue
        val = wr_after[0][1]['value']
        if wrapped is False or (wrapped is None and zero(cur)):
            rep.check(is_next(val), 'C14-R4', b.nname, 'found at or after the cursor: cursor := index + 1 (no record skipped, '
                      'none repeated)', construct='advance-by-one', site=wr_after[0][1]['span'], facts={'value': show(val, b)})
        elif wrapped is True:
            rep.check(q.is_const(val, USIZE_MAX) or is_next(val), 'C14-R4', b.nname, 'found by wrapping around: the cursor is '
                      'set past the end (reshuffle next round) or to index + 1', construct='wrap-forces-reshuffle',
                      site=wr_after[0][1]['span'], facts={'value': show(val, b)})
        else:
            rep.violation('C14-R4', b.nname, 'no-wrap-test', 'the cursor is updated without distinguishing a record found at or '
                          'after the cursor from one found by wrapping around (pos < cursor)', site=wr_after[0][1]['span'])
    rep.floor('C14-R3', n, 6, 'returning paths of Members::next')
    rep.floor('C14-R4', n_some, 3, 'paths of Members::next that found a record')
    rep.floor('C14-R4', n_reset, 2, 'paths of Members::next that reshuffle')


def r5_frame(ctx, f, rep):
    rep.rule('C14-R5', 'frame: Members.cursor is written only by Members::new (0) and Members::next; the vector is '
                       'reordered only by next (shuffle), by the registration of a new record (push + swap) and by '
                       'remove_if_down (swap_remove) - so while the set of known members is stable only next moves either')
    eff = Effects(f)
    w = sorted(eff.writers_of('member::Members', 'cursor'))
    # writers while the member set is stable: next only.  Code that runs only when the set itself changes (registration of
    # a new record inside apply, remove_if_down) may move the cursor - "any starting cursor reached by prior joins/removals".
    def allowed_writer(nm):
        par = f.by_name[nm][0].parent or nm
        if nm in ('member::Members::next', 'member::Members::new', 'member::Members::remove_if_down') or \
                par in ('member::Members::next', 'member::Members::remove_if_down'):
            return True
        if par == 'member::Members::apply' and nm != par:
            return True         # the registration closure
        if nm == 'member::Members::apply':
            # straight-line registration: every cursor write is preceded by the push of the new record
            for p in ctx.paths(f, f.fn(nm), 'none'):
                pushed = False
                for e in p.events:
                    if e['kind'] == 'call' and e['res'] == 'alloc::vec::Vec::push' and e['args'][0] == ('ref', INNER, True):
                        pushed = True
                    if e['kind'] == 'write' and e['place'] == CURSOR and not pushed:
                        return False
            return True
        return False
    bad = [x for x in w if not allowed_writer(x)]
    rep.check(not bad and 'member::Members::next' in w, 'C14-R5', 'member::Members', 'cursor is written only by next (and the '
              'constructor, the registration of a new record, remove_if_down)', construct='cursor-writers',
              facts={'writers': w, 'not_allowed': bad})
    nb = f.fn('member::Members::new')
    for p in ctx.paths(f, nb, 'none'):
        if p.end != 'return':
            continue
        v = q.agg_field(p.ret, 'cursor') if p.ret[0] == 'agg' else None
        rep.check(v is not None and q.is_const(v, 0), 'C14-R5', nb.nname, 'a new Members starts with cursor 0',
                  construct='ctor-cursor')
        break
    # who lends Members.inner mutably (same enumeration as C01-R3) and with which Vec / slice mutators
    allowed = {'member::Members::next': {'shuffle', 'deref_mut'},
               'member::Members::apply_existing_if': {'iter_mut', 'deref_mut'},
               'member::Members::apply': {'push', 'swap', 'deref_mut'},
               'member::Members::remove_if_down': {'swap_remove'}}
    seen = {}
    for b in f.bodies:
        for bl in b.blocks:
            if bl['cleanup']:
                continue
            for s in bl['stmts']:
                rv = s.get('rv')
                if rv and rv['k'] == 'ref' and rv['mut']:
                    for e in rv['place']['proj']:
                        if e['k'] == 'field' and strip_generics(e.get('owner', '')) == 'member::Members' and e['name'] == 'inner':
                            for nm in f.attributed(b):
                                par = f.by_name[nm][0].parent or nm
                                seen.setdefault(par, []).append(s['span'])
    for par, sites in sorted(seen.items()):
        rep.check(par in allowed, 'C14-R5', par, 'mutably borrows Members.inner: only next / apply_existing_if / apply / '
                  'remove_if_down may', site=sites[0], construct='inner-mut-borrow')
    rep.floor('C14-R5', len(seen), 4, 'functions borrowing Members.inner mutably')
    # the mutators each of them applies
    for par in sorted(seen):
        if par not in allowed:
            continue
        used = set()
        bodies = [f.fn(par)] + [c for c in f.bodies if (c.parent or '') == par or (c.parent or '').startswith(par + '::')]
        for b in bodies:
            for p in ctx.paths(f, b, 'none'):
                cs = {c['id']: c for c in p.calls()}
                for c in p.calls():
                    for a in c['args']:
                        direct = a[0] == 'ref' and a[2] is True and q.field_path(a[1])[1][-1:] == ['inner']
                        via = a[0] == 'ref' and a[2] is True and a[1][0] == 'deref' and a[1][1][0] == 'call' and \
                            a[1][1][1] in cs and cs[a[1][1][1]]['res'].endswith('DerefMut>::deref_mut')
                        if direct or via:
                            used.add((c['res'] or c['decl']).split('::')[-1])
        extra = used - allowed[par]
        rep.check(not extra, 'C14-R5', par, 'touches the vector only with %s' % sorted(allowed[par]),
                  construct='inner-mutators', facts={'used': sorted(used)})


def check(ctx):
    rep = ctx.report
    rep.explanation = (
        'Structural half of the round-robin property, decided from MIR for every layout, seed and cursor at once: one '
        'Members::next call and one Ping per probe round, to the record next() returned (R1); that record is found with '
        'is_active = {Alive, Suspect}, so never Down, and never bears the own address (R1, R2); Members::next is the '
        'cyclic first-active-at-or-after-the-cursor search (R3) with cursor := found + 1, a reshuffle + reset exactly when '
        'the cursor has left the vector, and a wrap that forces the reshuffle (R4); nothing else moves the cursor or '
        'reorders the vector while the member set is stable (R5). These are the hypotheses of the 2n-1 lemma of '
        'DESIGN.md 10.7; the count itself is not replayed.')
    rep.not_decided = ['the window bound 2n-1 as a number over runs (it follows from R3-R5 by the argument in DESIGN.md 10.7; '
                       'no run, no enumeration of layouts or seeds is performed)',
                       'uniformity of the shuffle (the RNG is the caller\'s)']
    rep.assumptions = ['SliceRandom::shuffle permutes the slice (any permutation)',
                       'Iterator::{skip,take,position} and Option::{map,or_else} of core behave as documented']
    for cfgname in ctx.configs(quick=('base',), thorough=('base', 'wire', 'nostd')):
        f = ctx.facts(cfgname)
        rep.cur_config = cfgname
        common.check_frame(f, rep, 'C14-R0')
        common.check_helpers(ctx, f, rep, 'C14-R0', {'Members::is_active'})
        r1_one_ping_per_round(ctx, f, rep)
        r2_predicate(ctx, f, rep)
        r3_r4_next(ctx, f, rep)
        r5_frame(ctx, f, rep)
    rep.cur_config = None

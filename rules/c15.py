"""C15 - dissemination accounting: updates gossiped at most max_transmissions times."""
from .lib import query as q
from . import common as _cmn
from .lib.budget import buffer_id
from .lib.effects import Effects
from .lib.symx import show
from . import c07, common

FLIP = q.self_field('flip')
FLOP = q.self_field('flop')


class _Rename15:
    def __init__(self, rep, old, new):
        self._rep, self._old, self._new = rep, old, new

    def _r(self, r):
        return self._new if r == self._old else r

    def rule(self, rid, text):
        pass

    def ok(self, rule, *a, **k):
        self._rep.ok(self._r(rule), *a, **k)

    def violation(self, rule, *a, **k):
        self._rep.violation(self._r(rule), *a, **k)

    def check(self, cond, rule, *a, **k):
        return self._rep.check(cond, self._r(rule), *a, **k)

    def floor(self, rule, *a, **k):
        self._rep.floor(self._r(rule), *a, **k)

    def __getattr__(self, n):
        return getattr(self._rep, n)


def r1_add_or_replace(ctx, f, rep, eff):
    rep.rule('C15-R1', 'one entry per key, freshest wins: Broadcasts.flip gains entries only in add_or_replace (and by '
                       'append(flop)), where retain(|n| !item.invalidates(&n.item)) precedes the push; the new entry starts '
                       'with remaining_tx = max_tx; every caller passes config.max_transmissions; for cluster updates the key '
                       'is the address and Addr::invalidates is address equality')
    b = f.fn('broadcast::Broadcasts::add_or_replace')
    for p in ctx.paths(f, b, 'none'):
        if p.end != 'return':
            continue
        calls = {c['id']: c for c in p.calls()}
        ret = [i for i, e in enumerate(p.events) if e['kind'] == 'call' and e['res'] == 'alloc::collections::BinaryHeap::retain'
               and e['args'][0] == ('ref', FLIP, True)]
        psh = [i for i, e in enumerate(p.events) if e['kind'] == 'call' and e['res'] == 'alloc::collections::BinaryHeap::push'
               and e['args'][0] == ('ref', FLIP, True)]
        good = len(ret) == 1 and len(psh) == 1 and ret[0] < psh[0]
        if good:
            ent = p.events[psh[0]]['args'][1]
            good = ent[0] == 'agg' and q.agg_field(ent, 'remaining_tx') == ('param', 0, 4) and \
                q.agg_field(ent, 'item') == ('param', 0, 2) and q.agg_field(ent, 'data') == ('param', 0, 3)
            clo = p.events[ret[0]]['args'][1]
            good = good and clo[0] == 'agg' and clo[1] == 'closure'
            if good:
                cb = f.fn(clo[2])
                cps = ctx.paths(f, cb, 'none')
                good = len(cps) == 1 and cps[0].ret[0] == 'unop' and cps[0].ret[1] == 'Not'
                if good:
                    inv = cps[0].ret[2]
                    cc = {c['id']: c for c in cps[0].calls()}
                    good = inv[0] == 'call' and cc[inv[1]]['decl'] == 'broadcast::Invalidates::invalidates'
                    if good:
                        a0, a1 = cc[inv[1]]['args']
                        # receiver is the captured new item, argument is the visited node's item
                        good = a1[0] == 'ref' and q.field_path(a1[1])[1][-1:] == ['item'] and \
                            q.place_root(a1[1]) == ('deref', ('param', 0, 2))
        rep.check(good, 'C15-R1', b.nname, 'retain(|n| !item.invalidates(&n.item)) then push(Entry{remaining_tx: max_tx, item, '
                  'data})', construct='add_or_replace-shape')
    # the converse of "only successful updates are gossiped": in handle_apply_summary an update that was applied
    # (apply_successful) with do_broadcast set is always queued - whether or not it changed the active set (incarnation
    # refreshes and refutations travel this way too)
    hb = f.fn('Foca::handle_apply_summary')
    sk = [k for k in range(2, hb.argc + 1) if str(hb.locals[k]).startswith('member::ApplySummary')]
    bk = [k for k in range(2, hb.argc + 1) if str(hb.locals[k]) == 'bool']
    nq = 0
    if len(sk) == 1 and len(bk) == 1:
        for p in ctx.paths(f, hb, 'none'):
            if p.end != 'return':
                continue
            succ = dob = None
            for c in p.conds():
                e, t = q.norm_bool(c)
                if e == ('fieldv', ('param', 0, sk[0]), 'apply_successful', None):
                    succ = t
                if e == ('param', 0, bk[0]):
                    dob = t
            queued = any(c['res'] == 'broadcast::Broadcasts::add_or_replace' and c['args'][0] == ('ref', q.self_field('updates'), True)
                         for c in p.calls())
            if q.path_is_error_propagation(p) and not queued:
                continue        # serialize_member failed: nothing could be queued
            nq += 1
            rep.check(queued == (succ is True and dob is True), 'C15-R1', hb.nname, 'an update is queued for gossip exactly when '
                      'it was applied and do_broadcast is set', construct='queued-iff-applied:%s:%s' % (succ, dob))
    rep.floor('C15-R1', nq, 6, 'returning paths of handle_apply_summary')
    # writers of flip
    w = sorted(eff.writers_of('broadcast::Broadcasts', 'flip'))
    rep.check(set(w) <= {'broadcast::Broadcasts::add_or_replace', 'broadcast::Broadcasts::fill',
                         'broadcast::Broadcasts::fill_with_len_prefix'}, 'C15-R1', 'broadcast::Broadcasts',
              'flip is mutated only by add_or_replace and the two fill functions', construct='flip-writers', facts={'writers': w})
    n = 0
    for cb, bi, t in f.callers_of(lambda x: x == 'broadcast::Broadcasts::add_or_replace'):
        done = False
        for p in ctx.paths(f, cb, 'none'):
            for e in p.calls():
                if e['res'] == 'broadcast::Broadcasts::add_or_replace' and e['tblock'] == bi and not done:
                    done = True
                    n += 1
                    mt = e['args'][3]

                    def from_config(v, _b):
                        while v[0] == 'cast':
                            v = v[2]
                        return v[0] == 'unop' and v[1] == 'NonZeroGet' and q.loads_self_field(v[2], 'config', 'max_transmissions')
                    # (read where it is used, or handed down by every caller of a private function)
                    good = common.value_or_param_satisfies(ctx, f, cb, mt, from_config)
                    rep.check(good, 'C15-R1', cb.nname, 'max_tx = config.max_transmissions.get()', site=e['span'],
                              construct='max_tx-provenance', facts={'max_tx': show(mt, cb)})
            if done:
                break
    rep.floor('C15-R1', n, 5, 'add_or_replace call sites')
    ib = f.fn('<Addr as broadcast::Invalidates>::invalidates')
    for p in ctx.paths(f, ib, 'none'):
        r = p.ret
        good = r[0] == 'binop' and r[1] == 'Eq' and {x[0] for x in r[2:4]} == {'load'} and \
            all(q.field_path(x[1])[1] == ['0'] for x in r[2:4])
        rep.check(good, 'C15-R1', ib.nname, 'cluster-update keys invalidate each other iff the addresses are equal',
                  construct='addr-invalidates', facts={'ret': show(r, ib)})


def segments(p):
    """Split a path of fill/fill_with_len_prefix into iterations: [(start index of pop event, end index)]."""
    pops = [i for i, e in enumerate(p.events) if e['kind'] == 'call' and e['res'] == 'alloc::collections::BinaryHeap::pop'
            and e['args'][0] == ('ref', FLIP, True)]
    out = []
    for k, i in enumerate(pops):
        end = pops[k + 1] if k + 1 < len(pops) else len(p.events)
        out.append((i, end))
    return out


def r2_accounting(ctx, f, rep):
    rep.rule('C15-R2', 'per-transmission accounting, same in fill and fill_with_len_prefix: after flip.pop(), the fit test '
                       'compares remaining_mut() with data.len() (+2 in the prefixed sibling); on the fitting edge put_slice, '
                       'num_taken += 1 and remaining_tx -= 1 happen together exactly once; on the other edge none of them; the '
                       'entry goes to flop iff remaining_tx > 0 afterwards; the loop is left only when the buffer is full, '
                       'max_items is reached or the heap is empty; flip.append(&mut flop) follows on every returning path')
    for fn, prefix in (('broadcast::Broadcasts::fill', 0), ('broadcast::Broadcasts::fill_with_len_prefix', 2)):
        b = f.fn(fn)
        nseg = {'fit': 0, 'nofit': 0}
        exits = set()
        for p in ctx.paths(f, b, 'none'):
            if p.end == 'diverge':
                continue
            calls = {c['id']: c for c in p.calls()}
            segs = segments(p)
            for (s, e_) in segs:
                pop = p.events[s]
                node = ('fieldv', ('call', pop['id']), '0', 'Some')
                evs = p.events[s + 1:e_]
                some = [c for c in evs if c['kind'] == 'cond' and c['expr'] == ('discr', ('call', pop['id']), c['expr'][2] if c['expr'][0] == 'discr' else None)]
                dsc = [c for c in evs if c['kind'] == 'cond' and c['expr'][0] == 'discr' and c['expr'][1] == ('call', pop['id'])]
                if not dsc or q.cond_variants(f, dsc[0]) != {'Some'}:
                    if dsc:
                        exits.add('heap-empty')
                    continue
                # the fit test
                fit = None
                for c in evs:
                    if c['kind'] != 'cond':
                        continue
                    nrm = q.cmp_norm(c)
                    if nrm is None:
                        continue
                    rel, a, b_ = nrm
                    isrem = lambda v: v[0] == 'call' and v[1] in calls and calls[v[1]]['decl'].endswith('remaining_mut')
                    if not (isrem(a) or isrem(b_)):
                        continue
                    # fits: remaining_mut >= need ; does not fit: need > remaining_mut
                    rhs = b_ if isrem(a) else a
                    fits_here = isrem(a) and rel == 'ge'
                    nofit_here = isrem(b_) and rel == 'gt'
                    k = 0
                    if rhs[0] == 'binop' and rhs[1] == 'Add' and rhs[3][0] == 'const':
                        k, rhs = rhs[3][2], rhs[2]
                    elif rhs[0] == 'binop' and rhs[1] == 'Add' and rhs[2][0] == 'const':
                        k, rhs = rhs[2][2], rhs[3]
                    is_len = rhs[0] == 'call' and rhs[1] in calls and calls[rhs[1]]['res'] == 'alloc::vec::Vec::len' and \
                        q.field_path(calls[rhs[1]]['args'][0][1])[1][-1:] == ['data']
                    if is_len and k == prefix and (fits_here or nofit_here):
                        fit = fits_here
                    else:
                        rep.violation('C15-R2', fn, 'fit-test-shape', 'fit test is not remaining_mut() >= data.len()%s'
                                      % (' + 2' if prefix else ''), site=c['span'], facts={'test': q.describe(p, c['expr'], b)})
                if fit is None:
                    if any(x['kind'] == 'call' and x['decl'] == 'bytes::BufMut::put_slice' for x in evs):
                        rep.violation('C15-R2', fn, 'write-without-fit-test', 'an entry is written without a fit test',
                                      site=pop['span'])
                    elif (e_ < len(p.events) or p.end == 'return') and not any(
                            x['kind'] == 'call' and x['res'].endswith('BinaryHeap::push') for x in evs):
                        # popped, not written, not put back: the entry is lost (a `break` between pop and fit test)
                        rep.violation('C15-R2', fn, 'popped-entry-dropped', 'an entry is popped from the backlog and the loop is '
                                      'left (or goes on) without writing it or putting it back', site=pop['span'])
                    continue
                puts = [x for x in evs if x['kind'] == 'call' and x['decl'] == 'bytes::BufMut::put_slice']
                pref = [x for x in evs if x['kind'] == 'call' and x['decl'] == 'bytes::BufMut::put_u16']
                taken = [x for x in evs if x['kind'] == 'assert' and x['akind'] == 'Overflow(Add)' and x['ops'][0][0] == 'loopvar'
                         and x['ops'][1][0] == 'const' and x['ops'][1][2] == 1]
                decs = [x for x in evs if x['kind'] == 'write' and q.field_path(x['place'])[1][-1:] == ['remaining_tx']]
                lim = [x for x in evs if x['kind'] == 'assert' and x['akind'] == 'Overflow(Sub)' and x['ops'][0][0] == 'loopvar']
                complete = e_ < len(p.events) or p.end == 'return'
                if fit:
                    nseg['fit'] += 1
                    if not complete and not (puts and decs):
                        continue
                    # (the item budget may be a second counter stepped down, or the loop may bound the taken-counter itself)
                    good = len(puts) == 1 and len(taken) == 1 and len(decs) == 1 and len(lim) <= 1 and len(pref) == (1 if prefix else 0)
                    if good:
                        d = decs[0]['value']
                        good = d == ('binop', 'Sub', ('fieldv', node, 'remaining_tx', None), ('const', 'usize', 1, '1_usize')) or \
                            (d[0] == 'binop' and d[1] == 'Sub' and d[2] == ('fieldv', node, 'remaining_tx', None) and d[3][2] == 1)
                        sl = puts[0]['args'][1]
                        good = good and sl[0] == 'ref' and sl[1][0] == 'deref' and sl[1][1][0] == 'call' and \
                            q.field_path(calls[sl[1][1][1]]['args'][0][1])[1][-1:] == ['data']
                    rep.check(good, 'C15-R2', fn, 'fitting entry: written once, counted once, one transmission consumed',
                              site=pop['span'], construct='fit-accounting')
                    cur = ('binop', 'Sub', ('fieldv', node, 'remaining_tx', None), decs[0]['value'][3]) if decs else None
                else:
                    nseg['nofit'] += 1
                    good = not puts and not taken and not decs and not lim and not pref
                    rep.check(good, 'C15-R2', fn, 'non-fitting entry: nothing written, counted or consumed', site=pop['span'],
                              construct='nofit-accounting')
                    cur = ('fieldv', node, 'remaining_tx', None)
                # push back iff remaining_tx > 0 now
                if complete:
                    last_w = max([p.events.index(x) for x in decs], default=s)
                    back = [x for x in evs if x['kind'] == 'call' and x['res'] == 'alloc::collections::BinaryHeap::push'
                            and x['args'][0] == ('ref', FLOP, True)]
                    g = [c for c in p.events[last_w:e_] if c['kind'] == 'cond' and c['expr'][0] == 'binop' and c['expr'][1] == 'Gt'
                         and c['expr'][2] == cur and c['expr'][3][0] == 'const' and c['expr'][3][2] == 0]
                    good = len(g) >= 1 and (len(back) == 1) == (q.cond_truth(g[-1]) is True) and len(back) <= 1
                    rep.check(good, 'C15-R2', fn, 'the entry returns to the backlog iff it has transmissions left (tested after the '
                              'decrement)', site=pop['span'], construct='pushback:%s' % ('fit' if fit else 'nofit'))
            # loop exits on returning paths
            if p.end == 'return' and segs:
                last = p.events[segs[-1][0]:]
                for c in reversed([x for x in last if x['kind'] == 'cond']):
                    ex = c['expr']
                    tr = q.cond_truth(c)
                    while ex[0] == 'unop' and ex[1] == 'Not' and tr is not None:
                        ex, tr = ex[2], not tr
                    if ex[0] == 'call' and calls[ex[1]]['decl'].endswith('has_remaining_mut') and tr is False:
                        exits.add('buffer-full')
                        break
                    if q.zero_test(c, lambda v: v[0] == 'loopvar') == 'zero':
                        exits.add('max-items')
                        break
                    nrm = q.cmp_norm(c)
                    if nrm and nrm[0] == 'ge' and nrm[1][0] == 'loopvar' and nrm[2] == ('param', 0, 3):
                        exits.add('max-items')      # `num_taken < max_items` failed
                        break
                    if ex[0] == 'discr':
                        exits.add('heap-empty')
                        break
                    exits.add('other:' + q.describe(p, ex, b))
                    break
                app = [x for x in p.events if x['kind'] == 'call' and x['res'] == 'alloc::collections::BinaryHeap::append'
                       and x['args'] == [('ref', FLIP, True), ('ref', FLOP, True)]]
                rep.check(len(app) == 1 and p.events.index(app[0]) > segs[-1][0], 'C15-R2', fn,
                          'flip.append(&mut flop) follows the loop on every returning path', construct='append-after-loop')
        rep.check(exits <= {'buffer-full', 'max-items', 'heap-empty'} and len(exits) == 3, 'C15-R2', fn,
                  'the loop is left only when the buffer is full, max_items is reached or the heap is empty (a non-fitting '
                  'entry does not stop the scan)', construct='loop-exits', facts={'exits': sorted(exits)})
        rep.floor('C15-R2', nseg['fit'], 2, fn + ' fitting iterations')
        rep.floor('C15-R2', nseg['nofit'], 2, fn + ' non-fitting iterations')


def _cmp_side(body, outer, p, call, k):
    """Which quantity the k-th operand of a usize comparison denotes: ('self'|'other', 'tx'|'len') or None.
    Looks through the temporaries holding `x.data.len()` and through closure captures (mapped back to the
    parameters of the enclosing function by name)."""
    calls = {c['id']: c for c in p.calls()}
    a = call['args'][k]
    d = call['derefs'][k] if call.get('derefs') else None
    what, pl = None, None
    if a[0] == 'ref' and q.field_path(a[1])[1][-1:] == ['remaining_tx']:
        what, pl = 'tx', a[1]
    else:
        v = d if d is not None else a
        v = q.peel(v)
        if v[0] == 'call' and v[1] in calls and calls[v[1]]['res'].endswith('::len'):
            la = calls[v[1]]['args'][0]
            if la[0] == 'ref' and q.field_path(la[1])[1][-1:] == ['data']:
                what, pl = 'len', la[1]
    if what is None:
        return None
    root = q.place_root(pl)
    while root[0] == 'deref' and root[1][0] in ('load', 'fieldv') :
        # closure environment: (*env.N) -> captured reference
        nm = q.upvar_of(body, root[1])
        if nm is None:
            break
        idx = [i for i, n in outer.local_names.items() if n == nm and 1 <= i <= outer.argc]
        return ({1: 'self', 2: 'other'}.get(idx[0]) if idx else None, what)
    if root == ('deref', ('param', 0, 1)):
        return ('self', what)
    if root == ('deref', ('param', 0, 2)):
        return ('other', what)
    return None


def _is_self_other(args):
    def isp(v, n):
        return v == ('param', 0, n) or v == ('ref', ('deref', ('param', 0, n)), False)
    return len(args) == 2 and isp(args[0], 1) and isp(args[1], 2)


def _is_usize_cmp(c):
    return c['res'].endswith('Ord for usize>::cmp') or c['res'].endswith('PartialOrd for usize>::partial_cmp')


def r3_order(ctx, f, rep):
    rep.rule('C15-R3', 'Entry::cmp is the lexicographic order on (remaining_tx, data.len()), each compared self-then-other '
                       '(the max-heap pops the most remaining first): the second comparison decides only when the first is '
                       'Equal, in any of the forms a.cmp(b).then_with(|| c), a.cmp(b).then(c) or match a.cmp(b) { Equal => c, '
                       'o => o }; PartialOrd/PartialEq delegate to it')
    b = f.fn('<broadcast::Entry as core::cmp::Ord>::cmp')
    n = 0
    for p in ctx.paths(f, b, 'none'):
        if p.end != 'return':
            continue
        n += 1
        calls = {c['id']: c for c in p.calls()}
        cmps = [c for c in p.calls() if _is_usize_cmp(c)]
        tup = [c for c in p.calls() if c['res'].startswith('core::tuple::<impl core::cmp::Ord for (') and c['res'].endswith('>::cmp')]
        if not cmps and len(tup) == 1 and p.ret == ('call', tup[0]['id']):
            # `(self.remaining_tx, self.data.len()).cmp(&(other.remaining_tx, other.data.len()))`: lexicographic by construction
            sides = []
            for k in (0, 1):
                tv = (tup[0].get('derefs') or [None, None])[k]
                cur = []
                if tv is not None and tv[0] == 'agg' and tv[1] == 'tuple' and len(tv[5]) == 2:
                    for x in tv[5]:
                        x = q.peel(x)
                        if x[0] == 'load' and q.field_path(x[1])[1][-1:] == ['remaining_tx']:
                            root = q.place_root(x[1])
                            cur.append(({('deref', ('param', 0, 1)): 'self', ('deref', ('param', 0, 2)): 'other'}.get(root), 'tx'))
                        elif x[0] == 'call' and x[1] in calls and calls[x[1]]['res'].endswith('::len'):
                            la = calls[x[1]]['args'][0]
                            root = q.place_root(la[1]) if la[0] == 'ref' else None
                            ok_data = la[0] == 'ref' and q.field_path(la[1])[1][-1:] == ['data']
                            cur.append(({('deref', ('param', 0, 1)): 'self', ('deref', ('param', 0, 2)): 'other'}.get(root)
                                        if ok_data else None, 'len'))
                        else:
                            cur.append((None, None))
                sides.append(cur)
            rep.check(sides == [[('self', 'tx'), ('self', 'len')], [('other', 'tx'), ('other', 'len')]], 'C15-R3', b.nname,
                      'cmp = (self.remaining_tx, self.data.len()) lexicographically against (other.remaining_tx, '
                      'other.data.len())', construct='entry-cmp')
            continue
        good = bool(cmps) and [_cmp_side(b, b, p, cmps[0], 0), _cmp_side(b, b, p, cmps[0], 1)] == [('self', 'tx'), ('other', 'tx')]
        first = ('call', cmps[0]['id']) if cmps else None
        second_ok = False
        if good:
            # how does the path depend on the first comparison?
            tests = [c for c in p.conds() if c['expr'][0] == 'discr' and c['expr'][1] == first]
            r = p.ret
            if tests:
                vs = q.cond_variants(f, tests[-1])
                if vs == {'Equal'}:
                    second_ok = r[0] == 'call' and r[1] in calls and _is_usize_cmp(calls[r[1]]) and r != first and \
                        [_cmp_side(b, b, p, calls[r[1]], 0), _cmp_side(b, b, p, calls[r[1]], 1)] == [('self', 'len'), ('other', 'len')]
                else:
                    second_ok = 'Equal' not in vs and (r == first or (r[0] == 'variant' and {r[2]} == vs))
            elif r[0] == 'call' and r[1] in calls and calls[r[1]]['res'] in ('core::cmp::Ordering::then_with', 'core::cmp::Ordering::then'):
                t = calls[r[1]]
                if t['args'][0] == first:
                    nxt = t['args'][1]
                    if nxt[0] == 'agg' and nxt[1] == 'closure':
                        cb = f.fn(nxt[2])
                        cps = [x for x in ctx.paths(f, cb, 'none') if x.end == 'return']
                        second_ok = len(cps) == 1
                        if second_ok:
                            cp = cps[0]
                            cc = {c['id']: c for c in cp.calls()}
                            rr = cp.ret
                            second_ok = rr[0] == 'call' and rr[1] in cc and _is_usize_cmp(cc[rr[1]]) and \
                                [_cmp_side(cb, b, cp, cc[rr[1]], 0), _cmp_side(cb, b, cp, cc[rr[1]], 1)] == [('self', 'len'), ('other', 'len')]
                    elif nxt[0] == 'call' and nxt[1] in calls and _is_usize_cmp(calls[nxt[1]]):
                        second_ok = [_cmp_side(b, b, p, calls[nxt[1]], 0), _cmp_side(b, b, p, calls[nxt[1]], 1)] == \
                            [('self', 'len'), ('other', 'len')]
        rep.check(good and second_ok, 'C15-R3', b.nname, 'cmp = (self.remaining_tx, self.data.len()) lexicographically against '
                  '(other.remaining_tx, other.data.len())', construct='entry-cmp')
    rep.floor('C15-R3', n, 1, 'Entry::cmp returning paths')
    ordcmp = '<broadcast::Entry as core::cmp::Ord>::cmp'
    pb = f.fn('<broadcast::Entry as core::cmp::PartialOrd>::partial_cmp')
    for p in ctx.paths(f, pb, 'none'):
        if p.end != 'return':
            continue
        cs = [c for c in p.calls() if c['res'] == ordcmp]
        good = len(cs) == 1 and _is_self_other(cs[0]['args']) and p.ret[0] == 'agg' and p.ret[3] == 'Some' \
            and p.ret[5][0] == ('call', cs[0]['id'])
        rep.check(good, 'C15-R3', pb.nname, 'partial_cmp = Some(self.cmp(other))', construct='delegates')
    eb = f.fn('<broadcast::Entry as core::cmp::PartialEq>::eq')
    for p in ctx.paths(f, eb, 'none'):
        if p.end != 'return':
            continue
        calls = {c['id']: c for c in p.calls()}
        cs = [c for c in p.calls() if c['res'] == ordcmp]
        good = len(cs) == 1 and _is_self_other(cs[0]['args'])
        if good:
            first = ('call', cs[0]['id'])
            r = p.ret
            tests = [c for c in p.conds() if c['expr'][0] == 'discr' and c['expr'][1] == first]
            if tests:
                vs = q.cond_variants(f, tests[-1])
                good = r[0] == 'const' and bool(r[2]) == (vs == {'Equal'}) and (vs == {'Equal'} or 'Equal' not in vs)
            else:
                good = (r[0] == 'call' and r[1] in calls and calls[r[1]]['res'] == 'core::cmp::Ordering::is_eq' and
                        calls[r[1]]['args'][0] == first) or \
                       (r[0] == 'binop' and r[1] == 'Eq' and first in (r[2], r[3]) and
                        any(q.variant_name(x) == 'Equal' for x in (r[2], r[3])))
        rep.check(good, 'C15-R3', eb.nname, 'eq = (self.cmp(other) is Equal)', construct='delegates')


def r4_r5_consumers_enqueuers(ctx, f, rep):
    rep.rule('C15-R4', 'cluster updates are consumed (Broadcasts::fill on Foca.updates) only in send_message, guarded by '
                       'needs_piggyback && !piggyback_only_active: Feed, Announce, TurnUndead and Broadcast consume nothing')
    rep.rule('C15-R5', 'cluster updates are enqueued only by handle_apply_summary under apply_successful && do_broadcast, and '
                       'by the explicit self-Down in change_identity and leave_cluster')
    cs = sorted({c[0].nname for c in f.callers_of(lambda x: x == 'broadcast::Broadcasts::fill')})
    rep.check(cs == ['Foca::send_message'], 'C15-R4', 'broadcast::Broadcasts::fill', 'fill is called only by send_message',
              construct='fill-callers', facts={'callers': cs})
    tabs = c07.tables(ctx, f, _Quiet(rep))
    np_, poa = tabs.get('payload::Message::needs_piggyback'), tabs.get('payload::Message::piggyback_only_active')
    if np_ and poa:
        consumers = sorted(k for k in np_ if np_[k] and not poa[k])
        rep.check(set(consumers) == {'Ping', 'Ack', 'PingReq', 'IndirectPing', 'IndirectAck', 'ForwardedAck', 'Gossip'},
                  'C15-R4', 'payload::Message', 'exactly the probe/relay kinds and Gossip piggyback cluster updates',
                  construct='consuming-kinds', facts={'kinds': consumers})
    b = f.fn('Foca::send_message')
    n = 0
    for p in ctx.paths(f, b, 'none'):
        for i, e in enumerate(p.events):
            if e['kind'] == 'call' and e['res'] == 'broadcast::Broadcasts::fill':
                n += 1
                g = c07.pred_conds(p, i, b)
                rep.check(g.get('needs_piggyback') is True and g.get('piggyback_only_active') is False and
                          e['args'][0] == ('ref', q.self_field('updates'), True), 'C15-R4', b.nname,
                          'updates.fill only under needs_piggyback && !piggyback_only_active', site=e['span'],
                          construct='fill-guard')
                # ... and only the bytes left and the 16-bit count limit how many pending updates ride along: the item cap
                # handed to fill is u16::MAX itself, not an estimate that can be smaller than what still fits (S194)
                cap = e['args'][2]
                if cap[0] == 'call':
                    cc = {c['id']: c for c in p.calls()}.get(cap[1])
                    if cc is not None and cc['res'].endswith('::into') or (cc is not None and cc['decl'].endswith('From::from')):
                        cap = cc['args'][0]
                cap = q.peel(cap)
                rep.check(q.is_const(cap, 65535), 'C15-R4', b.nname, 'the number of updates fill may piggyback is capped by the '
                          'count field only (u16::MAX): no pending update that still fits is left out', site=e['span'],
                          construct='fill-cap', facts={'cap': q.describe(p, e['args'][2], b)})
    rep.floor('C15-R4', n, 1, 'fill occurrences')
    # the other direction: a datagram of a kind that piggybacks goes out without the count field and the updates only
    # when there is no room for the count plus one byte (remaining <= 2) - no other veto (a larger reserve, a kind singled
    # out) may keep pending updates off a datagram
    nsk = 0
    for p in ctx.paths(f, b, 'none'):
        if p.end != 'return' or q.path_is_error_propagation(p):
            continue
        sends = [i for i, e in enumerate(p.events) if e['kind'] == 'call' and e['decl'] == 'runtime::Runtime::send_to']
        if not sends or any(e['res'] in ('broadcast::Broadcasts::fill', 'member::Members::choose_active_members') for e in p.calls()):
            continue
        nsk += 1
        calls = {c['id']: c for c in p.calls()}
        g = c07.pred_conds(p, sends[0], b)
        tight = False
        is_rem = lambda v: v[0] == 'call' and v[1] in calls and calls[v[1]]['decl'] == 'bytes::BufMut::remaining_mut' and \
            c07.touches_packet(p, calls[v[1]], mutably=False)
        for c in q.conds_before(p, sends[0]):
            hi = q.at_most(c, is_rem)
            if hi is not None and hi[1] <= 2:
                tight = True
        rep.check(g.get('needs_piggyback') is False or tight, 'C15-R4', b.nname, 'updates (or the feed) are left out only for a '
                  'kind that does not piggyback or when at most 2 bytes are left', construct='skip-justified',
                  facts={k: v for k, v in g.items() if not k.endswith('#arg')})
    rep.floor('C15-R4', nsk, 2, 'send_message paths that send without a piggyback section')
    # enqueuers of Foca.updates
    sites = {}
    for cb, bi, t in f.callers_of(lambda x: x == 'broadcast::Broadcasts::add_or_replace'):
        for p in ctx.paths(f, cb, 'none'):
            for i, e in enumerate(p.events):
                if e['kind'] == 'call' and e['res'] == 'broadcast::Broadcasts::add_or_replace' and e['tblock'] == bi and \
                        e['args'][0] == ('ref', q.self_field('updates'), True):
                    sites.setdefault(cb.nname, []).append((p, i, e))
    rep.check(sorted(sites) == ['Foca::change_identity', 'Foca::handle_apply_summary', 'Foca::leave_cluster'], 'C15-R5',
              'Foca.updates', 'enqueue sites', construct='enqueue-sites', facts={'sites': sorted(sites)})
    S = ('param', 0, 2)
    for p, i, e in sites.get('Foca::handle_apply_summary', []):
        ok_ = db = None
        for c in q.conds_before(p, i):
            if c['expr'] == ('fieldv', S, 'apply_successful', None):
                ok_ = q.cond_truth(c)
            if c['expr'] == ('param', 0, 4):
                db = q.cond_truth(c)
        rep.check(ok_ is True and db is True, 'C15-R5', 'Foca::handle_apply_summary', 'enqueue only for a successful application '
                  'with broadcasting enabled', site=e['span'], construct='enqueue-guard')
    rep.floor('C15-R5', len(sites.get('Foca::handle_apply_summary', [])), 1, 'enqueue in handle_apply_summary')
    # the key under which an update is filed is the address of the very member the bytes describe
    nk = 0
    for fn in ('Foca::handle_apply_summary', 'Foca::change_identity', 'Foca::leave_cluster'):
        b2 = f.fn(fn)
        done = False
        for p in ctx.paths(f, b2, 'ctor'):
            if done:
                break
            calls = {c['id']: c for c in p.calls()}
            for e in p.calls():
                if e['res'] != 'broadcast::Broadcasts::add_or_replace' or e['args'][0] != ('ref', q.self_field('updates'), True):
                    continue
                done = True
                nk += 1
                key, data = e['args'][1], e['args'][2]
                good = key[0] == 'agg' and key[5] and key[5][0][0] == 'call' and \
                    calls[key[5][0][1]]['decl'] == 'identity::Identity::addr'
                why = 'key is not Addr(<identity>.addr())'
                if good:
                    keyed = calls[key[5][0][1]]['derefs'][0]      # the identity whose address is the key
                    # the serialised member: data = (serialize_member(M)?).Continue.0
                    ser = [c for c in p.calls() if c['res'] == 'Foca::serialize_member']
                    good = len(ser) >= 1 and q.ok_payload_of(p, data) in [c['id'] for c in ser]
                    why = 'data is not the result of serialize_member'
                    if good:
                        m = _cmn.member_arg(f, [c for c in ser if c['id'] == q.ok_payload_of(p, data)][0])
                        if m[0] == 'agg':
                            mid = q.agg_field(m, 'id')
                            good = mid == keyed
                        else:
                            # an opaque member (the applied update): the key identity must be read from that same member
                            good = keyed == ('fieldv', m, 'id', None) or keyed is not None and q.derives_from(p, keyed, lambda c: c['res'] == 'member::Member::id' and
                                                                        c['args'][0][0] == 'ref' and
                                                                        (c['derefs'][0] == m or c['args'][0] == ('ref', ('local', 0, 3), False)))
                        why = 'the key is the address of a different identity than the one the update is about'
                rep.check(good, 'C15-R1', fn, 'the backlog key is the address of the member the queued bytes describe',
                          site=e['span'], construct='key-matches-member', facts={'why': why} if not good else None)
    rep.floor('C15-R1', nk, 3, 'enqueue sites with key/member agreement')


class _Quiet:
    """Report proxy that records nothing but violations (used when another module's extractor is reused)."""

    def __init__(self, rep, prefix='C15'):
        self._rep = rep
        self._prefix = prefix

    def rule(self, *a, **k):
        pass

    def ok(self, *a, **k):
        pass

    def floor(self, *a, **k):
        pass

    def check(self, cond, rule, fn, what, site=None, facts=None, construct=None):
        if not cond:
            self._rep.violation(rule.replace('C07', self._prefix), fn, construct or what, 'expected: ' + what, site, facts)
        return cond

    def violation(self, rule, *a, **k):
        self._rep.violation(rule.replace('C07', self._prefix), *a, **k)


def check(ctx):
    rep = ctx.report
    rep.explanation = (
        'Static decision of the per-entry bookkeeping of Broadcasts: one entry per key with freshest-wins and the '
        'provenance of max_tx (R1); per-iteration accounting of both fill loops checked as siblings over all symbolic '
        'paths - fit test shape, write/count/decrement together exactly once, push-back iff transmissions left, loop '
        'exits, append after the loop (R2); the heap order (R3); which datagram kinds consume (R4) and what enqueues '
        '(R5). Counts over histories follow from these invariants and are not replayed.')
    rep.not_decided = ['transmission counts over whole histories as numbers']
    rep.assumptions = ['alloc::collections::BinaryHeap is a max-heap on Ord (std)']
    for cfgname in ctx.configs(quick=('base',), thorough=('base', 'wire', 'nostd')):
        f = ctx.facts(cfgname)
        rep.cur_config = cfgname
        from . import common as _cm
        _cm.check_helpers(ctx, f, rep, 'C15-R0', {'serialize_member', 'backlog'})
        _cm.check_state_fields(f, rep, 'C15-R0', ('updates',))
        from . import common as _common
        _common.check_frame(f, rep, 'C15-R0')
        _common.check_derives(f, rep, 'C15-R0')
        eff = Effects(f)
        r1_add_or_replace(ctx, f, rep, eff)
        # the explicit enqueue sites: Down(previous identity) in change_identity exactly when the instance was not already
        # Undead (its Down is then in the backlog already - a second entry restarts the transmission count): C10-R4
        from . import c10 as _c10
        _c10.r4_rejoin_or_defunct(ctx, f, _Rename15(rep, 'C10-R4', 'C15-R5'))
        r2_accounting(ctx, f, rep)
        r3_order(ctx, f, rep)
        r4_r5_consumers_enqueuers(ctx, f, rep)
    rep.cur_config = None

"""Rules shared by several property modules."""

DERIVED = [
    ('payload::Message', 'core::cmp::PartialEq', 'eq'), ('payload::Message', 'core::clone::Clone', 'clone'),
    ('member::State', 'core::cmp::PartialEq', 'eq'), ('member::State', 'core::clone::Clone', 'clone'),
    ('member::Member', 'core::cmp::PartialEq', 'eq'), ('member::Member', 'core::clone::Clone', 'clone'),
    ('payload::Header', 'core::clone::Clone', 'clone'), ('ConnectionState', 'core::cmp::PartialEq', 'eq'),
    ('runtime::Timer', 'core::cmp::PartialEq', 'eq'), ('runtime::Timer', 'core::clone::Clone', 'clone'),
]


def check_derives(f, rep, rule):
    """The engine reads `==` and `.clone()` on these crate types as structural equality / copy. That is what a
    derive generates; a hand-written impl would invalidate the reading, so it is checked (macro provenance of the
    impl body, read from the compiler's expansion data)."""
    rep.rule(rule, 'PartialEq/Clone of the wire and state types are #[derive]d (the engine treats `==`/clone() on them '
                   'as structural)')
    n = 0
    for ty, tr, m in DERIVED:
        nm = '<%s as %s>::%s' % (ty, tr, m)
        b = f.fn(nm, required=False)
        if b is None:
            rep.violation(rule, nm, 'missing-impl', 'expected a derived impl')
            continue
        n += 1
        sp = b.raw['span']
        rep.check(sp['exp'] and 'derive(' in sp['mac'], rule, nm, 'impl is produced by #[derive]', site=sp,
                  construct='derived', facts={'macro': sp['mac']})
    rep.floor(rule, n, len(DERIVED), 'derived impls found')


def check_frame(f, rep, rule, adts=('Foca', 'member::Member', 'member::Members', 'probe::Probe', 'broadcast::Broadcasts',
                                    'broadcast::Entry')):
    """Frame condition of every who-may-write rule: the fields involved cannot be written from outside the crate
    (field visibilities as recorded by the compiler). `Members.inner` is pub(crate) - crate-internal writers are
    enumerated by the rules themselves."""
    rep.rule(rule, 'frame condition: no field of Foca, Member, Members, Probe, Broadcasts, Entry is `pub`, so all writers are '
                   'inside the crate and are the ones enumerated by the who-may-write rules')
    n = 0
    for a in adts:
        if a not in f.adts:
            rep.violation(rule, a, 'missing-type', 'type not found')
            continue
        for v in f.adts[a]['variants']:
            for fld in v['fields']:
                n += 1
                rep.check(fld['vis'] != 'Public', rule, a, 'field %s is not public' % fld['name'], construct='field-vis:' + fld['name'],
                          facts={'vis': fld['vis']})
    rep.floor(rule, n, 25, 'fields inspected')

"""Rules shared by several property modules."""

DERIVED = [
    ('payload::Message', 'core::cmp::PartialEq', 'eq'), ('payload::Message', 'core::clone::Clone', 'clone'),
    ('member::State', 'core::cmp::PartialEq', 'eq'), ('member::State', 'core::clone::Clone', 'clone'),
    ('member::Member', 'core::cmp::PartialEq', 'eq'), ('member::Member', 'core::clone::Clone', 'clone'),
    ('payload::Header', 'core::clone::Clone', 'clone'), ('ConnectionState', 'core::cmp::PartialEq', 'eq'),
    ('runtime::Timer', 'core::cmp::PartialEq', 'eq'), ('runtime::Timer', 'core::clone::Clone', 'clone'),
]


def check_derives(f, rep, rule):
    """The engine reads `==` and `.clone()` on these crate types as structural equality / copy. That is what a
    derive generates; a hand-written impl would invalidate the reading, so it is checked (macro provenance of the
    impl body, read from the compiler's expansion data)."""
    rep.rule(rule, 'PartialEq/Clone of the wire and state types are #[derive]d (the engine treats `==`/clone() on them '
                   'as structural)')
    n = 0
    for ty, tr, m in DERIVED:
        nm = '<%s as %s>::%s' % (ty, tr, m)
        b = f.fn(nm, required=False)
        if b is None:
            rep.violation(rule, nm, 'missing-impl', 'expected a derived impl')
            continue
        n += 1
        sp = b.raw['span']
        rep.check(sp['exp'] and 'derive(' in sp['mac'], rule, nm, 'impl is produced by #[derive]', site=sp,
                  construct='derived', facts={'macro': sp['mac']})
    rep.floor(rule, n, len(DERIVED), 'derived impls found')

"""Rules shared by several property modules."""
from .lib import query as q

DERIVED = [
    ('payload::Message', 'core::cmp::PartialEq', 'eq'), ('payload::Message', 'core::clone::Clone', 'clone'),
    ('member::State', 'core::cmp::PartialEq', 'eq'), ('member::State', 'core::clone::Clone', 'clone'),
    ('member::Member', 'core::cmp::PartialEq', 'eq'), ('member::Member', 'core::clone::Clone', 'clone'),
    ('payload::Header', 'core::clone::Clone', 'clone'), ('ConnectionState', 'core::cmp::PartialEq', 'eq'),
    ('runtime::Timer', 'core::cmp::PartialEq', 'eq'), ('runtime::Timer', 'core::clone::Clone', 'clone'),
]


def check_derives(f, rep, rule):
    """The engine reads `==` and `.clone()` on these crate types as structural equality / copy. That is what a
    derive generates; a hand-written impl would invalidate the reading, so it is checked (macro provenance of the
    impl body, read from the compiler's expansion data)."""
    rep.rule(rule, 'PartialEq/Clone of the wire and state types are #[derive]d (the engine treats `==`/clone() on them '
                   'as structural)')
    n = 0
    for ty, tr, m in DERIVED:
        nm = '<%s as %s>::%s' % (ty, tr, m)
        b = f.fn(nm, required=False)
        if b is None:
            rep.violation(rule, nm, 'missing-impl', 'expected a derived impl')
            continue
        n += 1
        sp = b.raw['span']
        rep.check(sp['exp'] and 'derive(' in sp['mac'], rule, nm, 'impl is produced by #[derive]', site=sp,
                  construct='derived', facts={'macro': sp['mac']})
    rep.floor(rule, n, len(DERIVED), 'derived impls found')


def check_frame(f, rep, rule, adts=('Foca', 'member::Member', 'member::Members', 'probe::Probe', 'broadcast::Broadcasts',
                                    'broadcast::Entry')):
    """Frame condition of every who-may-write rule: the fields involved cannot be written from outside the crate
    (field visibilities as recorded by the compiler). `Members.inner` is pub(crate) - crate-internal writers are
    enumerated by the rules themselves."""
    rep.rule(rule, 'frame condition: no field of Foca, Member, Members, Probe, Broadcasts, Entry is `pub`, so all writers are '
                   'inside the crate and are the ones enumerated by the who-may-write rules')
    n = 0
    for a in adts:
        if a not in f.adts:
            rep.violation(rule, a, 'missing-type', 'type not found')
            continue
        for v in f.adts[a]['variants']:
            for fld in v['fields']:
                n += 1
                rep.check(fld['vis'] != 'Public', rule, a, 'field %s is not public' % fld['name'], construct='field-vis:' + fld['name'],
                          facts={'vis': fld['vis']})
    rep.floor(rule, n, 25, 'fields inspected')


def check_helpers(ctx, f, rep, rule, which):
    """Bodies of small helpers whose meaning other rules rely on by name. `which` selects a subset."""
    from .lib import query as q
    rep.rule(rule, 'the small helpers other rules rely on by name mean what their names say (bodies checked from MIR): ' +
             ', '.join(sorted(which)))

    def single_path(fn):
        b = f.fn(fn)
        ps = [p for p in ctx.paths(f, b, 'none') if p.end == 'return']
        return b, ps

    def closure_of(p, callee_suffix):
        for e in p.calls():
            if (e['res'] or e['decl']).endswith(callee_suffix):
                for a in e['args']:
                    if a[0] == 'agg' and a[1] == 'closure':
                        return f.fn(a[2]), e
        return None, None

    def iter_over(p, field_place):
        cs = p.calls()
        return len(cs) >= 2 and cs[0]['res'] == '<alloc::vec::Vec as core::ops::Deref>::deref' and \
            cs[0]['args'][0] == ('ref', field_place, False) and cs[1]['res'] == 'core::slice::<impl [T]>::iter'

    if 'Members::is_active' in which:
        b, ps = single_path('member::Members::is_active')
        good = len(ps) == 1 and iter_over(ps[0], q.self_field('inner'))
        cb, e = closure_of(ps[0], 'Iterator>::any') if good else (None, None)
        good = good and cb is not None and ps[0].ret == ('call', e['id'])
        if good:
            cps = ctx.paths(f, cb, 'none')
            # false unless ids equal; then Member::is_active(member)
            t = [p for p in cps if not (p.ret[0] == 'const' and p.ret[2] == 0)]
            fl = [p for p in cps if p.ret[0] == 'const' and p.ret[2] == 0]
            good = len(t) == 1 and len(fl) == 1 and t[0].ret[0] == 'call' and \
                {c['id']: c for c in t[0].calls()}[t[0].ret[1]]['res'] == 'member::Member::is_active'
            for p in cps:
                es = [q.eq_sides(c['expr']) for c in p.conds()]
                good = good and len(es) == 1 and es[0] is not None
        if not good:
            # the same thing as an explicit loop with an early `return true`
            def pred(p, seg, item):
                calls = {c['id']: c for c in p.calls()}
                truth = []
                for c in seg:
                    if c['kind'] != 'cond' or c['expr'][0] == 'discr':
                        continue
                    e, t = q.norm_bool(c)
                    es = q.eq_sides(e)
                    if es is not None:
                        is_eq, a, b_ = es
                        item_id = lambda v: v in (('load', ('field', ('deref', item), 'id', None), 0),
                                                  ('ref', ('field', ('deref', item), 'id', None), False),
                                                  ('fieldv', ('load', ('deref', item), 0), 'id', None))
                        own = lambda v: v in (('param', 0, 2), ('load', ('deref', ('param', 0, 2)), 0))
                        if not ((item_id(a) and own(b_)) or (item_id(b_) and own(a))):
                            return None
                        truth.append(('eq', t if is_eq else (None if t is None else not t)))
                    elif e[0] == 'call' and e[1] in calls and calls[e[1]]['res'] == 'member::Member::is_active' and \
                            q.mentions(calls[e[1]]['args'][0], lambda x: x == item):
                        truth.append(('act', t))
                    else:
                        return None
                kinds = dict(truth)
                if any(t is None for t in kinds.values()):
                    return None
                if kinds.get('eq') is True and kinds.get('act') is True:
                    return True
                if kinds.get('eq') is False or kinds.get('act') is False:
                    return False
                return None
            all_ps = [p for p in ctx.paths(f, b, 'none') if p.end == 'return']
            good, _n = q.exists_loop(f, all_ps, q.self_field('inner'), pred)
            good = good and all(not p.writes() for p in all_ps)
        rep.check(good, rule, b.nname, 'is_active(id) = inner.iter().any(|m| m.id == id && m.is_active())', construct='helper')
    if 'Members::iter_active' in which:
        b, ps = single_path('member::Members::iter_active')
        good = len(ps) == 1 and iter_over(ps[0], q.self_field('inner'))
        cb, e = closure_of(ps[0], 'Iterator::filter') if good else (None, None)
        good = good and cb is not None and ps[0].ret == ('call', e['id'])
        if good:
            cps = ctx.paths(f, cb, 'none')
            good = len(cps) == 1 and cps[0].ret[0] == 'call' and cps[0].calls()[0]['res'] == 'member::Member::is_active'
        rep.check(good, rule, b.nname, 'iter_active() = inner.iter().filter(|m| m.is_active())', construct='helper')
        b, ps = single_path('Foca::iter_members')
        good = len(ps) == 1 and len(ps[0].calls()) == 1 and ps[0].calls()[0]['res'] == 'member::Members::iter_active' and \
            ps[0].ret == ('call', ps[0].calls()[0]['id'])
        rep.check(good, rule, b.nname, 'iter_members() = members.iter_active()', construct='helper')
        b, ps = single_path('Foca::num_members')
        good = len(ps) == 1 and len(ps[0].calls()) == 1 and ps[0].calls()[0]['res'] == 'member::Members::num_active'
        rep.check(good, rule, b.nname, 'num_members() = members.num_active()', construct='helper')
        b, ps = single_path('member::Members::num_active')
        rep.check(len(ps) == 1 and not ps[0].calls() and ps[0].ret == ('load', q.self_field('num_active'), 0), rule, b.nname,
                  'num_active() returns the field', construct='helper')
    if 'Probe::is_probing' in which:
        b, ps = single_path('probe::Probe::is_probing')
        good = len(ps) == 1
        cb, e = closure_of(ps[0], 'Option::is_some_and') if good else (None, None)
        good = good and cb is not None and ps[0].ret == ('call', e['id']) and \
            e['args'][0][:3] == ('optref', q.self_field('direct'), False)
        if good:
            cps = ctx.paths(f, cb, 'none')
            good = len(cps) == 1 and cps[0].ret[0] == 'binop' and cps[0].ret[1] == 'Eq'
        if not good:
            # the same table written as a match: None -> false, Some(m) -> m.id() == id
            rows = [p for p in ps if p.end == 'return']
            good = len(rows) >= 2 and not any(p.writes() for p in rows)
            seen = set()
            for p in rows:
                n_ev = len(p.events)
                known = q.direct_target_is(f, p, n_ev, 2)
                r = p.ret
                if r[0] == 'const' and r[1] == 'bool':
                    good = good and known is bool(r[2])
                    seen.add(bool(r[2]))
                else:
                    # the comparison itself is returned: build the cond it would be and ask the same question
                    fake = type(p)(p.events + [{'kind': 'cond', 'expr': r, 'taken': '1', 'dty': 'bool', 'depth': 0}], p.end, p.ret)
                    good = good and q.direct_target_is(f, fake, len(fake.events), 2) is True
                    seen.add('cmp')
            good = good and (False in seen) and ('cmp' in seen or True in seen)
        rep.check(good, rule, b.nname, 'is_probing(id) = direct.is_some_and(|p| p.id() == id)', construct='helper')
        b, ps = single_path('probe::Probe::probe_number')
        rep.check(len(ps) == 1 and ps[0].ret == ('load', q.self_field('probe_number'), 0), rule, b.nname,
                  'probe_number() returns the field', construct='helper')
    if 'Probe::expect_indirect_ack' in which:
        b, ps = single_path('probe::Probe::expect_indirect_ack')
        good = len(ps) >= 1
        for p in ps:
            pushes = [c for c in p.calls() if c['res'] == 'alloc::vec::Vec::push']
            good = good and len(pushes) == 1 and pushes[0]['args'] == [('ref', q.self_field('indirect'), True), ('param', 0, 2)]
        rep.check(good, rule, b.nname, 'expect_indirect_ack(from) pushes `from` onto the list of asked helpers', construct='helper')
    if 'Probe::mark' in which:
        b, ps = single_path('probe::Probe::mark_indirect_probe_stage_reached')
        good = len(ps) == 1 and [(w['place'], w['value']) for w in ps[0].writes()] == \
            [(q.self_field('reached_indirect_probe_stage'), ('const', 'bool', 1, 'true'))]
        rep.check(good, rule, b.nname, 'sets reached_indirect_probe_stage := true and nothing else', construct='helper')
    if 'backlog' in which:
        for fn, fld in (('Foca::custom_broadcast_backlog', 'custom_broadcasts'), ('Foca::updates_backlog', 'updates')):
            b, ps = single_path(fn)
            good = len(ps) == 1 and len(ps[0].calls()) == 1 and ps[0].calls()[0]['res'] == 'broadcast::Broadcasts::len' and \
                ps[0].calls()[0]['args'][0] == ('ref', q.self_field(fld), False)
            rep.check(good, rule, fn, '= %s.len()' % fld, construct='helper')
        for fn, callee in (('broadcast::Broadcasts::len', 'alloc::collections::BinaryHeap::len'),
                           ('broadcast::Broadcasts::is_empty', 'alloc::collections::BinaryHeap::is_empty')):
            b, ps = single_path(fn)
            good = len(ps) == 1 and len(ps[0].calls()) == 1 and \
                ps[0].calls()[0]['args'][0] == ('ref', q.self_field('flip'), False)
            if good:
                c0 = ps[0].calls()[0]
                on_flip = lambda v, name: v[0] == 'call' and v[1] == c0['id'] and c0['res'] == name
                if fn.endswith('::len'):
                    good = on_flip(ps[0].ret, callee)
                else:       # is_empty() in any spelling: flip.is_empty(), flip.len() == 0, ...
                    good = q.emptiness_value(ps[0].ret, lambda v: on_flip(v, 'alloc::collections::BinaryHeap::len'),
                                             lambda v: on_flip(v, callee)) is True
            rep.check(good, rule, fn, 'reads the live heap (flip)', construct='helper')
    if 'serialize_member' in which:
        b = f.fn('Foca::serialize_member')
        ps = ctx.paths(f, b, 'none')
        good = bool(ps)
        # the member is the by-value Member parameter; the codec is self.codec, read here or handed in by every caller
        mem = [k for k in range(1, b.argc + 1) if str(b.locals[k]).startswith('member::Member<')]
        cod = [k for k in range(1, b.argc + 1) if str(b.locals[k]).startswith('&mut ') and 'Foca<' not in str(b.locals[k])]
        good = good and len(mem) == 1
        codec_ok = lambda v: v == ('ref', q.self_field('codec'), True)
        if good and cod:
            k = cod[0]
            codec_ok = lambda v: v in (('param', 0, k), ('ref', ('deref', ('param', 0, k)), True))
            seen = 0
            for cb in {c[0].nname: c[0] for c in f.callers_of(lambda n: n == 'Foca::serialize_member')}.values():
                for cp in ctx.paths(f, cb, 'none'):
                    for c in cp.calls():
                        if c['res'] == 'Foca::serialize_member':
                            seen += 1
                            good = good and c['args'][k - 1] == ('ref', q.self_field('codec'), True)
            good = good and seen > 0
        for p in ps:
            enc = [c for c in p.calls() if c['decl'] == 'codec::Codec::encode_member']
            good = good and len(enc) == 1 and enc[0]['args'][1] == ('ref', ('local', 0, mem[0]), False) and \
                codec_ok(enc[0]['args'][0])
            if p.end == 'return' and p.ret[0] == 'agg' and p.ret[3] == 'Ok' and enc:
                # the bytes returned are the buffer the member was encoded into
                v = p.ret[5][0]
                bufref = enc[0]['args'][2]
                good = good and bufref[0] == 'ref' and v[0] == 'havoc' and v[1] == bufref[1]
            elif p.end == 'return' and p.ret[0] == 'agg' and p.ret[3] not in ('Ok', 'Err'):
                good = False
        rep.check(good, rule, b.nname, 'serialize_member(m) = codec.encode_member(&m, fresh Vec) and returns those bytes',
                  construct='helper')
    if 'choose_members' in which:
        b = f.fn('member::Members::choose_members')
        n = 0
        good = True
        for p in ctx.paths(f, b, 'none'):
            calls = {c['id']: c for c in p.calls()}
            evs = p.events
            for i, e in enumerate(evs):
                if e['kind'] == 'call' and e['res'] in ('alloc::vec::Vec::push', '<alloc::vec::Vec as core::ops::IndexMut>::index_mut'):
                    n += 1
                    # since the last Iterator::next: picker(member) was called and was true
                    j = max([k for k in range(i) if evs[k]['kind'] == 'call' and evs[k]['res'].endswith('Iterator>::next')] or [0])
                    picks = [x for x in evs[j:i] if x['kind'] == 'cond' and x['expr'][0] == 'call' and
                             calls[x['expr'][1]]['decl'].startswith('core::ops::Fn')]
                    via_filter = False
                    if not picks and evs[j]['kind'] == 'call' and \
                            evs[j]['res'] == '<core::iter::Filter as core::iter::Iterator>::next':
                        # `for m in inner.iter().filter(|m| picker(m))`: the element passed the same test inside filter()
                        it = q.pre_havoc((evs[j].get('derefs') or [None])[0] or evs[j]['args'][0])
                        for c in p.calls():
                            if c['res'] == 'core::iter::Iterator::filter' and q.derives_from(p, it, lambda x, cid=c['id']: x['id'] == cid):
                                clo = c['args'][1]
                                if clo[0] == 'agg' and clo[1] == 'closure':
                                    cps = [x for x in ctx.paths(f, f.fn(clo[2]), 'none') if x.end == 'return']
                                    via_filter = len(cps) == 1 and len(cps[0].calls()) == 1 and \
                                        cps[0].calls()[0]['decl'].startswith('core::ops::Fn') and \
                                        cps[0].ret == ('call', cps[0].calls()[0]['id'])
                    good = good and ((len(picks) == 1 and q.cond_truth(picks[0]) is True) or via_filter)
        rep.check(good and n >= 2, rule, b.nname, 'the reservoir only ever takes members for which picker(member) was true in '
                  'that iteration', construct='helper')


def scratch_cleared(ctx, f, rep, rule):
    """Foca.updates_buf is scratch space of one handle_data call: on every path it is cleared before it is filled or
    taken, so what apply_many drains is exactly what *this* datagram carried (a payload that was decoded but discarded -
    inactive sender - cannot resurface with a later datagram)."""
    hd = f.fn('Foca::handle_data')
    n = 0
    for p in ctx.paths(f, hd, 'none'):
        for i, e in enumerate(p.events):
            uses = (e['kind'] == 'write' and e['place'] == q.self_field('updates_buf') and e.get('via') == 'mem::take') or \
                   (e['kind'] == 'call' and e['res'] == 'alloc::vec::Vec::push' and e['args'][0] == ('ref', q.self_field('updates_buf'), True))
            if uses:
                n += 1
                cl = [x for x in p.events[:i] if x['kind'] == 'call' and x['res'] == 'alloc::vec::Vec::clear'
                      and x['args'][0] == ('ref', q.self_field('updates_buf'), True)]
                rep.check(bool(cl), rule, hd.nname, 'updates_buf is cleared before being filled or taken in the same call',
                          site=e['span'], construct='scratch-cleared')
    rep.floor(rule, n, 2, 'uses of updates_buf')


def payload_staged_whole(ctx, f, rep, rule):
    """What apply_many drains is the decoded member list itself: between the clear() and the take of Foca.updates_buf the
    buffer is touched by nothing but `push`, and every member the codec decoded successfully is pushed - that very value,
    unconditionally - before the next one is decoded. (A staging step that merges, overwrites, reorders or drops entries
    makes the view depend on the order inside one datagram: S176.)"""
    hd = f.fn('Foca::handle_data')
    UB = ('ref', q.self_field('updates_buf'), True)
    n_dec = n_mut = 0
    bad_mut = set()
    for p in ctx.paths(f, hd, 'none'):
        evs = p.events
        decs = [i for i, e in enumerate(evs) if e['kind'] == 'call' and e['decl'].endswith('Codec::decode_member')]
        for i, e in enumerate(evs):
            if e['kind'] == 'call' and any(a == UB for a in e['args']):
                n_mut += 1
                nm = e['res'] or e['decl']
                if nm not in ('alloc::vec::Vec::push', 'alloc::vec::Vec::clear', 'core::mem::take', 'alloc::vec::Vec::drain') and \
                        not nm.startswith('Foca::'):
                    if nm not in bad_mut:
                        bad_mut.add(nm)
                        rep.violation(rule, hd.nname, 'updates_buf-mutator:' + nm.split('::')[-1], 'the decoded member list is '
                                      'modified by something other than push (%s): what is applied is no longer what the '
                                      'datagram carried, entry by entry' % nm, site=e['span'])
        oks = q.try_ok_of(p, len(evs))
        for k, i in enumerate(decs):
            e = evs[i]
            if oks.get(e['id']) != 'ok':
                continue
            n_dec += 1
            end = decs[k + 1] if k + 1 < len(decs) else len(evs)
            pays = q.ok_payloads(p, e['id'])
            pushes = [x for x in evs[i:end] if x['kind'] == 'call' and x['res'] == 'alloc::vec::Vec::push' and x['args'][0] == UB]
            good = len(pushes) == 1 and pushes[0]['args'][1] in pays
            if not good:
                rep.violation(rule, hd.nname, 'decoded-member-not-pushed', 'a successfully decoded member is not pushed as it is, '
                              'exactly once, onto the list handed to apply_many (%d push(es) before the next decode)'
                              % len(pushes), site=e['span'])
                return
    rep.check(not bad_mut, rule, hd.nname, 'the decoded member list is only ever pushed to, cleared, taken and drained',
              construct='updates_buf-mutators')
    rep.ok(rule, hd.nname, 'every successfully decoded member is pushed unchanged, exactly once, before the next decode')
    rep.floor(rule, n_dec, 2, 'successful decode_member events on handle_data paths')
    rep.floor(rule, n_mut, 4, 'events lending updates_buf mutably')


def routing_reads_current_identity(ctx, f, rep, rule):
    """apply_many classifies every update against the identity the instance has *at that moment*: a self-update earlier in
    the same batch may renew the identity (handle_self_update -> attempt_rejoin -> change_identity), so every read of
    self.identity in the dispatch must be made after the last call that was lent `&mut self` - never a snapshot taken
    before the loop (S170)."""
    b = f.fn('Foca::apply_many')
    ident = q.self_field('identity')
    n = 0
    stale = None
    for p in ctx.paths(f, b, 'none'):
        last_mut = 0
        for e in p.events:
            vals = []
            if e['kind'] == 'cond':
                vals = [e['expr']]
            elif e['kind'] == 'call':
                vals = list(e.get('argvals') or e['args'])
            for v in vals:
                for x in q.walk(v):
                    if isinstance(x, tuple) and len(x) >= 3 and x[0] == 'load' and isinstance(x[1], tuple) and \
                            (x[1] == ident or q.is_prefix(ident, x[1])) and isinstance(x[2], int):
                        n += 1
                        if x[2] < last_mut and stale is None:
                            stale = (e, x[2], last_mut)
            if e['kind'] == 'call' and any(a == ('ref', q.SELF, True) for a in e['args']):
                last_mut = e['id']
    if stale is not None:
        e, ep, lm = stale
        rep.violation(rule, b.nname, 'stale-identity-read', 'an update of a batch is classified against a value of self.identity '
                      'read before an earlier update of the same batch was handled (which may have renewed the identity): read '
                      'at epoch %d, last `&mut self` call #%d' % (ep, lm), site=e.get('span'))
    else:
        rep.ok(rule, b.nname, 'every read of self.identity in the dispatch loop is made after the last call lent &mut self')
    rep.floor(rule, n, 4, 'reads of self.identity on apply_many paths')


CTOR_OF = {'members': 'member::Members::new', 'updates': 'broadcast::Broadcasts::new',
           'custom_broadcasts': 'broadcast::Broadcasts::new', 'probe': 'probe::Probe::new'}


def check_state_fields(f, rep, rule, fields):
    """Long-lived state of a Foca instance is built once, by the constructor, and never swapped out afterwards: the
    who-may-write rules speak about the fields *inside* Members / Broadcasts / Probe, which says nothing if the whole
    value can be replaced (`self.updates = Broadcasts::new()` empties the backlog without touching `flip`)."""
    from .lib.effects import Effects
    eff = Effects(f)
    for fld in fields:
        w = sorted(eff.writers_of('Foca', fld, kinds=('W',)))
        rep.check(w == [], rule, 'Foca', 'Foca.%s is never reassigned after construction' % fld,
                  construct='state-field-never-replaced:' + fld, facts={'writers': w})
        ctor = CTOR_OF.get(fld)
        if ctor:
            cs = sorted({c[0].nname for c in f.callers_of(lambda x, c_=ctor: x == c_)})
            rep.check(cs == ['Foca::with_custom_broadcast'], rule, ctor, 'constructed only by the Foca constructor',
                      construct='state-ctor-callers:' + fld, facts={'callers': cs})


def value_or_param_satisfies(ctx, f, body, v, pred, depth=0):
    """pred(v, body) holds for the value - or, when the value is a parameter of a private function, for the argument
    every caller passes in that position (followed through at most three levels of private functions)."""
    from .lib import query as q
    w = v
    while w[0] == 'cast':
        w = w[2]
    if not (w[0] == 'param' and w[1] == 0) or body.reachable or depth > 3:
        return pred(v, body)
    k = w[2]
    seen = 0
    callers = {c[0].nname: c[0] for c in f.callers_of(lambda n, nn=body.nname: n == nn)}
    for cb in callers.values():
        for cp in ctx.paths(f, cb, 'none'):
            for c in cp.calls():
                if c['res'] == body.nname:
                    seen += 1
                    if len(c['args']) < k or not value_or_param_satisfies(ctx, f, cb, c['args'][k - 1], pred, depth + 1):
                        return False
    return seen > 0


def member_arg(f, call, fn='Foca::serialize_member'):
    """The Member argument of a call to `fn`, wherever the parameter stands (found by type)."""
    b = f.fn(fn)
    ks = [k for k in range(1, b.argc + 1) if str(b.locals[k]).startswith('member::Member<')]
    k = ks[0] if len(ks) == 1 else 2
    return call['args'][k - 1] if len(call['args']) >= k else None

"""C18 - reply cascades terminate: no message storms.

Decided: acyclicity of the header-triggered reply graph (kind of the datagram being handled x sender seen as
active/inactive -> kind sent), extracted from all paths of handle_data; the one permitted cycle-closing edge must be
renewal-gated.  Not decided: cascades driven by piggybacked contents (a Suspect(self) update makes the receiver gossip):
those are bounded by max_transmissions per backlog entry (C15), a runtime quantity.
"""
from .lib import query as q
from .lib.symx import show
from . import c12, common

TERMINAL = {'Ack', 'ForwardedAck', 'Feed', 'Gossip', 'Broadcast'}


def kinds_sent_by(ctx, f):
    """fn -> set of message kinds it may send (transitively). A function that forwards a Message parameter
    (choose_and_send) contributes, at each of its call sites, the constant kind passed there (call-site sensitive)."""
    allk = set(f.variant_names('payload::Message'))
    direct = {}
    forwards_param = set()
    calls_of = {}
    for b in f.analysed_bodies():
        if not b.nname.startswith('Foca::'):
            continue
        ks = set()
        sites = set()
        for p in ctx.paths(f, b, 'none'):
            for e in p.calls():
                if e['res'] == 'Foca::send_message':
                    vn = q.variant_name(e['args'][2])
                    if vn:
                        ks.add(vn)
                    else:
                        forwards_param.add(b.nname)
                elif e['res'].startswith('Foca::'):
                    passed = frozenset(q.variant_name(a) for a in e['args'] if q.variant_name(a) in allk)
                    sites.add((e['res'], passed))
        direct[b.nname] = ks
        calls_of[b.nname] = sites
    trans = {k: set(v) for k, v in direct.items()}
    changed = True
    while changed:
        changed = False
        for fn, sites in calls_of.items():
            for callee, passed in sites:
                add = set(trans.get(callee, set()))
                if callee in forwards_param:
                    add |= set(passed)
                    if not passed:
                        add |= allk      # unknown kind forwarded: be conservative
                add -= trans[fn]
                if add:
                    trans[fn] |= add
                    changed = True
    return trans


def check_graph(ctx, f, rep):
    rep.rule('C18-R1', 'extraction of the header-triggered reply graph from handle_data: every send reachable without going '
                       'through apply_many is labelled (kinds possibly being handled, sender active/inactive) -> kind sent')
    rep.rule('C18-R2', 'the graph restricted to kinds is acyclic, except that an edge may close a cycle if its send site is '
                       'preceded by handle_self_update(_, Down) and guarded by connection_state != Undead (the sender has just '
                       'switched to a fresh identity, so the peer takes a non-replying arm); terminal kinds (Ack, ForwardedAck, '
                       'Feed, Gossip, Broadcast) have no outgoing edge; relay chains have length <= 3')
    rep.rule('C18-R3', 'relays do not fan out: at most one direct send per handled datagram, never inside a loop')
    hd = f.fn('Foca::handle_data')
    sent_by = kinds_sent_by(ctx, f)
    allk = set(f.variant_names('payload::Message'))
    edges = {}        # (handled kind, active?) -> {kind sent: gated?}
    content_edges = set()
    cfg = ctx.cfg(hd)
    n_direct = 0
    for p in ctx.paths(f, hd, 'none'):
        h, src, msg = c12.header_parts(p)
        if h is None:
            continue
        direct = 0
        active = None
        for i, e in enumerate(p.events):
            if e['kind'] == 'cond' and e.get('dty') == 'bool' and q.ok_payload_of(p, e['expr']) is not None \
                    and active is None:
                active = q.cond_truth(e)
            if e['kind'] != 'call' or not e['res'].startswith('Foca::'):
                continue
            ks = c12.message_kinds(f, p, i, lambda v: v == msg)
            if e['res'] == 'Foca::send_message':
                direct += 1
                n_direct += 1
                sent = q.variant_name(e['args'][2])
                # renewal gate: a preceding handle_self_update(_, Down) and connection_state != Undead since then
                hs = [j for j in range(i) if p.events[j]['kind'] == 'call' and p.events[j]['res'] == 'Foca::handle_self_update'
                      and q.is_variant(p.events[j]['args'][2], 'State', 'Down')]
                gated = False
                if hs:
                    for c in p.events[hs[-1]:i]:
                        if c['kind'] != 'cond':
                            continue
                        t_und = q.conn_state_test(f, c, 'Undead')
                        if t_und is not None:
                            gated = (t_und is False)
                rep.check(not cfg.in_cycle(e['block']), 'C18-R3', hd.nname, 'reply is not inside a loop', site=e['span'],
                          construct='reply-in-loop:%s' % sent)
                for k in ks:
                    cur = edges.setdefault((k, active), {})
                    cur[sent] = cur.get(sent, True) and gated
            elif e['res'] == 'Foca::apply_many':
                for k in ks:
                    for s in sent_by.get('Foca::apply_many', ()):
                        content_edges.add((k, s))
            elif e['res'] in ('Foca::apply_update', 'Foca::handle_custom_broadcasts', 'Foca::accept_payload'):
                if sent_by.get(e['res']):
                    # apply_update of the sender: may only send through handle_apply_summary (nothing today)
                    for k in ks:
                        for s in sent_by[e['res']]:
                            cur = edges.setdefault((k, active), {})
                            cur[s] = cur.get(s, True) and False
            else:
                # header-triggered call into a function that may send (handle_self_update for TurnUndead): what it sends
                # it sends from change_identity, i.e. under the renewed identity (checked below and in C10-R4)
                fresh = e['res'] == 'Foca::handle_self_update' and q.is_variant(e['args'][2], 'State', 'Down')
                for k in ks:
                    for s in sent_by.get(e['res'], ()):
                        cur = edges.setdefault((k, active), {})
                        cur[s] = cur.get(s, True) and fresh
        rep.check(direct <= 1, 'C18-R3', hd.nname, 'at most one direct reply per handled datagram', construct='fan-out',
                  facts={'direct_sends': direct})
    rep.floor('C18-R1', n_direct, 20, 'direct send occurrences on handle_data paths')
    # evidence: the extracted edges
    pretty = sorted('%s(%s) -> %s%s' % (k, {True: 'active', False: 'inactive', None: 'n/a'}[a], s, ' [renewal-gated]' if g else '')
                    for (k, a), m in edges.items() for s, g in m.items())
    rep.ok('C18-R1', hd.nname, 'header-triggered reply graph extracted', facts={'edges': pretty,
                                                                               'content_triggered_excluded': sorted('%s -> %s' % e for e in content_edges)})
    expected_active = {'Ping': {'Ack'}, 'PingReq': {'IndirectPing'}, 'IndirectPing': {'IndirectAck'},
                       'IndirectAck': {'ForwardedAck'}, 'Announce': {'Feed'}, 'TurnUndead': {'Gossip'}}
    for (k, a), m in sorted(edges.items(), key=str):
        if a is True:
            want = expected_active.get(k, set())
            rep.check(set(m) == want, 'C18-R1', hd.nname, 'active sender, %s -> %s' % (k, sorted(want) or 'nothing'),
                      construct='edge:%s:active' % k, facts={'sends': sorted(m)})
        elif a is False:
            want = {'TurnUndead'} | ({'Gossip'} if k == 'TurnUndead' else set())
            if k == 'TurnUndead':
                want |= sent_by.get('Foca::handle_self_update', set()) & {'Gossip'}
            rep.check(set(m) <= want, 'C18-R1', hd.nname, 'inactive sender, %s -> at most %s' % (k, sorted(want)),
                      construct='edge:%s:inactive' % k, facts={'sends': sorted(m)})
    for k in allk:
        if (k, True) not in edges and k in expected_active:
            rep.violation('C18-R1', hd.nname, 'missing-edge:' + k, 'expected reply to %s not found (extraction broken?)' % k)
    # R2: cycles in the refined graph. Nodes are (kind, how the receiver sees its sender). A send that happens after a
    # successful identity renewal ("fresh") is seen by the peer as coming from an active member (the renewed identity wins
    # the address conflict, C10-R4); any other send may be seen either way.
    nodes = {}
    fresh_edges = set()
    for (k, a), m in edges.items():
        if a is None:
            continue
        for s_, fresh in m.items():
            tgt = [(s_, True)] if fresh else [(s_, True), (s_, False)]
            nodes.setdefault((k, a), set()).update(tgt)
            if fresh:
                fresh_edges.add((k, a, s_))

    def reach(src):
        seen, st = set(), [src]
        while st:
            x = st.pop()
            for y in nodes.get(x, ()):
                if y not in seen:
                    seen.add(y)
                    st.append(y)
        return seen
    cyc_nodes = sorted(n_ for n_ in nodes if n_ in reach(n_))
    rep.check(not cyc_nodes, 'C18-R2', hd.nname, 'the reply graph over (kind, sender seen as active/inactive) has no cycle: every '
              'cycle over kinds passes through a renewal, after which the sender is seen as active', construct='acyclic',
              facts={'nodes_on_cycles': [str(x) for x in cyc_nodes]})
    for k in sorted(allk):
        rep.check(not cyc_nodes or not any(x[0] == k for x in cyc_nodes), 'C18-R2', hd.nname,
                  'no storm through %s' % k, construct='cycle:%s' % k)
    for k in sorted(TERMINAL):
        out = nodes.get((k, True), set())
        rep.check(not out, 'C18-R2', hd.nname, 'terminal kind %s from an active sender triggers no reply' % k,
                  construct='terminal:%s' % k, facts={'sends': sorted(map(str, out))})

    def depth(n_, seen=()):
        if n_ in seen:
            return 99
        return 1 + max([depth(s_, seen + (n_,)) for s_ in nodes.get(n_, ())] or [0])
    longest = max([depth(n_) for n_ in nodes] or [0])
    rep.check(longest <= 8, 'C18-R2', hd.nname, 'every cascade of automatic replies is at most 7 hops long (3 relay hops, then '
              'at most: TurnUndead, renewal gossip/TurnUndead, gossip)', construct='chain-length',
              facts={'longest_chain_nodes': longest})
    rep.check(fresh_edges <= {('TurnUndead', False, 'TurnUndead'), ('TurnUndead', False, 'Gossip'), ('TurnUndead', True, 'Gossip')},
              'C18-R2', hd.nname, 'the only renewal-fresh sends are those made while handling a TurnUndead',
              construct='fresh-edges', facts={'fresh': sorted(map(str, fresh_edges))})
    tu = edges.get(('TurnUndead', False), {})
    rep.check(tu.get('TurnUndead', True) is True, 'C18-R2', hd.nname, 'a TurnUndead from a member we hold as Down is answered '
              'with TurnUndead only after renewing the identity (never while Undead): two members that consider each other '
              'Down do not bounce it', construct='turnundead-bounce')
    # sends made inside handle_self_update(Down) happen after the identity was replaced
    cb = f.fn('Foca::change_identity')
    for p in ctx.paths(f, cb, 'none'):
        ws = [i_ for i_, x in enumerate(p.events) if x['kind'] == 'write' and x['place'] == q.self_field('identity')]
        gs = [i_ for i_, x in enumerate(p.events) if x['kind'] == 'call' and x['res'] in ('Foca::gossip', 'Foca::send_message')]
        if gs:
            rep.check(bool(ws) and ws[0] < gs[0], 'C18-R2', cb.nname, 'change_identity gossips only after installing the new '
                      'identity', construct='gossip-after-renewal')


def r4_renewal_argument(ctx, f, rep):
    rep.rule('C18-R4', 'supporting facts for the renewal gate: handle_self_update(Down) either renews the identity (so the peer '
                       'sees an active, conflict-winning sender) or leaves the instance Undead (C10-R4); TurnUndead carries no '
                       'payload (C07-R3), so nothing content-triggered rides on it; a sender whose identity the stored '
                       'one does not beat replaces it (C01-R3), so the renewed sender is active afterwards')
    from . import c10, c07
    from .c09 import _Rename
    c10.r4_rejoin_or_defunct(ctx, f, _Rename(rep, 'C10-R4', 'C18-R4'))
    # a datagram addressed to an identity the instance has superseded is dropped (only an Announce is accepted by
    # address): otherwise a TurnUndead sent to the old identity makes the renewed instance renew and gossip again
    from . import c17
    c17.r3_accept_payload(ctx, f, _Rename(rep, 'C17-R3', 'C18-R4'))
    tabs = c07.tables(ctx, f, _Rename(rep, 'C07-R3', 'C18-R4'))
    # the renewal gate terminates only if the renewed (or restarted) sender is then accepted: a stored identity is
    # replaced unless it itself wins the conflict - asking the newcomer instead keeps an incomparable one out forever,
    # and every datagram of it is answered with TurnUndead (C01-R3 re-run)
    from . import c01
    c01.r3_writers(ctx, f, _Rename(rep, 'C01-R3', 'C18-R4'))
    # ... and the renewed sender that replaced the stored identity counts as an active sender (apply_update reports
    # is_active_now unless the update was Lost / FailedCondition): C09-R4
    from . import c09
    c09.r4_inactive_payload(ctx, f, _Rename(rep, 'C09-R4', 'C18-R4'))
    # ... and the sender is recorded before anything is decided about it, in every connection state: a defunct instance
    # that only looks the sender up never learns a renewed identity and answers each renewal with another TurnUndead
    hd = f.fn('Foca::handle_data')
    REACT = ('Foca::send_message', 'Foca::handle_self_update', 'Foca::apply_many', 'Foca::handle_custom_broadcasts',
             'probe::Probe::receive_ack', 'probe::Probe::receive_indirect_ack', 'member::Members::is_active')
    n = 0
    for p in ctx.paths(f, hd, 'ctor'):
        h, src, msg = c12.header_parts(p)
        if h is None:
            continue
        applied = False
        for e in p.events:
            if e['kind'] != 'call':
                continue
            if e['res'] == 'Foca::apply_update':
                m = e['args'][1]
                if m[0] == 'agg' and q.agg_field(m, 'id') == src and q.is_variant(q.agg_field(m, 'state'), 'State', 'Alive'):
                    applied = True
            elif e['res'] in REACT:
                n += 1
                if not applied:
                    rep.violation('C18-R4', hd.nname, 'reacts-before-recording-sender:' + e['res'].split('::')[-1],
                                  'handle_data reacts to a datagram (%s) on a path that has not recorded its sender as '
                                  'Alive(src, src_incarnation) first' % e['res'], site=e['span'])
                    break
    rep.floor('C18-R4', n, 100, 'reactions of handle_data that follow the recording of the sender')


def check(ctx):
    rep = ctx.report
    rep.explanation = (
        'The relation (kind being handled, sender active/inactive) -> kind sent is extracted from every path of '
        'handle_data (direct sends, and sends reachable through callees other than apply_many); it must be acyclic on '
        'kinds except for an edge that is renewal-gated (preceded by handle_self_update(Down) and guarded by '
        'connection_state != Undead); terminal kinds answer nothing, chains are <= 3 hops, no reply sits in a loop. '
        'Content-triggered gossip (through apply_many) is listed in the evidence and excluded: it is bounded by '
        'max_transmissions per backlog entry, a runtime quantity that is stated, not checked, here.')
    rep.not_decided = ['cascades driven by piggybacked contents (bounded by max_transmissions, a runtime quantity)']
    rep.assumptions = ['peers run the same protocol code (the graph is that of this implementation)']
    for cfgname in ctx.configs(quick=('base',), thorough=('base', 'wire', 'nostd')):
        f = ctx.facts(cfgname)
        rep.cur_config = cfgname
        common.check_derives(f, rep, 'C18-R0')
        check_graph(ctx, f, rep)
        r4_renewal_argument(ctx, f, rep)
        # the gossip / announce rounds a datagram can set off (refutation, rejoin) send to at most `wanted` members: the
        # targets are popped from a buffer that was empty before it was filled (C07-R7 re-run)
        rep.rule('C18-R3', 'content-triggered rounds (gossip after a refutation or a rejoin) fan out to at most the configured '
                           'number of members: their targets are chosen into the cleared scratch buffer or a fresh vector')
        from . import c07 as _c07, c09 as _c09
        _c07.r7_scratch(ctx, f, _c09._Rename(rep, 'C07-R7', 'C18-R3'))
    rep.cur_config = None

#!/usr/bin/env python3
"""Self-test of the checker: apply one source mutation to a scratch copy of the repository and require the
named check to report a VIOLATION (mutants), or to stay silent (neutral edits).

  selftest/mutate.py list
  selftest/mutate.py run [-j N] [name ...]        run checks against mutants (all by default)
  selftest/mutate.py validate [-j N] [name ...]   confirm mutants compile and pass the repository's own tests
  selftest/mutate.py patch <name>                 print the mutant as a unified diff

$VERIF_ONLY_PROPS=C06,C07 restricts a run to those checks (re-sweeping after a rule change).

Scratch copies live under $VERIF_SCRATCH (default /tmp/verif-selftest) and are removed after use.
"""
import concurrent.futures as cf
import difflib
import json
import os
import shutil
import subprocess
import sys

HERE = os.path.dirname(os.path.abspath(__file__))
VERIF = os.path.dirname(HERE)
REPO = os.environ.get('VERIF_REPO_BASE', '/repo')
SCRATCH = os.environ.get('VERIF_SCRATCH', '/tmp/verif-selftest-%d' % os.getpid())
sys.path.insert(0, HERE)
from mutants import MUTANTS, NEUTRAL  # noqa: E402


def make_copy(slot):
    d = os.path.join(SCRATCH, 'w%d' % slot)
    if os.path.exists(d):
        shutil.rmtree(d)
    os.makedirs(d)
    subprocess.check_call(['rsync', '-a', '--exclude', 'target', '--exclude', '.git', REPO + '/', d + '/'])
    return d


def apply_edits(d, m):
    for rp in m.get('revert', []):
        subprocess.check_call(['patch', '-R', '-p1', '-s', '-i', os.path.join(VERIF, rp)], cwd=d)
    for fp in m.get('apply', []):
        subprocess.check_call(['patch', '-p1', '-s', '-i', os.path.join(VERIF, fp)], cwd=d)
    for e in m['edits']:
        path = os.path.join(d, e[0])
        s = open(path).read()
        old, new = e[1], e[2]
        if isinstance(old, tuple) and old[0] == 're':
            import re
            s2, n = re.subn(old[1], new, s)
            if n < 1:
                raise SystemExit('mutant %s: regex %r matches nothing in %s' % (m['name'], old[1], e[0]))
            open(path, 'w').write(s2)
            continue
        cnt = s.count(old)
        if cnt != 1:
            raise SystemExit('mutant %s: pattern occurs %d times in %s: %r' % (m['name'], cnt, e[0], old[:60]))
        open(path, 'w').write(s.replace(old, new))


def diff_of(m):
    out = []
    for rp in m.get('revert', []):
        out.append('# reverse of %s\n' % rp)
    for e in m['edits']:
        s = open(os.path.join(REPO, e[0])).read()
        if isinstance(e[1], tuple):
            import re
            t = re.sub(e[1][1], e[2], s)
        else:
            t = s.replace(e[1], e[2])
        out += list(difflib.unified_diff(s.splitlines(True), t.splitlines(True), 'a/' + e[0], 'b/' + e[0]))
    return ''.join(out)


def run_one(args):
    m, slot, neutral = args
    d = make_copy(slot)
    try:
        apply_edits(d, m)
        res = {}
        only = set(filter(None, os.environ.get('VERIF_ONLY_PROPS', '').split(',')))
        for prop in m['props']:
            if only and prop not in only:
                continue
            env = dict(os.environ, VERIF_REPO=d, VERIF_EVIDENCE_DIR=os.path.join(d, '.evidence'))
            r = subprocess.run([os.path.join(VERIF, 'check'), prop], env=env, stdout=subprocess.PIPE,
                               stderr=subprocess.STDOUT, text=True)
            viol = [l for l in r.stdout.splitlines() if l.startswith('VIOLATION') or l.strip().startswith('rule=')]
            res[prop] = {'exit': r.returncode, 'rules': sorted({l.split('rule=')[1].split()[0] for l in viol if 'rule=' in l}),
                         'out': r.stdout[-3000:]}
        return m['name'], res
    finally:
        shutil.rmtree(d, ignore_errors=True)


def validate_one(args):
    """cargo test on a scratch copy with the mutant applied.  The copy lives at a per-slot path and its target
    directory persists for the slot, so only the foca crate itself is rebuilt per mutant."""
    m, slot = args
    d = os.path.join(SCRATCH, 'v%d' % slot)
    os.makedirs(d, exist_ok=True)
    subprocess.check_call(['rsync', '-a', '--delete', '--exclude', 'target', '--exclude', '.git', REPO + '/', d + '/'])
    apply_edits(d, m)
    env = dict(os.environ, CARGO_NET_OFFLINE='true', CARGO_TARGET_DIR=os.path.join(d, 'target'))
    r = subprocess.run(['cargo', 'test', '--workspace', '--no-fail-fast', '--offline'], cwd=d, env=env,
                       stdout=subprocess.PIPE, stderr=subprocess.STDOUT, text=True)
    lines = [l for l in r.stdout.splitlines() if l.startswith('test result') or 'FAILED' in l or l.startswith('error')]
    return m['name'], {'exit': r.returncode, 'summary': lines[:12]}


def main():
    a = sys.argv[1:]
    if not a or a[0] == 'list':
        for m in MUTANTS:
            print('%-40s %-12s %s' % (m['name'], ','.join(m['props']), m['why']))
        for m in NEUTRAL:
            print('%-40s %-12s (neutral) %s' % (m['name'], ','.join(m['props']), m['why']))
        return 0
    cmd = a[0]
    a = a[1:]
    jobs = 8
    if a and a[0] == '-j':
        jobs = int(a[1])
        a = a[2:]
    if cmd == 'patch':
        m = [x for x in MUTANTS + NEUTRAL if x['name'] == a[0]][0]
        sys.stdout.write(diff_of(m))
        return 0
    sel = [m for m in MUTANTS if not a or m['name'] in a]
    seln = [m for m in NEUTRAL if not a or m['name'] in a]
    os.makedirs(SCRATCH, exist_ok=True)
    bad = 0
    if cmd == 'run':
        work = [(m, i, False) for i, m in enumerate(sel)] + [(m, len(sel) + i, True) for i, m in enumerate(seln)]
        import threading
        slots = list(range(jobs))
        lock = threading.Lock()

        def with_slot(args):
            m, _, neutral = args
            with lock:
                slot = slots.pop()
            try:
                return run_one((m, slot, neutral))
            finally:
                with lock:
                    slots.append(slot)
        global run_one_slot
        run_one_slot = with_slot
        with cf.ThreadPoolExecutor(jobs) as ex:
            for (m, slot, neutral), (name, res) in zip(work, ex.map(with_slot, work)):
                for prop, r in res.items():
                    if neutral:
                        ok = r['exit'] == 0
                        print('%s %-40s %s neutral -> exit %d %s' % ('ok  ' if ok else 'FAIL', name, prop, r['exit'], r['rules']))
                    else:
                        ok = r['exit'] == 1 and bool(r['rules'])
                        print('%s %-40s %s -> exit %d rules=%s' % ('ok  ' if ok else 'MISS', name, prop, r['exit'], r['rules']))
                    if not ok:
                        bad += 1
                        if os.environ.get('VERBOSE'):
                            print(r['out'])
    elif cmd == 'validate':
        import threading
        work = sel + seln
        results = {}
        vslots = list(range(jobs))
        vlock = threading.Lock()

        def v_with_slot(m):
            with vlock:
                slot = vslots.pop()
            try:
                return validate_one((m, slot))
            finally:
                with vlock:
                    vslots.append(slot)
        with cf.ThreadPoolExecutor(jobs) as ex:
            for name, res in ex.map(v_with_slot, work):
                results[name] = res
                print('%-40s exit=%d %s' % (name, res['exit'], ' | '.join(res['summary'][:3])), flush=True)
        p = os.path.join(HERE, 'validated.json')
        old = json.load(open(p)) if os.path.exists(p) else {}
        old.update(results)
        json.dump(old, open(p, 'w'), indent=1, sort_keys=True)
    shutil.rmtree(SCRATCH, ignore_errors=True)
    # drop the per-slot dependency caches the exporter created for the scratch paths
    import glob
    import hashlib
    for i in range(0, 4000):
        d = os.path.join(SCRATCH, 'w%d' % i)
        tag = hashlib.sha1(os.path.abspath(d).encode()).hexdigest()[:8]
        for t in glob.glob(os.path.join(VERIF, '.cache', 'target', '*-' + tag)):
            shutil.rmtree(t, ignore_errors=True)
    return 1 if bad else 0


if __name__ == '__main__':
    sys.exit(main())

"""Mutant corpus: single-instance breakages of caio/foca that the static checks must report, and neutral
(behaviour-preserving) edits on which they must stay silent.  Edits are (file, old, new) exact replacements;
`old` must occur exactly once in the current tree."""

MUTANTS = []
NEUTRAL = []


def M(name, props, rules, why, *edits):
    MUTANTS.append({'name': name, 'props': props, 'rules': rules, 'why': why, 'edits': list(edits)})


def R(name, props, rules, why, *patches):
    MUTANTS.append({'name': name, 'props': props, 'rules': rules, 'why': why, 'edits': [], 'revert': list(patches)})


def N(name, props, why, *edits):
    NEUTRAL.append({'name': name, 'props': props, 'why': why, 'edits': list(edits)})


def NP(name, props, why, *patches):
    """A neutral edit given as a patch file (relative to /verif): behaviour-preserving refactors written by
    independent sub-agents, see selftest/neutral/*.NOTES.md."""
    NEUTRAL.append({'name': name, 'props': props, 'why': why, 'edits': [], 'apply': list(patches)})


MEMBER = 'src/member.rs'
LIB = 'src/lib.rs'

# ---------------------------------------------------------------- C01
M('c01_suspect_needs_higher_inc', ['C01'], ['C01-R1'], 'Suspect no longer overrides Alive at equal incarnation',
  (MEMBER, 'State::Suspect => other_incarnation >= self.incarnation,', 'State::Suspect => other_incarnation > self.incarnation,'))
M('c01_down_changeable', ['C01', 'C11'], ['C01-R1', 'C11-R5'], 'a Down record can be overridden by a higher incarnation',
  (MEMBER, '            State::Down => false,\n        }\n    }\n\n    pub(crate) fn into_identity',
   '            State::Down => other_incarnation > self.incarnation,\n        }\n    }\n\n    pub(crate) fn into_identity'))
M('c01_suspect_alive_same_inc', ['C01'], ['C01-R1'], 'Alive refutes Suspect at the same incarnation',
  (MEMBER, 'State::Alive | State::Suspect => other_incarnation > self.incarnation,',
   'State::Alive => other_incarnation >= self.incarnation,\n                State::Suspect => other_incarnation > self.incarnation,'))
M('c01_conflict_polarity', ['C01', 'C09'], ['C01-R3', 'C09-R2'], 'conflict resolution asks the update instead of the stored identity',
  (MEMBER, 'if id_conflict && known_member.id.win_addr_conflict(&update.id) {', 'if id_conflict && !update.id.win_addr_conflict(&known_member.id) {'))
M('c01_lookup_by_identity', ['C01', 'C09'], ['C01-R3', 'C09-R2'], 'records are looked up by identity instead of address',
  (MEMBER, '.find(|member| member.id.addr() == update.id().addr())', '.find(|member| &member.id == update.id())'))
M('c01_replace_keeps_incarnation', ['C01'], ['C01-R3'], 'conflict replacement keeps the old incarnation',
  (MEMBER, '                known_member.incarnation = update.incarnation;\n', ''))
M('c01_change_state_ignores_table', ['C01'], ['C01-R2'], 'change_state writes the state even when can_change is false',
  (MEMBER, '        } else {\n            false\n        }\n    }\n\n    const fn can_change',
   '        } else {\n            self.state = state;\n            false\n        }\n    }\n\n    const fn can_change'))
M('c01_own_addr_applied_verbatim', ['C01', 'C09'], ['C01-R4', 'C09-R3'], 'updates about the own address are applied with their own state',
  (LIB, '                self.apply_update(\n                    Member::down(update.into_identity()),\n                    do_broadcast,',
   '                self.apply_update(\n                    update,\n                    do_broadcast,'))
N('c01_match_to_if', ['C01'], 'can_change written with if/else instead of nested match',
  (MEMBER, '''        match self.state {
            State::Alive => match other {
                State::Alive => other_incarnation > self.incarnation,
                State::Suspect => other_incarnation >= self.incarnation,
                State::Down => true,
            },
            State::Suspect => match other {
                State::Alive | State::Suspect => other_incarnation > self.incarnation,
                State::Down => true,
            },
            State::Down => false,
        }''', '''        if matches!(self.state, State::Down) {
            return false;
        }
        if matches!(other, State::Down) {
            return true;
        }
        if matches!(self.state, State::Alive) && matches!(other, State::Suspect) {
            self.incarnation <= other_incarnation
        } else {
            self.incarnation < other_incarnation
        }'''))

# ---------------------------------------------------------------- reverting the repairs of the genuine defects
R('revert_D1_set_config_send_buf', ['C06'], ['C06-R4'], 'D1: set_config no longer rebuilds send_buf', 'findings/fix_D1.diff')
R('revert_D2_turnundead_on_failed_apply', ['C11'], ['C11-R3'], 'D2: courtesy TurnUndead sent although nothing was applied', 'findings/fix_D2.diff')
R('revert_D3_turnundead_bounce', ['C18'], ['C18-R2'], 'D3: TurnUndead answered with TurnUndead while defunct', 'findings/fix_D3.diff')
R('revert_D4_announce_own_addr', ['C19'], ['C19-R1'], 'D4: announce_to_down may target own address', 'findings/fix_D4.diff')
R('revert_D5_big_broadcast', ['C06', 'C16'], ['C06-R2', 'C16-R1'], 'D5: add_broadcast accepts items > u16::MAX', 'findings/fix_D5.diff')
R('revert_D6_feed_count', ['C06', 'C07'], ['C06-R2', 'C07-R4'], 'D6: feed member count may overflow u16', 'findings/fix_D6.diff')

# ---------------------------------------------------------------- C06
BROADCAST = 'src/broadcast.rs'
M('c06_get_u16_guard_weakened', ['C06'], ['C06-R2'], 'member count read with only 1 byte guaranteed',
  (LIB, 'if remaining >= 2 && header.message != Message::Broadcast {', 'if remaining >= 1 && header.message != Message::Broadcast {'))
M('c06_custom_loop_guard_weakened', ['C06'], ['C06-R2'], 'length prefix read with fewer than 2 bytes left',
  (LIB, 'while data.remaining() > 2 {', 'while data.remaining() > 0 {'))
M('c06_custom_len_check_dropped', ['C06', 'C16'], ['C06-R2'], 'item length not compared with what is left',
  (LIB, 'if pkt_len == 0 || data.len() < pkt_len {', 'if pkt_len == 0 {'))
M('c06_put_u16_guard_weakened', ['C06', 'C07'], ['C06-R2'], 'count placeholder written with 1 byte left',
  (LIB, 'if header.message.needs_piggyback() && buf.remaining_mut() > 2 {', 'if header.message.needs_piggyback() && buf.remaining_mut() > 0 {'))
M('c06_num_active_plain_sub', ['C06'], ['C06-R1', 'C06-R2', 'C06-R3'], 'num_active decremented with plain subtraction',
  (MEMBER, 'self.num_active = self.num_active.saturating_sub(1);', 'self.num_active = self.num_active - 1;'))
M('c06_token_plain_add', ['C06'], ['C06-R1', 'C06-R2', 'C06-R3'], 'timer token bumped with plain addition (overflows after 255 epochs)',
  (LIB, "        // handling events that aren't relevant anymore.\n        self.timer_token = self.timer_token.wrapping_add(1);",
   "        // handling events that aren't relevant anymore.\n        self.timer_token = self.timer_token + 1;"))
M('c06_new_unwrap', ['C06'], ['C06-R2'], 'forget-timer handler unwraps the removal result',
  (LIB, 'if let Some(_removed) = self.members.remove_if_down(&down) {', 'let _removed = self.members.remove_if_down(&down).unwrap(); {'))
M('c06_fill_fit_test_weakened', ['C06', 'C15'], ['C06-R2'], 'fill writes an entry that may not fit',
  (BROADCAST, '            if buffer.remaining_mut() >= node.data.len() {\n                num_taken += 1;',
   '            if buffer.remaining_mut() > 0 {\n                num_taken += 1;'))
M('c06_prefix_fit_forgets_prefix', ['C06', 'C15', 'C16'], ['C06-R2', 'C15-R2', 'C16-R3'], 'length-prefixed fill forgets the 2 prefix bytes in the fit test',
  (BROADCAST, 'if buffer.remaining_mut() >= node.data.len() + 2 {', 'if buffer.remaining_mut() >= node.data.len() {'))
M('c06_reservoir_index', ['C06'], ['C06-R2'], 'reservoir replacement index may equal wanted',
  (MEMBER, 'if replace_at < wanted {', 'if replace_at <= wanted {'))
M('c06_postcard_flavor_unbounded', ['C06', 'C20'], ['C06-R2', 'C20-R1'], 'postcard flavor writes without checking the space left',
  ('src/codec/postcard_impl.rs', '        if self.0.remaining_mut() >= data.len() {\n            self.0.put_slice(data);\n            Ok(())\n        } else {\n            Err(postcard::Error::SerializeBufferFull)\n        }',
   '        self.0.put_slice(data);\n        Ok(())'))
M('c06_flop_early_return', ['C06', 'C15'], ['C06-R2'], 'fill returns early leaving entries in flop',
  (BROADCAST, '                self.flop.push(node);\n            }\n        }\n\n        self.flip.append(&mut self.flop);\n\n        num_taken\n    }\n\n    pub(crate) fn fill_with_len_prefix(',
   '                self.flop.push(node);\n            }\n            if num_taken == 7 {\n                return num_taken;\n            }\n        }\n\n        self.flip.append(&mut self.flop);\n\n        num_taken\n    }\n\n    pub(crate) fn fill_with_len_prefix('))
M('c06_apply_update_self', ['C06', 'C09'], ['C06-R2', 'C09-R3'], 'handle_data only rejects own-address data when the identity differs',
  (LIB, 'if header.src == self.identity || header.src.addr() == self.identity.addr() {', 'if header.src != self.identity && header.src.addr() == self.identity.addr() {'))

# ---------------------------------------------------------------- C07
PAYLOAD = 'src/payload.rs'
M('c07_turnundead_allows_custom', ['C07', 'C16'], ['C07-R3', 'C16-R3'], 'TurnUndead may carry custom broadcasts (the v0.17.2 bug)',
  (PAYLOAD, '!matches!(self, Self::Announce | Self::TurnUndead)\n', '!matches!(self, Self::Announce)\n'))
M('c07_broadcast_piggybacks', ['C07', 'C15'], ['C07-R3'], 'Broadcast datagrams get a member section',
  (PAYLOAD, '!matches!(self, Self::Announce | Self::TurnUndead | Self::Broadcast)', '!matches!(self, Self::Announce | Self::TurnUndead)'))
M('c07_feed_picker_dropped', ['C07'], ['C07-R6'], 'Feed may list the receiver itself',
  (LIB, '                    |member| member != &dst,\n', '                    |_member| true,\n'))
M('c07_count_before_encode', ['C07'], ['C07-R4'], 'member counted before it is encoded',
  (LIB, '                    let pos = buf.get_ref().len();\n', '                    num_items += 1;\n                    let pos = buf.get_ref().len();\n'),
  (LIB, '                        break;\n                    }\n                    num_items += 1;\n', '                        break;\n                    }\n'))
M('c07_truncate_dropped', ['C07', 'C20'], ['C07-R4', 'C20-R5'], 'half-encoded member left in the datagram',
  (LIB, '                        buf.get_mut().truncate(pos);\n', ''))
M('c07_header_incarnation_zero', ['C07', 'C10'], ['C07-R1'], 'header carries incarnation 0 instead of the current one',
  (LIB, '            src_incarnation: self.incarnation,\n            dst: dst.clone(),', '            src_incarnation: Incarnation::default(),\n            dst: dst.clone(),'))
M('c07_header_dst_self', ['C07'], ['C07-R1'], 'header destination is not the identity the datagram is handed over for',
  (LIB, '            src_incarnation: self.incarnation,\n            dst: dst.clone(),', '            src_incarnation: self.incarnation,\n            dst: self.identity.clone(),'))
M('c07_count_threshold_raised', ['C07'], ['C07-R5'], 'count omitted although custom items may still fit',
  (LIB, 'if header.message.needs_piggyback() && buf.remaining_mut() > 2 {', 'if header.message.needs_piggyback() && buf.remaining_mut() > 5 {'))
M('c07_feed_in_drain_loop', ['C07'], ['C07-R7'], 'Feed sent while draining choice_buf (send_message refills it)',
  (LIB, 'self.choose_and_send(params.num_members.get(), Message::Announce, runtime)?;', 'self.choose_and_send(params.num_members.get(), Message::Feed, runtime)?;'))
M('c07_len_prefix_little_endian', ['C07', 'C16'], ['C07-R5'], 'item length written little-endian, read big-endian',
  (BROADCAST, 'buffer.put_u16(node.data.len() as u16);', 'buffer.put_u16_le(node.data.len() as u16);'))
M('c07_reader_predicate_changed', ['C07'], ['C07-R5'], 'reader skips the member section for Gossip instead of Broadcast',
  (LIB, 'if remaining >= 2 && header.message != Message::Broadcast {', 'if remaining >= 2 && header.message != Message::Gossip {'))
M('c07_patch_off_by_one', ['C07'], ['C07-R4'], 'count field says one more than what follows',
  (LIB, 'buf.get_mut()[tally_position..].as_mut().put_u16(num_items);', 'buf.get_mut()[tally_position..].as_mut().put_u16(num_items + 1);'))
M('c07_limit_unbounded', ['C07'], ['C07-R1'], 'packet buffer no longer limited to max_packet_size',
  (LIB, 'let mut buf = mem::take(&mut self.send_buf).limit(self.config.max_packet_size.get());', 'let mut buf = mem::take(&mut self.send_buf).limit(usize::MAX);'))
M('c07_raw_push_after_header', ['C07'], ['C07-R2'], 'a byte pushed on the inner Vec, bypassing the limit',
  (LIB, '        // If we\'re piggybacking data, we need at least 2 extra bytes\n', '        buf.get_mut().push(0);\n        // If we\'re piggybacking data, we need at least 2 extra bytes\n'))
M('c07_updates_in_feed', ['C07', 'C15'], ['C07-R3'], 'cluster updates piggybacked instead of active members on Feed',
  (LIB, '            if header.message.piggyback_only_active() {\n                self.choice_buf.clear();', '            if !header.message.piggyback_only_active() {\n                self.choice_buf.clear();'))
M('c07_custom_gate_dropped', ['C07', 'C16'], ['C07-R3', 'C16-R3'], 'custom broadcasts attached without asking the handler',
  (LIB, '            && header.message.allow_custom_broadcasts()\n            // Unless the broadcast handler says no\n            && self.broadcast_handler.should_add_broadcast_data(&dst);',
   '            && header.message.allow_custom_broadcasts();'))

# ---------------------------------------------------------------- C08
RUNTIME = 'src/runtime.rs'
M('c08_memberdown_polarity', ['C08'], ['C08-R2'], 'MemberUp notified when the member went down',
  (LIB, '        if summary.changed_active_set {\n            if summary.is_active_now {', '        if summary.changed_active_set {\n            if !summary.is_active_now {'))
M('c08_memberup_without_change', ['C08'], ['C08-R2'], 'MemberUp/Down notified on every successful apply, not only on active-set changes',
  (LIB, '        if summary.changed_active_set {\n            if summary.is_active_now {', '        if summary.apply_successful {\n            if summary.is_active_now {'))
M('c08_rename_after_up', ['C08'], ['C08-R2'], 'Rename notified after MemberUp',
  (LIB, '''        if let member::ConflictResult::Replaced(old) = summary.conflict {
            #[cfg(feature = "tracing")]
            tracing::debug!(
                previous_id = tracing::field::debug(&old),
                member_id = tracing::field::debug(&id),
                "Renamed"
            );
            runtime.notify(Notification::Rename(&old, &id));
        }

''', ''),
  (LIB, '''                runtime.notify(Notification::MemberDown(&id));
            }
        }
''', '''                runtime.notify(Notification::MemberDown(&id));
            }
        }
        if let member::ConflictResult::Replaced(old) = summary.conflict {
            runtime.notify(Notification::Rename(&old, &id));
        }
'''))
M('c08_summary_dropped_on_probe_failure', ['C08'], ['C08-R3'], 'probe failure applies Suspect but never handles the summary',
  (LIB, '                self.handle_apply_summary(summary, as_suspect, true, &mut runtime)?;\n', '                let _ = (summary, as_suspect);\n'))
M('c08_was_active_after_write', ['C08'], ['C08-R4'], 'was_active is sampled after the record was modified',
  (MEMBER, '            let was_active = known_member.is_active();\n\n            let (apply_successful, conflict) = if id_conflict {',
   '            let (apply_successful, conflict) = if id_conflict {'),
  (MEMBER, '            let is_active_now = known_member.is_active();\n            let changed_active_set', '            let was_active = known_member.is_active();\n            let is_active_now = known_member.is_active();\n            let changed_active_set'))
M('c08_num_active_on_every_apply', ['C08'], ['C08-R4'], 'num_active bumped whenever the update is active, not only when the set changed',
  (MEMBER, '            if changed_active_set {\n                // XXX Overzealous checking\n                if is_active_now {', '            if apply_successful {\n                // XXX Overzealous checking\n                if is_active_now {'))
M('c08_undead_without_defunct', ['C08'], ['C08-R5'], 'become_undead only notifies Defunct when it was connected',
  (LIB, '        runtime.notify(Notification::Defunct);', '        if self.probe.validate() {\n            runtime.notify(Notification::Defunct);\n        }'))
M('c08_connected_without_members', ['C08'], ['C08-R5', 'C06-R2'], 'Active reported from the idle state without any active member',
  (LIB, '                if self.members.num_active() > 0 {\n                    self.become_connected(runtime);', '                if self.members.num_active() > 0 || self.updates_backlog() > 3 {\n                    self.become_connected(runtime);'))
M('c08_no_adjust_after_timeout', ['C08'], ['C08-R6'], 'suspicion timeout no longer re-evaluates the connection state',
  (LIB, '                        // Member went down we might need to adjust our internal state\n                        self.adjust_connection_state(&mut runtime);\n', ''))
M('c08_rejoin_before_change', ['C08', 'C10'], ['C08-R5'], 'Rejoin notified even if change_identity failed',
  (LIB, '                self.change_identity(new_identity.clone(), &mut runtime)?;\n\n                runtime.notify(Notification::Rejoin(&new_identity));',
   '                runtime.notify(Notification::Rejoin(&new_identity));\n                self.change_identity(new_identity.clone(), &mut runtime)?;\n'))
M('c08_accumulating_lifo', ['C08'], ['C08-R7'], 'AccumulatingRuntime yields notifications last-in first-out',
  (RUNTIME, '        self.notifications.pop_front()', '        self.notifications.pop_back()'))
M('c08_accumulating_stale_bytes', ['C08'], ['C08-R7'], 'AccumulatingRuntime keeps previous bytes in its scratch buffer',
  (RUNTIME, '        let packet = self.buf.split().freeze();', '        let packet = self.buf.clone().freeze();'))
M('c08_idle_notified_in_reset', ['C08'], ['C08-R1', 'C08-R5'], 'reset() notifies Idle (identity change must be silent)',
  (LIB, '''    fn reset(&mut self) {
        self.connection_state = ConnectionState::Disconnected;''', '''    fn reset(&mut self) {
        if self.connection_state == ConnectionState::Connected {
            self.probe.clear();
        }
        self.connection_state = ConnectionState::Connected;'''))

# ---------------------------------------------------------------- C09
M('c09_sender_addr_check_dropped', ['C09', 'C19'], ['C09-R3'], 'datagrams from another identity of the own address are processed',
  (LIB, 'if header.src == self.identity || header.src.addr() == self.identity.addr() {', 'if header.src == self.identity {'))
M('c09_inactive_payload_applied', ['C09'], ['C09-R4'], 'payload of an inactive sender is applied unless it is a TurnUndead',
  (LIB, '        if !sender_is_active {\n', '        if !sender_is_active && message == Message::TurnUndead {\n'))
M('c09_lost_conflict_counts_as_active', ['C09'], ['C09-R4'], 'a sender that lost the address conflict is treated as active',
  (LIB, 'member::ConflictResult::Lost | member::ConflictResult::FailedCondition => false,', 'member::ConflictResult::FailedCondition => false,'))
M('c09_remove_any_state', ['C09', 'C11', 'C08'], ['C09-R5', 'C08-R4'], 'forget-timer removes the record whatever its state',
  (MEMBER, '.position(|member| &member.id == id && member.state == State::Down);', '.position(|member| &member.id == id);'))
M('c09_none_when_condition_fails', ['C09'], ['C09-R1'], 'apply_existing_if reports "unknown" when the condition fails, so apply() registers a duplicate',
  (MEMBER, '''            if !condition(known_member) {
                return Some(ApplySummary {''', '''            if !condition(known_member) && known_member.incarnation == u16::MAX {
                return None;
            }
            if !condition(known_member) {
                return Some(ApplySummary {'''))
M('c09_replaced_reports_new_id', ['C09', 'C08'], ['C09-R2'], 'Rename reports the new identity as the previous one',
  (MEMBER, '                (true, ConflictResult::Replaced(update.id))', '                (true, ConflictResult::Replaced(known_member.id.clone()))'))
M('c09_forget_from_elsewhere', ['C09', 'C11'], ['C09-R5'], 'Down records are also dropped when the probe wraps around',
  (LIB, '        let probe_was_incomplete = !self.probe.validate();\n', '        let probe_was_incomplete = !self.probe.validate();\n        let _ = self.members.remove_if_down(&self.identity);\n'))

# ---------------------------------------------------------------- C10
M('c10_bump_on_stale_suspicion', ['C10'], ['C10-R1'], 'incarnation bumped also for a suspicion about an older incarnation',
  (LIB, '                            "Received suspicion about old incarnation",\n                        );\n                        false', '                            "Received suspicion about old incarnation",\n                        );\n                        true'),
  )
M('c10_bump_without_max', ['C10'], ['C10-R1'], 'bump ignores a higher incoming incarnation (refutation not strong enough)',
  (LIB, 'self.incarnation = incarnation.saturating_add(1);', 'self.incarnation = self.incarnation.saturating_add(1);'))
M('c10_no_bump_on_higher', ['C10'], ['C10-R1'], 'no bump when the suspicion names a higher incarnation than the current one',
  (LIB, '''                            "Suspicion on incarnation higher than current",
                        );
                        true''', '''                            "Suspicion on incarnation higher than current",
                        );
                        false'''))
M('c10_reset_keeps_incarnation', ['C10'], ['C10-R1'], 'identity change keeps the old incarnation',
  (LIB, '        self.incarnation = Incarnation::default();\n        self.timer_token = self.timer_token.wrapping_add(1);', '        self.timer_token = self.timer_token.wrapping_add(1);'))
M('c10_max_check_off_by_one', ['C10'], ['C10-R1'], 'MAX handling compares against MAX - 1... only own incarnation considered',
  (LIB, 'let incarnation = Incarnation::max(incarnation, self.incarnation);', 'let incarnation = Incarnation::max(incarnation.min(7), self.incarnation);'))
M('c10_suspect_bumps_known_incarnation', ['C10', 'C12'], ['C10-R3'], 'probe failure suspects the member at incarnation + 1 (fabricated)',
  (LIB, 'let as_suspect = Member::new(failed.id().clone(), failed.incarnation(), State::Suspect);', 'let as_suspect = Member::new(failed.id().clone(), failed.incarnation().saturating_add(1), State::Suspect);'))
M('c10_gossip_different_update', ['C10'], ['C10-R3'], 'what is gossiped is not the update that was applied',
  (LIB, '                let data = self.serialize_member(update)?;', '                let data = self.serialize_member(Member::new(id.clone(), update.incarnation(), State::Alive))?;'))
M('c10_defunct_skipped_when_disconnected', ['C10', 'C08'], ['C10-R4', 'C08-R5'], 'a non-renewable instance told it is Down stays as it is when it was idle',
  (LIB, '''                if !self.attempt_rejoin(&mut runtime)? {
                    self.become_undead(runtime);
                }
            }
        }
        Ok(())''', '''                if !self.attempt_rejoin(&mut runtime)? {
                    if self.connection_state == ConnectionState::Connected {
                        self.become_undead(runtime);
                    }
                }
            }
        }
        Ok(())'''))
M('c10_rejoin_with_losing_identity', ['C10'], ['C10-R4'], 'renewed identity accepted even if it does not win the conflict',
  (LIB, '} else if !new_identity.win_addr_conflict(&self.identity) {', '} else if self.identity.win_addr_conflict(&new_identity) && new_identity.win_addr_conflict(&self.identity) {'))
M('c10_previous_identity_not_declared_down', ['C10'], ['C10-R4'], 'change_identity never queues Down(previous)',
  (LIB, '            if !previous_is_down {\n                let addr', '            if previous_is_down {\n                let addr'))
M('c10_identity_without_reset', ['C10', 'C13'], ['C10-R2'], 'identity changed without resetting incarnation/epoch when idle',
  (LIB, '            let previous_id = mem::replace(&mut self.identity, new_id);\n\n            self.reset();', '            let previous_id = mem::replace(&mut self.identity, new_id);\n\n            if self.connection_state != ConnectionState::Disconnected {\n                self.reset();\n            }'))

# ---------------------------------------------------------------- C11
M('c11_epoch_check_weakened', ['C11', 'C13'], ['C11-R1', 'C13-R2'], 'suspicion timeouts of older epochs still take effect',
  (LIB, '                if self.timer_token == token {\n                    let as_down', '                if self.timer_token >= token {\n                    let as_down'))
M('c11_condition_ge', ['C11'], ['C11-R1'], 'timeout applies even if the member refuted with a higher incarnation... inverted: applies when record incarnation >= snapshot',
  (LIB, '                            member.incarnation() == incarnation\n', '                            member.incarnation() >= incarnation\n'))
M('c11_condition_dropped', ['C11'], ['C11-R1'], 'timeout applies unconditionally',
  (LIB, '                        .apply_existing_if(as_down.clone(), |member| {\n                            member.incarnation() == incarnation\n                        })',
   '                        .apply_existing_if(as_down.clone(), |_member| true)'))
M('c11_forget_timer_only_when_broadcasting', ['C11'], ['C11-R4'], 'no forget-timer for members learned Down with broadcasting disabled',
  (LIB, '            if !summary.is_active_now {\n                runtime.submit_after(Timer::RemoveDown', '            if !summary.is_active_now && do_broadcast {\n                runtime.submit_after(Timer::RemoveDown'))
M('c11_suspicion_timer_next_epoch', ['C11', 'C13'], ['C11-R2'], 'suspicion timer stamped with the next epoch',
  (LIB, '                            incarnation: failed.incarnation(),\n                            token: self.timer_token,', '                            incarnation: failed.incarnation(),\n                            token: self.timer_token.wrapping_add(1),'))
M('c11_suspicion_timer_zero_incarnation', ['C11'], ['C11-R2'], 'suspicion timer snapshots incarnation 0 instead of the record\'s',
  (LIB, '                            incarnation: failed.incarnation(),\n                            token: self.timer_token,', '                            incarnation: Incarnation::default(),\n                            token: self.timer_token,'))
M('c11_turnundead_unconditional', ['C11'], ['C11-R4'], 'TurnUndead sent even when notify_down_members is off',
  (LIB, 'if declared_down && self.config.notify_down_members {', 'if declared_down {'))
M('c11_remove_down_wrong_delay', ['C11'], ['C11-R4'], 'forget-timer scheduled after suspect_to_down_after',
  (LIB, 'runtime.submit_after(Timer::RemoveDown(id.clone()), self.config.remove_down_after);', 'runtime.submit_after(Timer::RemoveDown(id.clone()), self.config.suspect_to_down_after);'))
M('c11_gossip_on_failed_apply', ['C11', 'C15'], ['C11-R3', 'C11-R4'], 'updates are queued for gossip even when nothing was applied',
  (LIB, '        if summary.apply_successful {\n', '        if summary.apply_successful || !summary.is_active_now {\n'))

# ---------------------------------------------------------------- C12
PROBE = 'src/probe.rs'
M('c12_ack_any_number', ['C12'], ['C12-R1'], 'an Ack with any probe number counts as evidence',
  (PROBE, '        if probeno == self.probe_number\n            && self', '        if (probeno == self.probe_number || probeno == 0)\n            && self'))
M('c12_ack_from_anyone', ['C12'], ['C12-R1'], 'an Ack from any member counts as evidence for the probed one',
  (PROBE, '                .is_some_and(|direct| direct.id() == from)', '                .is_some_and(|_direct| true)'))
M('c12_indirect_ack_from_unasked', ['C12'], ['C12-R1'], 'a ForwardedAck from a member that was not asked counts',
  (PROBE, '        if let Some(position) = self.indirect.iter().position(|id| id == from) {\n            self.indirect_ack_count += 1;',
   '        if self.indirect.is_empty() {\n            self.indirect_ack_count += 1;\n            return true;\n        }\n        if let Some(position) = self.indirect.iter().position(|id| id == from) {\n            self.indirect_ack_count += 1;'))
M('c12_indirect_double_count', ['C12'], ['C12-R1'], 'an asked helper can be counted twice (not removed)',
  (PROBE, '            // Ensure we can\'t double count the same candidate\n            self.indirect.swap_remove(position);\n', '            let _ = position;\n'))
M('c12_clear_keeps_evidence', ['C12'], ['C12-R1'], 'evidence of the previous round survives clear()',
  (PROBE, '        self.direct_ack_ok = false;\n        self.indirect_ack_count = 0;', '        self.indirect_ack_count = 0;'))
M('c12_forwardedack_number_ignored', ['C12'], ['C12-R2'], 'ForwardedAck reported with the current probe number instead of the one it carries',
  (LIB, 'if self.probe.receive_indirect_ack(&src, probe_number) {', 'if self.probe.receive_indirect_ack(&src, self.probe.probe_number()) {'))
M('c12_ack_credited_to_origin', ['C12'], ['C12-R2'], 'ForwardedAck credited to the origin named in the message rather than the sender',
  (LIB, 'if self.probe.receive_indirect_ack(&src, probe_number) {', 'if self.probe.receive_indirect_ack(&origin, probe_number) {'))
M('c12_pingreq_after_success', ['C12'], ['C12-R3'], 'indirect probes are sent even if the Ack already arrived',
  (LIB, '                if self.probe.succeeded() {\n                    // We received an Ack already, nothing else to do', '                if self.probe.succeeded() && self.members.num_active() == 1 {\n                    // We received an Ack already, nothing else to do'))
M('c12_pingreq_to_target', ['C12'], ['C12-R3'], 'the probed member itself may be asked to probe itself',
  (LIB, '                    |candidate| candidate != &probed_id,\n', '                    |_candidate| true,\n'))
M('c12_pingreq_wrong_number', ['C12'], ['C12-R3'], 'PingReq carries the previous probe number',
  (LIB, '                            probe_number: self.probe.probe_number(),\n                        },\n                        &mut runtime,', '                            probe_number: self.probe.probe_number().wrapping_sub(1),\n                        },\n                        &mut runtime,'))
M('c12_relay_origin_swapped', ['C12'], ['C12-R4'], 'IndirectPing names the relay itself as origin',
  (LIB, '                    Message::IndirectPing {\n                        origin: src,', '                    Message::IndirectPing {\n                        origin: self.identity.clone(),'))
M('c12_indirectack_to_origin', ['C12'], ['C12-R4'], 'IndirectAck is sent straight to the origin instead of the relay',
  (LIB, '''                self.send_message(
                    src,
                    Message::IndirectAck {
                        target: origin,''', '''                self.send_message(
                    origin.clone(),
                    Message::IndirectAck {
                        target: origin,'''))
M('c12_ack_number_not_echoed', ['C12'], ['C12-R4'], 'Ack does not echo the probe number of the Ping',
  (LIB, 'self.send_message(src, Message::Ack(probe_number), runtime)?;', 'self.send_message(src, Message::Ack(probe_number.wrapping_add(1)), runtime)?;'))
M('c12_relay_self_check_dropped', ['C12'], ['C12-R4'], 'a PingReq naming ourselves as target is relayed to ourselves',
  (LIB, '                if target == self.identity {\n                    return Err(Error::IndirectForOurselves);\n                }\n                self.send_message(\n                    target,\n                    Message::IndirectPing {',
   '                self.send_message(\n                    target,\n                    Message::IndirectPing {'))
M('c12_replies_when_undead', ['C12'], ['C12-R4'], 'a defunct instance keeps answering probes',
  (LIB, '        if self.connection_state != ConnectionState::Connected {\n            return custom_broadcasts_result;', '        if self.connection_state == ConnectionState::Disconnected {\n            return custom_broadcasts_result;'))
M('c12_suspect_twice', ['C12', 'C11'], ['C12-R5'], 'a second suspicion timer is scheduled when the record was already Suspect',
  (LIB, '                if is_active_now {\n                    // We check for summary.apply_successful prior to logging', '                if !apply_successful {\n                    runtime.submit_after(Timer::ChangeSuspectToDown { member_id: failed.id().clone(), incarnation: failed.incarnation(), token: self.timer_token }, self.config.suspect_to_down_after);\n                }\n                if is_active_now {\n                    // We check for summary.apply_successful prior to logging'))
M('c12_probe_number_not_advanced', ['C12'], ['C12-R5'], 'probe number only advanced every other round',
  (PROBE, '        self.probe_number = self.probe_number.wrapping_add(1);', '        if self.indirect.capacity() > 0 {\n            self.probe_number = self.probe_number.wrapping_add(1);\n        }'))

# ---------------------------------------------------------------- C13
M('c13_undead_keeps_token', ['C13'], ['C13-R1'], 'becoming defunct does not start a new epoch: old timers stay effective',
  (LIB, "        // handling events that aren't relevant anymore.\n        self.timer_token = self.timer_token.wrapping_add(1);\n", "        // handling events that aren't relevant anymore.\n"))
M('c13_idle_keeps_probe', ['C13'], ['C13-R1'], 'going idle keeps the in-flight probe state',
  (LIB, '        self.timer_token = self.timer_token.wrapping_add(1);\n        self.probe.clear();\n\n        runtime.notify(Notification::Idle);', '        self.timer_token = self.timer_token.wrapping_add(1);\n\n        runtime.notify(Notification::Idle);'))
M('c13_gossip_timer_no_token_check', ['C13'], ['C13-R2'], 'periodic gossip timers of older epochs are honoured (duplicated loops)',
  (LIB, '''                // Exact same thing as PeriodicAnnounce, just using different settings / messages
                if token == self.timer_token && self.connection_state == ConnectionState::Connected''', '''                // Exact same thing as PeriodicAnnounce, just using different settings / messages
                if token <= self.timer_token && self.connection_state == ConnectionState::Connected'''))
M('c13_indirect_probe_marks_before_token', ['C13'], ['C13-R2'], 'a stale SendIndirectProbe still marks the indirect stage as reached',
  (LIB, '''                if token != self.timer_token {
                    #[cfg(feature = "tracing")]
                    tracing::trace!("Invalid timer token");
                    return Ok(());
                }

                // Bookkeeping: This is how we verify that the probe code
                // is running correctly. If we reach the end of the
                // probe and this hasn't happened, we know something is
                // wrong.
                self.probe.mark_indirect_probe_stage_reached();
''', '''                self.probe.mark_indirect_probe_stage_reached();
                if token != self.timer_token {
                    return Ok(());
                }
'''))
M('c13_announce_rearm_after_send', ['C13'], ['C13-R3'], 'periodic announce re-arms after sending: a send error kills the loop',
  (LIB, '''                        runtime.submit_after(
                            Timer::PeriodicAnnounce(self.timer_token),
                            params.frequency,
                        );
                        // And send the messages
                        self.choose_and_send(params.num_members.get(), Message::Announce, runtime)?;''', '''                        let frequency = params.frequency;
                        self.choose_and_send(params.num_members.get(), Message::Announce, &mut runtime)?;
                        runtime.submit_after(Timer::PeriodicAnnounce(self.timer_token), frequency);'''))
M('c13_gossip_rearm_only_when_busy', ['C13'], ['C13-R3'], 'periodic gossip stops for good once the backlog is empty',
  (LIB, '''                        runtime.submit_after(
                            Timer::PeriodicGossip(self.timer_token),
                            params.frequency,
                        );

                        // Only actually gossip if there are updates to send
                        if !self.updates.is_empty() || !self.custom_broadcasts.is_empty() {''', '''                        // Only actually gossip if there are updates to send
                        if !self.updates.is_empty() || !self.custom_broadcasts.is_empty() {
                            runtime.submit_after(
                                Timer::PeriodicGossip(self.timer_token),
                                params.frequency,
                            );'''))
M('c13_probe_not_rearmed_on_incomplete', ['C13'], ['C13-R3'], 'probe loop dies when the cycle was incomplete',
  (LIB, '''        runtime.submit_after(
            Timer::ProbeRandomMember(self.timer_token),
            self.config.probe_period,
        );

        if probe_was_incomplete {
            Err(Error::IncompleteProbeCycle)''', '''        if probe_was_incomplete {
            return Err(Error::IncompleteProbeCycle);
        }
        runtime.submit_after(
            Timer::ProbeRandomMember(self.timer_token),
            self.config.probe_period,
        );

        if probe_was_incomplete {
            Err(Error::IncompleteProbeCycle)'''))
M('c13_connected_arms_gossip_twice', ['C13'], ['C13-R3'], 'periodic gossip armed twice when announce is also configured',
  (LIB, '''        if let Some(ref params) = self.config.periodic_announce {
            runtime.submit_after(Timer::PeriodicAnnounce(self.timer_token), params.frequency);
        }''', '''        if let Some(ref params) = self.config.periodic_announce {
            runtime.submit_after(Timer::PeriodicAnnounce(self.timer_token), params.frequency);
            if let Some(ref g) = self.config.periodic_gossip {
                runtime.submit_after(Timer::PeriodicGossip(self.timer_token), g.frequency);
            }
        }'''))
M('c13_set_config_allows_enabling_gossip', ['C13'], ['C13-R4'], 'set_config lets periodic gossip be enabled at runtime (no timer exists for it)',
  (LIB, '            || (self.config.periodic_gossip.is_none() && config.periodic_gossip.is_some())\n', ''))
M('c13_set_config_allows_rtt_change', ['C13'], ['C13-R4'], 'set_config accepts a different probe_rtt',
  (LIB, '            || self.config.probe_rtt != config.probe_rtt\n', ''))
M('c13_set_config_assigns_before_validating', ['C13', 'C17'], ['C13-R4', 'C17-R2'], 'set_config replaces the config and then validates',
  (LIB, '''        if self.config.probe_period != config.probe_period
            || self.config.probe_rtt != config.probe_rtt''', '''        let config = core::mem::replace(&mut self.config, config);
        if self.config.probe_period != config.probe_period
            || self.config.probe_rtt != config.probe_rtt'''))
M('c13_seq_collision', ['C13'], ['C13-R5'], 'two timer kinds share a sequence number',
  (RUNTIME, '            Self::PeriodicAnnounceDown(_) => 6,', '            Self::PeriodicAnnounceDown(_) => 5,'))
M('c13_seq_probe_before_indirect', ['C13'], ['C13-R5'], 'ProbeRandomMember sorts before SendIndirectProbe',
  (RUNTIME, '            } => 0,\n            Self::ProbeRandomMember(_) => 1,', '            } => 1,\n            Self::ProbeRandomMember(_) => 0,'))
M('c13_incomplete_never_reported', ['C13'], ['C13-R6'], 'validate() always true: skipped indirect stage goes unnoticed',
  (PROBE, '        self.direct.is_none()\n            // Otherwise it\'s only valid if the indirect\n            // probing stage has been reached\n            || self.reached_indirect_probe_stage',
   '        self.direct.is_none() || self.reached_indirect_probe_stage || self.indirect.is_empty()'))

# ---------------------------------------------------------------- C15
M('c15_no_decrement', ['C15'], ['C15-R2'], 'a transmitted update is never charged (gossiped forever)',
  (BROADCAST, '                buffer.put_slice(&node.data);\n                node.remaining_tx -= 1;\n            }\n\n            if node.remaining_tx > 0 {\n                self.flop.push(node);\n            }\n        }\n\n        self.flip.append(&mut self.flop);\n\n        num_taken\n    }\n\n    pub(crate) fn fill_with_len_prefix(',
   '                buffer.put_slice(&node.data);\n            }\n\n            if node.remaining_tx > 0 {\n                self.flop.push(node);\n            }\n        }\n\n        self.flip.append(&mut self.flop);\n\n        num_taken\n    }\n\n    pub(crate) fn fill_with_len_prefix('))
M('c15_decrement_even_if_not_fit', ['C15'], ['C15-R2'], 'an update that did not fit is charged a transmission anyway',
  (BROADCAST, '                buffer.put_slice(&node.data);\n                node.remaining_tx -= 1;\n            }\n\n            if node.remaining_tx > 0 {\n                self.flop.push(node);\n            }\n        }\n\n        self.flip.append(&mut self.flop);\n\n        num_taken\n    }\n\n    pub(crate) fn fill_with_len_prefix(',
   '                buffer.put_slice(&node.data);\n            }\n            node.remaining_tx -= 1;\n\n            if node.remaining_tx > 0 {\n                self.flop.push(node);\n            }\n        }\n\n        self.flip.append(&mut self.flop);\n\n        num_taken\n    }\n\n    pub(crate) fn fill_with_len_prefix('))
M('c15_nonfitting_dropped', ['C15'], ['C15-R2'], 'an update that does not fit this datagram is dropped from the backlog',
  (BROADCAST, '''                buffer.put_slice(&node.data);
                node.remaining_tx -= 1;
            }

            if node.remaining_tx > 0 {
                self.flop.push(node);
            }
        }

        self.flip.append(&mut self.flop);

        num_taken
    }

    pub(crate) fn fill_with_len_prefix(''', '''                buffer.put_slice(&node.data);
                node.remaining_tx -= 1;

                if node.remaining_tx > 0 {
                    self.flop.push(node);
                }
            }
        }

        self.flip.append(&mut self.flop);

        num_taken
    }

    pub(crate) fn fill_with_len_prefix('''))
M('c15_stop_at_first_nonfitting', ['C15'], ['C15-R2'], 'the scan stops at the first update that does not fit (smaller ones are omitted)',
  (BROADCAST, '''                buffer.put_slice(&node.data);
                node.remaining_tx -= 1;
            }

            if node.remaining_tx > 0 {
                self.flop.push(node);
            }
        }

        self.flip.append(&mut self.flop);

        num_taken
    }

    pub(crate) fn fill_with_len_prefix(''', '''                buffer.put_slice(&node.data);
                node.remaining_tx -= 1;
            } else {
                self.flop.push(node);
                break;
            }

            if node.remaining_tx > 0 {
                self.flop.push(node);
            }
        }

        self.flip.append(&mut self.flop);

        num_taken
    }

    pub(crate) fn fill_with_len_prefix('''))
M('c15_retain_polarity', ['C15', 'C16'], ['C15-R1'], 'add_or_replace keeps only the entries the new one invalidates',
  (BROADCAST, 'self.flip.retain(|node| !item.invalidates(&node.item));', 'self.flip.retain(|node| item.invalidates(&node.item));'))
M('c15_no_retain', ['C15', 'C16'], ['C15-R1'], 'stale entries for the same key are kept next to the new one',
  (BROADCAST, '        self.flip.retain(|node| !item.invalidates(&node.item));\n', ''))
M('c15_cmp_reversed', ['C15'], ['C15-R3'], 'entries with fewer transmissions left are served first',
  (BROADCAST, '        self.remaining_tx\n            .cmp(&other.remaining_tx)', '        other.remaining_tx\n            .cmp(&self.remaining_tx)'))
M('c15_do_broadcast_ignored', ['C15'], ['C15-R5'], 'applying with broadcasting disabled still queues the update',
  (LIB, '            if do_broadcast {\n                let addr = Addr(id.addr());', '            if do_broadcast || summary.changed_active_set {\n                let addr = Addr(id.addr());'))
M('c15_max_tx_constant', ['C15'], ['C15-R1'], 'updates are queued with a fixed number of transmissions instead of max_transmissions',
  (LIB, '                self.updates\n                    .add_or_replace(addr, data, self.config.max_transmissions.get().into());\n            }\n\n            // Down is a terminal state',
   '                self.updates\n                    .add_or_replace(addr, data, self.config.num_indirect_probes.get());\n            }\n\n            // Down is a terminal state'))
M('c15_addr_key_by_generation', ['C15'], ['C15-R1'], 'backlog key compares more than the address... inverted: never invalidates',
  (LIB, '        self.0 == other.0\n    }\n}', '        self.0 != other.0\n    }\n}'))

# ---------------------------------------------------------------- C16
M('c16_store_whole_remainder', ['C16'], ['C16-R1'], 'a received item is stored with everything that follows it in the datagram',
  (LIB, '                    pkt.to_vec(),\n', '                    data.to_vec(),\n'))
M('c16_handler_sees_prefix', ['C16'], ['C16-R2'], 'the handler is shown the remaining buffer instead of the item',
  (LIB, '                .receive_item(pkt, sender)', '                .receive_item(data, sender)'))
M('c16_advance_only_when_accepted', ['C16'], ['C16-R2'], 'rejected (stale) items are not skipped: shown again as garbage',
  (LIB, '''                    self.config.max_transmissions.get().into(),
                );
            }
            data.advance(pkt_len);''', '''                    self.config.max_transmissions.get().into(),
                );
                data.advance(pkt_len);
            }'''))
M('c16_sender_dropped', ['C16'], ['C16-R2'], 'received items are handed to the handler without the sender',
  (LIB, 'let custom_broadcasts_result = self.handle_custom_broadcasts(data, Some(&src));', 'let custom_broadcasts_result = self.handle_custom_broadcasts(data, None);'))
M('c16_zero_len_accepted', ['C16', 'C07'], ['C16-R2', 'C07-R5'], 'zero-length items are passed to the handler',
  (LIB, 'if pkt_len == 0 || data.len() < pkt_len {', 'if data.len() < pkt_len {'))
M('c16_add_broadcast_handler_first', ['C16', 'C17'], ['C16-R1', 'C17-R2'], 'add_broadcast calls the handler before validating the size',
  (LIB, '''        // Not considering the whole header
        if data.len() > self.config.max_packet_size.get()
            // The length of each item is sent as a u16
            || data.len() > usize::from(u16::MAX)
        {
            return Err(Error::DataTooBig);
        }

        if let Some(key) = self
            .broadcast_handler
            .receive_item(data, None)
            .map_err(|e| Error::CustomBroadcast(Box::new(e)))?
        {''', '''        if let Some(key) = self
            .broadcast_handler
            .receive_item(data, None)
            .map_err(|e| Error::CustomBroadcast(Box::new(e)))?
        {
            if data.len() > self.config.max_packet_size.get() || data.len() > usize::from(u16::MAX) {
                return Err(Error::DataTooBig);
            }'''))
M('c16_broadcast_sends_gossip', ['C16'], ['C16-R4'], 'broadcast() sends Gossip datagrams (with member updates)',
  (LIB, 'self.send_message(chosen.into_identity(), Message::Broadcast, &mut runtime)?;', 'self.send_message(chosen.into_identity(), Message::Gossip, &mut runtime)?;'))
M('c16_broadcast_ignores_recipient_filter', ['C16'], ['C16-R4'], 'broadcast() picks targets the handler would refuse',
  (LIB, '            |member| self.broadcast_handler.should_add_broadcast_data(member),\n', '            |_member| true,\n'))
M('c16_broadcast_no_early_exit', ['C16'], ['C16-R4'], 'broadcast() consumes rng/choice_buf even with an empty backlog',
  (LIB, '''        if self.custom_broadcast_backlog() == 0 {
            // Nothing to broadcast
            return Ok(());
        }

        self.choice_buf.clear();''', '''        self.choice_buf.clear();'''))
M('c16_broadcast_keeps_sending', ['C16'], ['C16-R4'], 'broadcast() keeps sending empty datagrams after the backlog drained',
  (LIB, '''            if self.custom_broadcast_backlog() == 0 {
                break;
            }''', ''))

# ---------------------------------------------------------------- C17
M('c17_accept_after_sender_update', ['C17'], ['C17-R2'], 'the sender is recorded before checking that the datagram is addressed to us',
  (LIB, '''        if !self.accept_payload(&header) {
            #[cfg(feature = "tracing")]
            tracing::trace!("Payload not accepted");

            return Ok(());
        }
''', ''),
  (LIB, '''        let Header {
            src,
            src_incarnation,
            dst: _,
            message,
        } = header;
''', '''        let accepted = self.accept_payload(&header);
        let Header {
            src,
            src_incarnation,
            dst: _,
            message,
        } = header;
'''),
  (LIB, '''        // But dead members are ignored. At least until the member
        // list gets reaped.
        if !sender_is_active {''', '''        if !accepted {
            return Ok(());
        }
        // But dead members are ignored. At least until the member
        // list gets reaped.
        if !sender_is_active {'''))
M('c17_apply_while_decoding', ['C17'], ['C17-R2'], 'members are applied one by one while decoding: a truncated list leaves a trace',
  (LIB, '''                self.updates_buf.push(
                    self.codec
                        .decode_member(&mut data)
                        .map_err(|e| Error::Decode(Box::new(e)))?,
                );''', '''                let m = self
                    .codec
                    .decode_member(&mut data)
                    .map_err(|e| Error::Decode(Box::new(e)))?;
                self.apply_update(m.clone(), true, &mut runtime)?;
                self.updates_buf.push(m);'''))
M('c17_probe_cleared_on_bad_packet', ['C17'], ['C17-R2'], 'a malformed packet resets the probe state',
  (LIB, '''        if remaining == 1 || (header.message == Message::Announce && remaining > 0) {
            return Err(Error::MalformedPacket);''', '''        if remaining == 1 || (header.message == Message::Announce && remaining > 0) {
            self.probe.clear();
            return Err(Error::MalformedPacket);'''))
M('c17_rng_touched_on_reject', ['C17'], ['C17-R2'], 'data from ourselves advances the generator',
  (LIB, '''        if header.src == self.identity || header.src.addr() == self.identity.addr() {
            return Err(Error::DataFromOurselves);''', '''        if header.src == self.identity || header.src.addr() == self.identity.addr() {
            let _ = self.members.next(&mut self.rng);
            return Err(Error::DataFromOurselves);'''))
M('c17_updates_buf_not_cleared', ['C17'], ['C17-R2'], 'updates decoded from a previously rejected datagram are applied with the next one',
  (LIB, '        self.updates_buf.clear();\n        if remaining >= 2', '        if remaining >= 2'))
M('c17_change_identity_resets_first', ['C17', 'C10'], ['C17-R2'], 'change_identity with the same identity still resets the instance',
  (LIB, '''        if self.identity == new_id {
            Err(Error::SameIdentity)''', '''        if self.identity == new_id {
            self.reset();
            Err(Error::SameIdentity)'''))
M('c17_accept_any_announce', ['C17'], ['C17-R3'], 'Announce accepted whatever its destination',
  (LIB, '''            || (header.message == Message::Announce
                // Then we accept it if DST is one of our _possible_
                // identities
                && self.identity.addr() == header.dst.addr())''', '''            || header.message == Message::Announce'''))
M('c17_accept_by_addr_for_all_kinds', ['C17'], ['C17-R3'], 'any datagram for another identity of our address is accepted',
  (LIB, '''            || (header.message == Message::Announce
                // Then we accept it if DST is one of our _possible_
                // identities
                && self.identity.addr() == header.dst.addr())''', '''            || self.identity.addr() == header.dst.addr()'''))
M('c17_hash_ordering', ['C17'], ['C17-R1', 'C06-R1'], 'member selection goes through a randomly seeded hash set',
  (MEMBER, '''        // Basic reservoir sampling
        let mut num_chosen = 0;''', '''        // Basic reservoir sampling
        #[cfg(feature = "std")]
        let _seen: std::collections::HashSet<usize> = std::collections::HashSet::new();
        let mut num_chosen = 0;'''))

# ---------------------------------------------------------------- C18
M('c18_ack_answered_with_ping', ['C18', 'C12'], ['C18-R1', 'C18-R2'], 'an unexpected Ack is answered with a Ping (Ack <-> Ping storm)',
  (LIB, '''                } else {
                    // May be triggered by a member that slows down (say, you ^Z
                    // the process and `fg` back after a while).
                    // Might be interesting to keep an eye on.''', '''                } else {
                    self.send_message(src, Message::Ping(probe_number), runtime)?;
                    return custom_broadcasts_result;'''))
M('c18_feed_answered_with_announce', ['C18'], ['C18-R1', 'C18-R2'], 'a Feed is answered with an Announce (Announce <-> Feed storm)',
  (LIB, '            // Nothing to do. These messages do not expect any reply\n            Message::Gossip | Message::Feed | Message::Broadcast => {}',
   '            Message::Feed => self.send_message(src, Message::Announce, runtime)?,\n            Message::Gossip | Message::Broadcast => {}'))
M('c18_turnundead_reply_before_renewal', ['C18'], ['C18-R2'], 'inactive-sender TurnUndead is answered before trying to renew',
  (LIB, '''            if message == Message::TurnUndead {
                self.handle_self_update(Incarnation::default(), State::Down, &mut runtime)?;

                // If we couldn't switch to a fresh identity there's no point
                // in replying: the sender already considers us down and
                // would just bounce the same message back, forever
                if self.connection_state == ConnectionState::Undead {
                    return Ok(());
                }
            }

            if self.config.notify_down_members {
                self.send_message(src, Message::TurnUndead, runtime)?;
            }''', '''            if self.config.notify_down_members {
                self.send_message(src.clone(), Message::TurnUndead, &mut runtime)?;
            }
            if message == Message::TurnUndead {
                self.handle_self_update(Incarnation::default(), State::Down, &mut runtime)?;
            }'''))
M('c18_gossip_when_defunct', ['C18', 'C10'], ['C18-R2', 'C18-R4'], 'a non-renewable instance told it is down gossips under its dead identity',
  (LIB, '''                if !self.attempt_rejoin(&mut runtime)? {
                    self.become_undead(runtime);
                }
            }
        }
        Ok(())''', '''                if !self.attempt_rejoin(&mut runtime)? {
                    self.gossip(&mut runtime)?;
                    self.become_undead(runtime);
                }
            }
        }
        Ok(())'''))
M('c18_reply_in_loop', ['C18'], ['C18-R3'], 'Announce answered with one Feed per known member',
  (LIB, '            Message::Announce => self.send_message(src, Message::Feed, runtime)?,', '            Message::Announce => {\n                for _ in 0..self.members.num_active().min(3) {\n                    self.send_message(src.clone(), Message::Feed, &mut runtime)?;\n                }\n            }'))

# ---------------------------------------------------------------- C19
M('c19_gossip_to_down_members', ['C19'], ['C19-R1'], 'gossip targets are drawn from Down records (may include own former identities)',
  (LIB, '''        self.choice_buf.clear();
        self.members.choose_active_members(
            num_members,
            &mut self.choice_buf,
            &mut self.rng,
            |_| true,
        );''', '''        self.choice_buf.clear();
        self.members
            .choose_down_members(num_members, &mut self.choice_buf, &mut self.rng);'''))
M('c19_filter_by_identity_only', ['C19'], ['C19-R1'], 'announce_to_down only filters the exact own identity, not the own address',
  (LIB, '''        let own_addr = self.identity.addr();
        self.choice_buf
            .retain(|member| member.id().addr() != own_addr);''', '''        let own = self.identity.clone();
        self.choice_buf.retain(|member| member.id() != &own);'''))
M('c19_feed_to_announce_dst', ['C19'], ['C19-R1'], 'Feed is sent to the destination named in the Announce instead of its sender',
  (LIB, '''        let Header {
            src,
            src_incarnation,
            dst: _,
            message,
        } = header;''', '''        let Header {
            src,
            src_incarnation,
            dst: hdr_dst,
            message,
        } = header;'''),
  (LIB, '            Message::Announce => self.send_message(src, Message::Feed, runtime)?,', '            Message::Announce => self.send_message(hdr_dst, Message::Feed, runtime)?,'))
M('c19_down_picker_inverted', ['C19'], ['C19-R2'], 'choose_down_members picks active members',
  (MEMBER, '        self.choose_members(wanted, output, rng, |member| !member.is_active());', '        self.choose_members(wanted, output, rng, |member| member.is_active());'))
M('c19_active_picker_ignores_state', ['C19', 'C07'], ['C19-R2', 'C07-R6'], 'choose_active_members also yields Down records',
  (MEMBER, '            member.is_active() && picker(member.id())', '            picker(member.id())'))
M('c19_stale_choice_buf', ['C19'], ['C19-R1'], 'broadcast() drains whatever was left in choice_buf',
  (LIB, '''        self.choice_buf.clear();
        self.members.choose_active_members(
            self.config.num_indirect_probes.get(),
            &mut self.choice_buf,
            &mut self.rng,
            |member| self.broadcast_handler.should_add_broadcast_data(member),
        );
''', ''))

# ---------------------------------------------------------------- C20
POSTCARD = 'src/codec/postcard_impl.rs'
BINCODE = 'src/codec/bincode_impl.rs'
M('c20_try_push_unbounded', ['C20', 'C06'], ['C20-R1', 'C06-R2'], 'postcard flavor pushes single bytes without checking the space left',
  (POSTCARD, '        if self.0.has_remaining_mut() {\n            self.0.put_u8(data);\n            Ok(())\n        } else {\n            Err(postcard::Error::SerializeBufferFull)\n        }',
   '        self.0.put_u8(data);\n        Ok(())'))
M('c20_member_cursor_not_advanced', ['C20'], ['C20-R2', 'C20-R3'], 'decode_member leaves the cursor where it was (next member decodes the same bytes)',
  (POSTCARD, '        let after = rest.remaining();\n        buf.advance(remaining - after);\n        Ok(member)', '        let _after = rest.remaining();\n        Ok(member)'))
M('c20_header_advances_everything', ['C20'], ['C20-R2'], 'decode_header consumes the whole datagram',
  (POSTCARD, '        let after = rest.len();\n        buf.advance(remaining - after);\n        Ok(payload)', '        let _after = rest.len();\n        buf.advance(remaining);\n        Ok(payload)'))
M('c20_bincode_member_other_config', ['C20'], ['C20-R3'], 'bincode members are decoded with a different configuration than they were encoded with',
  (BINCODE, '''    fn decode_member(&mut self, buf: impl bytes::Buf) -> Result<Member<T>, Self::Error> {
        let mut reader = buf.reader();
        bincode::serde::decode_from_std_read(&mut reader, self.0).map_err(Error::Decode)''', '''    fn decode_member(&mut self, buf: impl bytes::Buf) -> Result<Member<T>, Self::Error> {
        let mut reader = buf.reader();
        bincode::serde::decode_from_std_read(&mut reader, bincode::config::legacy()).map_err(Error::Decode)'''))
M('c20_skip_marker_byte', ['C20'], ['C20-R2'], 'decode_member silently skips a leading 0xff byte',
  (POSTCARD, '''    fn decode_member(&mut self, mut buf: impl Buf) -> Result<Member<T>, Self::Error> {
        let remaining = buf.remaining();''', '''    fn decode_member(&mut self, mut buf: impl Buf) -> Result<Member<T>, Self::Error> {
        if buf.chunk().first() == Some(&0xff) {
            buf.advance(1);
        }
        let remaining = buf.remaining();'''))

M('c20_try_push_needs_two', ['C20'], ['C20-R1'], 'postcard flavor refuses the last byte of the buffer (exact fit is an error)',
  (POSTCARD, '        if self.0.has_remaining_mut() {', '        if self.0.remaining_mut() > 1 {'))
M('c20_try_extend_strict', ['C20'], ['C20-R1'], 'postcard flavor refuses a slice that exactly fills the buffer',
  (POSTCARD, '        if self.0.remaining_mut() >= data.len() {', '        if self.0.remaining_mut() > data.len() {'))
M('c08_owned_rename_swapped', ['C08'], ['C08-R7'], 'to_owned clones the identities of Rename in swapped order',
  ('src/runtime.rs', 'OwnedNotification::Rename(before.clone(), after.clone())', 'OwnedNotification::Rename(after.clone(), before.clone())'))

# ---------------------------------------------------------------- C14
M('c14_skip_one_more', ['C14'], ['C14-R3'], 'the forward scan starts one record after the cursor: the record at the cursor is only reachable by wrapping',
  (MEMBER, '            .skip(self.cursor)\n            .position(|m| m.is_active())', '            .skip(self.cursor.saturating_add(1))\n            .position(|m| m.is_active())'))
M('c14_advance_by_two', ['C14'], ['C14-R4'], 'the cursor jumps over the record after the one just probed',
  (MEMBER, 'self.cursor = pos.saturating_add(1);', 'self.cursor = pos.saturating_add(2);'))
M('c14_no_cursor_reset', ['C14'], ['C14-R4'], 'the cursor stays past the end after the reshuffle: every round wraps to the first active record',
  (MEMBER, '            self.inner.shuffle(&mut rng);\n            self.cursor = 0;', '            self.inner.shuffle(&mut rng);'))
M('c14_wrap_test_inclusive', ['C14'], ['C14-R4'], 'a record found exactly at the cursor counts as wrapped: the pass is cut short and reshuffled',
  (MEMBER, '            if pos < self.cursor {', '            if pos <= self.cursor {'))
M('c14_wrap_repeats', ['C14'], ['C14-R4'], 'after wrapping the cursor points at the record just probed: it is probed again and again',
  (MEMBER, '                self.cursor = usize::MAX;', '                self.cursor = pos;'))
M('c14_fallback_short', ['C14'], ['C14-R3'], 'the wrap-around scan stops one record before the cursor',
  (MEMBER, '                .take(self.cursor)\n', '                .take(self.cursor.saturating_sub(1))\n'))
M('c14_scan_predicate_any_record', ['C14'], ['C14-R3'], 'the forward scan accepts any record, Down ones included',
  (MEMBER, '            .skip(self.cursor)\n            .position(|m| m.is_active())', '            .skip(self.cursor)\n            .position(|_m| true)'))
M('c14_shuffle_every_round', ['C14'], ['C14-R4'], 'the vector is reshuffled on every call: the pass structure is lost (a member can be missed for arbitrarily long)',
  (MEMBER, '        if self.cursor >= self.inner.len() {\n            self.inner.shuffle(&mut rng);\n            self.cursor = 0;\n        }',
   '        self.inner.shuffle(&mut rng);\n        if self.cursor >= self.inner.len() {\n            self.cursor = 0;\n        }'))
M('c14_existing_update_resets_cursor', ['C14'], ['C14-R5'], 'every update about a known member rewinds the cursor: records at the end starve under traffic',
  (MEMBER, '            let was_active = known_member.is_active();', '            self.cursor = 0;\n            let was_active = known_member.is_active();'))
M('c14_suspect_moved_to_front', ['C14'], ['C14-R5'], 'apply_existing_if reorders the vector while the member set is stable',
  (MEMBER, '            Some(ApplySummary {\n                is_active_now,\n                apply_successful,\n                changed_active_set,\n                conflict,\n            })',
   '            if apply_successful && self.inner.len() > 1 {\n                let last = self.inner.len() - 1;\n                self.inner.swap(0, last);\n            }\n            Some(ApplySummary {\n                is_active_now,\n                apply_successful,\n                changed_active_set,\n                conflict,\n            })'))
M('c14_is_active_includes_down_zero', ['C14'], ['C14-R2'], 'Member::is_active counts Down records at the maximum incarnation as active',
  (MEMBER, '            State::Alive | State::Suspect => true,\n            State::Down => false,', '            State::Alive | State::Suspect => true,\n            State::Down => self.incarnation == Incarnation::MAX,'))
N('c14_reset_test_strict', ['C14'], 'cursor > len instead of >=: a cursor equal to len wraps first and is reset one round later (bound unaffected)',
  (MEMBER, '        if self.cursor >= self.inner.len() {', '        if self.cursor > self.inner.len() {'))
N('c14_wrap_plain_round_robin', ['C14'], 'after wrapping the cursor moves to index + 1 (plain round-robin, no reshuffle): every window of n rounds covers everyone',
  (MEMBER, '                self.cursor = usize::MAX;', '                self.cursor = pos.saturating_add(1);'))
N('c14_flipped_comparisons', ['C14'], 'comparisons written the other way round',
  (MEMBER, '        if self.cursor >= self.inner.len() {', '        if self.inner.len() <= self.cursor {'),
  (MEMBER, '            if pos < self.cursor {', '            if self.cursor > pos {'))
N('c14_remove_resets_cursor', ['C14'], 'remove_if_down rewinds the cursor (the member set changed: any starting cursor is allowed)',
  (MEMBER, '        position.map(|pos| self.inner.swap_remove(pos))', '        if position.is_some() {\n            self.cursor = 0;\n        }\n        position.map(|pos| self.inner.swap_remove(pos))'))

# ================================================================ neutral (behaviour-preserving) edits
ALL = ['C01', 'C06', 'C07', 'C08', 'C09', 'C10', 'C11', 'C12', 'C13', 'C14', 'C15', 'C16', 'C17', 'C18', 'C19', 'C20']
N('n_comments_and_blank_lines', ALL, 'comments and blank lines added; every line number after them shifts',
  (LIB, 'impl<T, C, RNG> Foca<T, C, RNG, NoCustomBroadcast>\nwhere', '// a comment\n// another one\n\n\nimpl<T, C, RNG> Foca<T, C, RNG, NoCustomBroadcast>\nwhere'),
  (MEMBER, 'pub type Incarnation = u16;', '// moved\n\n\npub type Incarnation = u16;'))
N('n_rename_locals', ALL, 'local variables renamed',
  (LIB, '''        let sender_is_active = self
            // It's a known member, so we ensure our knowledge about''', '''        let is_sender_alive_here = self
            // It's a known member, so we ensure our knowledge about'''),
  (LIB, '        if !sender_is_active {\n', '        if !is_sender_alive_here {\n'),
  (LIB, '        let probe_was_incomplete = !self.probe.validate();\n        if probe_was_incomplete {', '        let cycle_broken = !self.probe.validate();\n        if cycle_broken {'),
  (LIB, '        if probe_was_incomplete {\n            Err(Error::IncompleteProbeCycle)', '        if cycle_broken {\n            Err(Error::IncompleteProbeCycle)'))
N('n_matches_to_match', ALL, 'matches! replaced by an explicit match in the kind predicates',
  (PAYLOAD, '        !matches!(self, Self::Announce | Self::TurnUndead)\n', '        match self {\n            Self::Announce | Self::TurnUndead => false,\n            _ => true,\n        }\n'),
  (PAYLOAD, '        matches!(self, Self::Feed)', '        match self {\n            Self::Feed => true,\n            _ => false,\n        }'))
N('n_if_else_swapped', ALL, 'if/else branches swapped with the condition negated',
  (LIB, '''        if self.connection_state != ConnectionState::Undead {
            Err(Error::NotUndead)
        } else {
            self.reset();
            Ok(())
        }''', '''        if self.connection_state == ConnectionState::Undead {
            self.reset();
            Ok(())
        } else {
            Err(Error::NotUndead)
        }'''),
  (LIB, '''        if self.identity == new_id {
            Err(Error::SameIdentity)
        } else {''', '''        if self.identity == new_id {
            return Err(Error::SameIdentity);
        }
        {'''))
N('n_reorder_independent_statements', ALL, 'independent statements reordered',
  (LIB, '''        self.connection_state = ConnectionState::Undead;

        // We're down, whatever we find out by probing is unreliable
        self.probe.clear();

        // Just like `become_disconnected`, we want to avoid
        // handling events that aren't relevant anymore.
        self.timer_token = self.timer_token.wrapping_add(1);
''', '''        // Just like `become_disconnected`, we want to avoid
        // handling events that aren't relevant anymore.
        self.timer_token = self.timer_token.wrapping_add(1);

        // We're down, whatever we find out by probing is unreliable
        self.probe.clear();

        self.connection_state = ConnectionState::Undead;
'''),
  (PROBE, '        self.direct_ack_ok = false;\n        self.indirect_ack_count = 0;', '        self.indirect_ack_count = 0;\n        self.direct_ack_ok = false;'))
N('n_temporaries_introduced', ALL, 'sub-expressions bound to temporaries',
  (LIB, '''        if data.remaining() > self.config.max_packet_size.get() {
            return Err(Error::DataTooBig);
        }

        let header = self''', '''        let limit = self.config.max_packet_size.get();
        let given = data.remaining();
        if given > limit {
            return Err(Error::DataTooBig);
        }

        let header = self'''),
  (MEMBER, '''        if self.can_change(incarnation, state) {
            self.state = state;''', '''        let allowed = self.can_change(incarnation, state);
        if allowed {
            self.state = state;'''))
N('n_early_return_style', ALL, 'nested if turned into early returns in a timer arm',
  (LIB, '''            Timer::ProbeRandomMember(token) => {
                if token == self.timer_token {
                    if self.connection_state != ConnectionState::Connected {
                        // Not expected to happen during normal operation, but
                        // may reach here via manually crafted Timer::
                        Err(Error::NotConnected)
                    } else {
                        self.probe_random_member(runtime)
                    }
                } else {
                    // Invalid token, may happen whenever we go offline after
                    // being online
                    Ok(())
                }
            }''', '''            Timer::ProbeRandomMember(token) => {
                if token != self.timer_token {
                    return Ok(());
                }
                if self.connection_state != ConnectionState::Connected {
                    return Err(Error::NotConnected);
                }
                self.probe_random_member(runtime)
            }'''))
N('n_helper_extracted', ALL, 'the cluster-update queueing of handle_apply_summary moved into a helper method',
  (LIB, '''            if do_broadcast {
                let addr = Addr(id.addr());
                let data = self.serialize_member(update)?;
                self.updates
                    .add_or_replace(addr, data, self.config.max_transmissions.get().into());
            }
''', '''            if do_broadcast {
                self.queue_update(&id, update)?;
            }
'''),
  (LIB, '''    fn handle_custom_broadcasts(&mut self, mut data: &[u8], sender: Option<&T>) -> Result<()> {''', '''    fn queue_update(&mut self, id: &T, update: Member<T>) -> Result<()> {
        let addr = Addr(id.addr());
        let data = self.serialize_member(update)?;
        self.updates
            .add_or_replace(addr, data, self.config.max_transmissions.get().into());
        Ok(())
    }

    fn handle_custom_broadcasts(&mut self, mut data: &[u8], sender: Option<&T>) -> Result<()> {'''))
N('n_comparison_flipped', ALL, 'comparisons written the other way round',
  (LIB, '                if token != self.timer_token {\n                    #[cfg(feature = "tracing")]\n                    tracing::trace!("Invalid timer token");', '                if self.timer_token != token {\n                    #[cfg(feature = "tracing")]\n                    tracing::trace!("Invalid timer token");'),
  (LIB, 'if remaining >= 2 && header.message != Message::Broadcast {', 'if header.message != Message::Broadcast && 2 <= remaining {'),
  (BROADCAST, '            if buffer.remaining_mut() >= node.data.len() + 2 {', '            if node.data.len() + 2 <= buffer.remaining_mut() {'))
N('n_while_let_to_loop', ALL, 'while-let loop written as loop + match',
  (LIB, '''        while let Some(chosen) = self.choice_buf.pop() {
            self.send_message(chosen.into_identity(), Message::Announce, &mut runtime)?;
        }''', '''        loop {
            match self.choice_buf.pop() {
                Some(chosen) => {
                    self.send_message(chosen.into_identity(), Message::Announce, &mut runtime)?;
                }
                None => break,
            }
        }'''))
N('n_new_public_getter', ALL, 'a new public read-only accessor is added',
  (LIB, '''    /// Getter for the current identity.
    pub const fn identity(&self) -> &T {
        &self.identity
    }''', '''    /// Getter for the current identity.
    pub const fn identity(&self) -> &T {
        &self.identity
    }

    /// Getter for the current configuration.
    pub const fn current_config(&self) -> &Config {
        &self.config
    }

    /// Whether this instance is currently probing.
    pub fn is_connected(&self) -> bool {
        self.connection_state == ConnectionState::Connected
    }'''))
N('n_match_arms_reordered', ALL, 'match arms of handle_timer reordered (RemoveDown first)',
  (LIB, '''        match event {
            Timer::SendIndirectProbe { probed_id, token } => {''', '''        match event {
            Timer::RemoveDown(down) => {
                if let Some(_removed) = self.members.remove_if_down(&down) {}

                Ok(())
            }
            Timer::SendIndirectProbe { probed_id, token } => {'''),
  (LIB, '''            Timer::RemoveDown(down) => {
                if let Some(_removed) = self.members.remove_if_down(&down) {
                    #[cfg(feature = "tracing")]
                    tracing::trace!(down = tracing::field::debug(&down), "Member removed");
                }

                Ok(())
            }
            Timer::ProbeRandomMember(token) => {''', '''            Timer::ProbeRandomMember(token) => {'''))
N('n_for_to_while', ALL, 'the member-decoding for loop written as a while loop',
  (LIB, '''            for _i in 0..num_updates {
                self.updates_buf.push(
                    self.codec
                        .decode_member(&mut data)
                        .map_err(|e| Error::Decode(Box::new(e)))?,
                );
            }''', '''            let mut left = num_updates;
            while left > 0 {
                left -= 1;
                self.updates_buf.push(
                    self.codec
                        .decode_member(&mut data)
                        .map_err(|e| Error::Decode(Box::new(e)))?,
                );
            }'''))
N('n_question_mark_to_match', ALL, '`?` replaced by an explicit match',
  (LIB, '''        let mut buf = Vec::new();
        self.codec
            .encode_member(&member, &mut buf)
            .map_err(|e| Error::Encode(Box::new(e)))?;

        Ok(buf)''', '''        let mut buf = Vec::new();
        match self.codec.encode_member(&member, &mut buf) {
            Ok(()) => Ok(buf),
            Err(e) => Err(Error::Encode(Box::new(e))),
        }'''))
N('n_if_let_to_match', ALL, 'if-let written as match',
  (LIB, '''        if let member::ConflictResult::Replaced(old) = summary.conflict {
            #[cfg(feature = "tracing")]
            tracing::debug!(
                previous_id = tracing::field::debug(&old),
                member_id = tracing::field::debug(&id),
                "Renamed"
            );
            runtime.notify(Notification::Rename(&old, &id));
        }''', '''        match summary.conflict {
            member::ConflictResult::Replaced(old) => {
                runtime.notify(Notification::Rename(&old, &id));
            }
            _ => {}
        }'''))
N('n_vec_with_capacity', ALL, 'empty vectors created with with_capacity(0)',
  (LIB, '            members: Members::new(Vec::new()),', '            members: Members::new(Vec::with_capacity(0)),'))

# ---------------------------------------------------------------- later additions
M('c01_state_transfer_skips_down', ['C01'], ['C01-R5'], 'iter_membership_state leaves out Down records (state exchange loses tombstones)',
  (LIB, 'pub fn iter_membership_state(&self) -> impl ExactSizeIterator<Item = &Member<T>> {\n        self.members.inner.iter()',
   'pub fn iter_membership_state(&self) -> impl Iterator<Item = &Member<T>> {\n        self.members.inner.iter().filter(|m| m.is_active())'))
M('c01_apply_many_stops_at_self', ['C01'], ['C01-R5'], 'apply_many stops processing after an update about itself',
  (LIB, '                self.handle_self_update(update.incarnation(), update.state(), &mut runtime)?;\n            } else if self.identity.addr() == update.id().addr() {',
   '                self.handle_self_update(update.incarnation(), update.state(), &mut runtime)?;\n                break;\n            } else if self.identity.addr() == update.id().addr() {'))
M('c07_reader_rejects_bare_count', ['C07'], ['C07-R5'], 'a datagram ending right after an empty member count is rejected',
  (LIB, 'if remaining == 1 || (header.message == Message::Announce && remaining > 0) {', 'if remaining <= 2 && remaining > 0 || (header.message == Message::Announce && remaining > 0) {'))
M('c07_custom_min_size_raised', ['C07'], ['C07-R5'], 'one-byte custom items are rejected by the reader',
  (LIB, 'if !data.is_empty() && data.len() < 3 {', 'if !data.is_empty() && data.len() < 4 {'))

# ---------------------------------------------------------------- helper bodies
M('h_is_active_ignores_state', ['C12', 'C19'], ['C12-R0'], 'Members::is_active(id) answers true for Down records too',
  (MEMBER, '            .any(|member| &member.id == id && member.is_active())', '            .any(|member| &member.id == id)'))
M('h_iter_active_includes_down', ['C08'], ['C08-R0'], 'iter_members() also lists Down records',
  (MEMBER, '        self.inner.iter().filter(|m| m.is_active())', '        self.inner.iter().filter(|m| m.is_active() || m.incarnation == u16::MAX)'))
M('h_is_probing_any', ['C12', 'C13'], ['C12-R0'], 'is_probing() true for any identity while a probe is open',
  (PROBE, '        self.direct.as_ref().is_some_and(|probed| probed.id() == id)', '        self.direct.as_ref().is_some_and(|_probed| true)'))
M('h_backlog_counts_flop', ['C16', 'C15'], ['C16-R0'], 'backlog length read from the scratch heap',
  (BROADCAST, '    pub(crate) fn len(&self) -> usize {\n        self.flip.len()', '    pub(crate) fn len(&self) -> usize {\n        self.flop.len()'))
M('h_reservoir_ignores_picker_on_replace', ['C19', 'C12', 'C07'], ['C19-R0'], 'reservoir replacement happens before the picker is consulted',
  (MEMBER, '''        for member in &self.inner {
            if !picker(member) {
                continue;
            }

            num_seen += 1;
            if num_chosen < wanted {''', '''        for member in &self.inner {
            num_seen += 1;
            if !picker(member) && num_chosen < wanted {
                continue;
            }
            if num_chosen < wanted {'''))
M('h_serialize_other_member', ['C10', 'C15'], ['C10-R0'], 'serialize_member encodes a default-incarnation copy',
  (LIB, '            .encode_member(&member, &mut buf)\n            .map_err(|e| Error::Encode(Box::new(e)))?;\n\n        Ok(buf)', '            .encode_member(&Member::new(member.id().clone(), 0, member.state()), &mut buf)\n            .map_err(|e| Error::Encode(Box::new(e)))?;\n\n        Ok(buf)'))

# ---------------------------------------------------------------- neutral: multi-edit refactors by sub-agents
NP('n_ref_member_rs', ALL, 'R1: 12 behaviour-preserving refactors of src/member.rs', 'selftest/neutral/R1.diff')
NP('n_ref_broadcast_rs', ALL, 'R2: 13 behaviour-preserving refactors of src/broadcast.rs', 'selftest/neutral/R2.diff')
NP('n_ref_probe_runtime', ALL, 'R3: 12 behaviour-preserving refactors of src/probe.rs and src/runtime.rs', 'selftest/neutral/R3.diff')
NP('n_ref_handle_data', ALL, 'R4: 10 behaviour-preserving refactors of handle_data / accept_payload', 'selftest/neutral/R4.diff')
NP('n_ref_handle_timer', ALL, 'R5: 11 behaviour-preserving refactors of handle_timer / probe_random_member', 'selftest/neutral/R5.diff')
NP('n_ref_send_message', ALL, 'R6: 12 behaviour-preserving refactors of send_message / estimate_feed_capacity', 'selftest/neutral/R6.diff')
NP('n_ref_identity_fns', ALL, 'R7: 14 behaviour-preserving refactors of the identity/connection-state functions', 'selftest/neutral/R7.diff')
NP('n_ref_apply_broadcast_fns', ALL, 'R8: 10 behaviour-preserving refactors of apply_update/add_broadcast/set_config/...', 'selftest/neutral/R8.diff')

N('n_new_pub_getter', ALL, 'a new public read-only accessor (a new entry point, analysed like any other function)',
  (LIB, '''    pub const fn num_members(&self) -> usize {
        self.members.num_active()
    }
''', '''    pub const fn num_members(&self) -> usize {
        self.members.num_active()
    }

    /// Whether this instance currently considers itself part of a cluster.
    pub fn is_connected(&self) -> bool {
        self.connection_state == ConnectionState::Connected
    }
'''))
N('n_new_private_unused_helper', ALL, 'a new private helper that nothing calls yet (dead code allowed)',
  (LIB, '''    pub const fn num_members(&self) -> usize {
        self.members.num_active()
    }
''', '''    pub const fn num_members(&self) -> usize {
        self.members.num_active()
    }

    #[allow(dead_code)]
    fn has_pending_updates(&self) -> bool {
        !self.updates.is_empty() || !self.custom_broadcasts.is_empty()
    }
'''))

# round 2 of refactors by sub-agents (bolder instructions, see DESIGN 10.6)
NP('n_ref2_config_payload_identity', ALL, 'R9: 9 refactors of config.rs / payload.rs / identity.rs', 'selftest/neutral/R9.diff')
NP('n_ref2_codecs_error', ALL, 'R10: 11 refactors of the bundled codecs and error.rs', 'selftest/neutral/R10.diff')
NP('n_ref2_handle_data_per_kind', ALL, 'R11: handle_data split into one method per message kind', 'selftest/neutral/R11.diff')
NP('n_ref2_handle_timer_per_variant', ALL, 'R12: handle_timer split into one method per timer variant, guard clauses', 'selftest/neutral/R12.diff')
NP('n_ref2_send_message_steps', ALL, 'R13: send_message split into begin_packet/append_*/restore steps', 'selftest/neutral/R13.diff')
NP('n_ref2_apply_fns', ALL, 'R14: 11 refactors of apply_many/apply_update/handle_apply_summary/...', 'selftest/neutral/R14.diff')
NP('n_ref2_member_loops', [x for x in ALL if x != 'C14'], 'R15: member.rs iterator chains <-> explicit loops, tuple matches (C14: the loop form of the forward scan is reported unreadable, DESIGN 10.7 limits)', 'selftest/neutral/R15.diff')
NP('n_ref2_shared_fill_probe', ALL, 'R16: fill/fill_with_len_prefix share one helper; Probe guard clauses', 'selftest/neutral/R16.diff')


# ---------------------------------------------------------------- mutants of the REFACTORED variants
# The rules were generalised to accept the spellings of selftest/neutral/R*.diff; these entries apply one of those
# refactors first and then break the refactored code, to show that the generalised rules still bite there.
def MP(name, props, rules, why, patch, *edits):
    MUTANTS.append({'name': name, 'props': props, 'rules': rules, 'why': why, 'edits': list(edits), 'apply': [patch]})


PROBE = 'src/probe.rs'
BROADCAST = 'src/broadcast.rs'
MP('r15_inline_remove_any_state', ['C09', 'C08'], ['C09-R5', 'C08-R4'], 'inline loop form of remove_if_down without the Down test',
   'selftest/neutral/R15.diff',
   (MEMBER, 'if &member.id == id && member.state == State::Down {\n                return Some(self.inner.swap_remove(pos));',
    'if &member.id == id {\n                return Some(self.inner.swap_remove(pos));'))
MP('r15_inline_swap_remove_wrong_index', ['C06'], ['C06-R2'], 'inline loop form removes pos + 1',
   'selftest/neutral/R15.diff',
   (MEMBER, 'return Some(self.inner.swap_remove(pos));', 'return Some(self.inner.swap_remove(pos + 1));'))
MP('r16_match_is_probing_none_true', ['C12'], ['C12-R0'], 'match form of is_probing answers true when nothing is probed',
   'selftest/neutral/R16.diff',
   (PROBE, '            Some(probed) => probed.id() == id,\n            None => false,', '            Some(probed) => probed.id() == id,\n            None => true,'))
MP('r16_receive_ack_ignores_identity', ['C12'], ['C12-R1'], 'guard-clause form of receive_ack without the identity guard',
   'selftest/neutral/R16.diff',
   (PROBE, '        if !from_direct {\n            return false;\n        }\n', '        let _ = from_direct;\n'))
MP('r16_shared_fill_prefix_room', ['C06', 'C15'], ['C06-R2', 'C15-R2'], 'shared fill helper checks room for the item but not for its length prefix',
   'selftest/neutral/R16.diff',
   (BROADCAST, 'buffer.remaining_mut() >= node.data.len() + 2', 'buffer.remaining_mut() >= node.data.len()'))
MP('r2_entry_cmp_match_reversed', ['C15'], ['C15-R3'], 'match form of Entry::cmp compares other with self',
   'selftest/neutral/R2.diff',
   (BROADCAST, 'match self.remaining_tx.cmp(&other.remaining_tx) {', 'match other.remaining_tx.cmp(&self.remaining_tx) {'))
MP('r2_set_aside_unconditional', ['C15', 'C06'], ['C15-R2', 'C06-R2'], 'extracted set_aside helper keeps exhausted entries',
   'selftest/neutral/R2.diff',
   (BROADCAST, '        if node.remaining_tx > 0 {\n            self.flop.push(node);\n        }\n    }\n\n    // Moves everything',
    '        self.flop.push(node);\n    }\n\n    // Moves everything'))
MP('r1_apply_inline_pushes_known', ['C09'], ['C09-R1'], 'straight-line form of Members::apply registers even when the address is known',
   'selftest/neutral/R1.diff',
   (MEMBER, '        if let Some(summary) = self.apply_existing_if(update.clone(), |_member| true) {\n            return summary;\n        }\n',
    '        let _ = self.apply_existing_if(update.clone(), |_member| true);\n'))
MP('r7_invalidate_timers_noop', ['C13', 'C11'], ['C13-R1', 'C11-R6'], 'extracted invalidate_timers helper no longer bumps the token',
   'selftest/neutral/R7.diff',
   (LIB, '        self.timer_token = self.timer_token.wrapping_add(1);\n    }\n\n    fn reset', '        let _ = self.timer_token.wrapping_add(1);\n    }\n\n    fn reset'))
MP('r11_ensure_not_ourselves_inverted', ['C12'], ['C12-R4'], 'extracted ensure_not_ourselves helper accepts our own identity only',
   'selftest/neutral/R11.diff',
   (LIB, '        if *id == self.identity {\n            return Err(Error::IndirectForOurselves);', '        if *id != self.identity {\n            return Err(Error::IndirectForOurselves);'))
MP('r11_inactive_helper_skips_undead_check', ['C18'], ['C18-R2'], 'extracted inactive-sender helper replies even when Undead (D3 again)',
   'selftest/neutral/R11.diff',
   (LIB, '            if self.connection_state == ConnectionState::Undead {\n                return Ok(false);\n            }\n', ''))
MP('r13_begin_packet_unlimited', ['C07', 'C06'], ['C07-R2', 'C06-R2'], 'extracted begin_packet wraps the buffer with an unbounded limit',
   'selftest/neutral/R13.diff',
   (LIB, '.limit(self.config.max_packet_size.get())', '.limit(usize::MAX)'))

M('c06_fill_pushback_unconditional', ['C06', 'C15'], ['C06-R2', 'C15-R2'], 'fill pushes exhausted entries back (remaining_tx may be 0: next pop underflows)',
  (BROADCAST, '''                buffer.put_slice(&node.data);
                node.remaining_tx -= 1;
            }

            if node.remaining_tx > 0 {
                self.flop.push(node);
            }
        }

        self.flip.append(&mut self.flop);

        num_taken
    }

    pub(crate) fn fill_with_len_prefix(''', '''                buffer.put_slice(&node.data);
                node.remaining_tx -= 1;
            }

            self.flop.push(node);
        }

        self.flip.append(&mut self.flop);

        num_taken
    }

    pub(crate) fn fill_with_len_prefix('''))

# round 3 of refactors by sub-agents (after the rule strengthenings of seed rounds 3 and 4)
NP('n_ref3_broad_modernisation', ALL, 'R17: 14 small edits over 12 functions of lib.rs', 'selftest/neutral/R17.diff')
NP('n_ref3_public_api', ALL, 'R18: 11 refactors of the public Foca methods', 'selftest/neutral/R18.diff')
NP('n_ref3_custom_broadcast_path', ALL, 'R19: add_broadcast / handle_custom_broadcasts / count+sections of send_message / broadcast', 'selftest/neutral/R19.diff')
NP('n_ref3_periodic_timers', ALL, 'R20: shared guard and re-arm helper for the periodic arms, become_connected', 'selftest/neutral/R20.diff')
NP('n_ref3_handle_data_validation', ALL, 'R21: validation prefix of handle_data split into validate_* helpers', 'selftest/neutral/R21.diff')
NP('n_ref3_member_probe', ALL, 'R22: member.rs / probe.rs third pass', 'selftest/neutral/R22.diff')
NP('n_ref3_codecs_payload', ALL, 'R23: codecs through shared generic helpers, payload predicates', 'selftest/neutral/R23.diff')
NP('n_ref3_identity_fns', ALL, 'R24: change_identity / attempt_rejoin / handle_self_update / set_config third pass', 'selftest/neutral/R24.diff')

# ---------------------------------------------------------------- frame rules added after seed round 5
M('frame_updates_replaced_on_idle', ['C15', 'C11'], ['C15-R0', 'C11-R0'], 'become_disconnected swaps in a fresh update backlog',
  (LIB, '''        self.connection_state = ConnectionState::Disconnected;

        // Ignore every timer event we sent up until this point.''', '''        self.connection_state = ConnectionState::Disconnected;
        self.updates = Broadcasts::new();

        // Ignore every timer event we sent up until this point.'''))
M('frame_custom_backlog_replaced_on_reset', ['C16'], ['C16-R0'], 'reset() swaps in a fresh custom-broadcast backlog',
  (LIB, '''        self.incarnation = Incarnation::default();
        self.timer_token = self.timer_token.wrapping_add(1);
        self.probe.clear();''', '''        self.incarnation = Incarnation::default();
        self.custom_broadcasts = Broadcasts::new();
        self.timer_token = self.timer_token.wrapping_add(1);
        self.probe.clear();'''))
M('frame_members_replaced_on_reset', ['C01', 'C09', 'C08'], ['C01-R0', 'C09-R0', 'C08-R0'], 'reset() forgets every member',
  (LIB, '''        self.incarnation = Incarnation::default();
        self.timer_token = self.timer_token.wrapping_add(1);
        self.probe.clear();''', '''        self.incarnation = Incarnation::default();
        self.members = Members::new(Vec::new());
        self.timer_token = self.timer_token.wrapping_add(1);
        self.probe.clear();'''))
M('c12_probe_started_from_data', ['C12'], ['C12-R5'], 'handle_data starts a probe round for the sender of an Announce',
  (LIB, '''            Message::Announce => self.send_message(src, Message::Feed, runtime)?,''',
   '''            Message::Announce => {
                let _ = self.probe.start(Member::alive(src.clone()));
                self.send_message(src, Message::Feed, runtime)?
            }'''))
M('c10_self_update_from_timer', ['C10'], ['C10-R4'], 'a RemoveDown timer about our own identity is treated as being told we are down',
  (LIB, '''            Timer::RemoveDown(down) => {''', '''            Timer::RemoveDown(down) => {
                if down == self.identity {
                    self.handle_self_update(Incarnation::default(), State::Down, &mut runtime)?;
                }'''))

# round 4 of refactors by sub-agents (after seed round 5 and the frame rules)
NP('n_ref4_handle_timer_all_arms', ALL, 'R25: handle_timer, token predicates and per-arm helpers', 'selftest/neutral/R25.diff')
NP('n_ref4_apply_chain', ALL, 'R26: apply_many/apply_update/handle_apply_summary and Members::apply*', 'selftest/neutral/R26.diff')
NP('n_ref4_send_message_phases', ALL, 'R27: send_message in phases, fill functions with named conditions', 'selftest/neutral/R27.diff')
NP('n_ref4_handle_data_tail', ALL, 'R28: tail of handle_data: inactive-sender helper, reply helper', 'selftest/neutral/R28.diff')
NP('n_ref4_small_files', ALL, 'R29: probe/runtime/payload/error/config', 'selftest/neutral/R29.diff')
NP('n_ref4_probe_gossip_broadcast', ALL, 'R30: probe_random_member/gossip/broadcast/choose_and_send/announce_to_down', 'selftest/neutral/R30.diff')
NP('n_ref4_constructors', ALL, 'R31: constructors and accessors', 'selftest/neutral/R31.diff')
NP('n_ref4_janitorial', ALL, 'R32: 14 janitorial edits over three files', 'selftest/neutral/R32.diff')

# ---------------------------------------------------------------- neutral: private functions renamed
N('n_rename_private_fns', ALL, 'two private functions renamed (every use updated): rename tolerance by container + signature',
  (LIB, 'fn adjust_connection_state(&mut self, runtime: impl Runtime<T>) {', 'fn sync_connection_state(&mut self, runtime: impl Runtime<T>) {'),
  (LIB, '        self.adjust_connection_state(runtime);\n\n        Ok(())', '        self.sync_connection_state(runtime);\n\n        Ok(())'),
  (LIB, '                        self.adjust_connection_state(&mut runtime);', '                        self.sync_connection_state(&mut runtime);'),
  (LIB, '    fn become_undead(&mut self, mut runtime: impl Runtime<T>) {', '    fn go_defunct(&mut self, mut runtime: impl Runtime<T>) {'),
  (LIB, '        self.become_undead(&mut runtime);', '        self.go_defunct(&mut runtime);'),
  (LIB, '                        self.become_undead(runtime);', '                        self.go_defunct(runtime);'),
  (LIB, '                    self.become_undead(runtime);', '                    self.go_defunct(runtime);'))

N('n_rename_private_fields', ALL, 'three private fields renamed everywhere (Foca.timer_token, Members.inner, Probe.indirect_ack_count)',
  (LIB, ('re', r'\bself\.timer_token\b(?!\()'), 'self.timer_epoch'),
  (LIB, ('re', r'(?m)^    timer_token: TimerToken,'), '    timer_epoch: TimerToken,'),
  (LIB, ('re', r'(?m)^            timer_token: TimerToken::default\(\),'), '            timer_epoch: TimerToken::default(),'),
  (MEMBER, ('re', r'\.inner\b'), '.records'),
  (MEMBER, ('re', r'(?m)^    pub\(crate\) inner: Vec<Member<T>>,'), '    pub(crate) records: Vec<Member<T>>,'),
  (MEMBER, ('re', r'(?m)^            inner,$'), '            records: inner,'),
  (LIB, ('re', r'\bmembers\.inner\b'), 'members.records'),
  ('src/probe.rs', ('re', r'\bindirect_ack_count\b'), 'indirect_acks'))

# round 5 of refactors by sub-agents (renames, pure moves, janitorial passes, error-handling style, boolean logic)
NP('n_ref5_renames', ALL, 'R33: 10 renames of private items (function, field, params, locals)', 'selftest/neutral/R33.diff')
NP('n_ref5_moves', ALL, 'R34: 12 pure code moves (methods, impl blocks split, use items, disjoint match arms)', 'selftest/neutral/R34.diff')
NP('n_ref5_janitor_lib_top', ALL, 'R35: janitorial pass over the first half of lib.rs', 'selftest/neutral/R35.diff')
NP('n_ref5_janitor_lib_bottom', ALL, 'R36: janitorial pass over the second half of lib.rs', 'selftest/neutral/R36.diff')
NP('n_ref5_janitor_member_broadcast', ALL, 'R37: janitorial pass over member.rs and broadcast.rs', 'selftest/neutral/R37.diff')
NP('n_ref5_janitor_small_files', ALL, 'R38: janitorial pass over the small files and codecs', 'selftest/neutral/R38.diff')
NP('n_ref5_error_style', ALL, 'R39: 12 error-handling style rewrites', 'selftest/neutral/R39.diff')
NP('n_ref5_boolean_logic', ALL, 'R40: 14 boolean/control-flow rewrites', 'selftest/neutral/R40.diff')
N('c20_flavor_other_spellings', ['C20', 'C06'], 'bounded flavor: flipped comparison in try_extend, early-return refusal in try_push',
  (POSTCARD, '        if self.0.remaining_mut() >= data.len() {\n            self.0.put_slice(data);\n            Ok(())\n        } else {\n            Err(postcard::Error::SerializeBufferFull)\n        }',
   '        if data.len() > self.0.remaining_mut() {\n            return Err(postcard::Error::SerializeBufferFull);\n        }\n        self.0.put_slice(data);\n        Ok(())'),
  (POSTCARD, '        if self.0.has_remaining_mut() {\n            self.0.put_u8(data);\n            Ok(())\n        } else {\n            Err(postcard::Error::SerializeBufferFull)\n        }',
   '        if self.0.remaining_mut() == 0 {\n            return Err(postcard::Error::SerializeBufferFull);\n        }\n        self.0.put_u8(data);\n        Ok(())'))
N('c08_to_owned_temporaries', ['C08'], 'to_owned binds the clones to temporaries first',
  ('src/runtime.rs', 'OwnedNotification::Rename(before.clone(), after.clone())', 'let (b, a) = (before.clone(), after.clone());\n                OwnedNotification::Rename(b, a)'))

# round 6 of refactors by sub-agents (combinators <-> loops, arithmetic spelling, borrowing style, private signatures,
# loop forms, constants, patterns, statement-level tidying of the intricate functions)
NP('n_ref6_combinators', ALL, 'R41: 14 combinator <-> match/loop rewrites', 'selftest/neutral/R41.diff')
NP('n_ref6_arithmetic', ALL, 'R42: 14 arithmetic / length spelling rewrites', 'selftest/neutral/R42.diff')
NP('n_ref6_borrowing', ALL, 'R43: 13 borrowing / ownership style rewrites', 'selftest/neutral/R43.diff')
NP('n_ref6_private_signatures', ALL, 'R44: 9 private signature changes (params reordered / added, functions split and merged)', 'selftest/neutral/R44.diff')
NP('n_ref6_loop_forms', ALL, 'R45: 10 loop-form rewrites', 'selftest/neutral/R45.diff')
NP('n_ref6_constants', ALL, 'R46: 14 constant / literal / type spelling rewrites', 'selftest/neutral/R46.diff')
NP('n_ref6_patterns', ALL, 'R47: 14 pattern-matching style rewrites', 'selftest/neutral/R47.diff')
NP('n_ref6_intricate_functions', ALL, 'R48: 15 statement-level edits inside the most intricate functions', 'selftest/neutral/R48.diff')

# mutants on top of the round-6 refactors: the rules must still bite on the new spellings
MP('r41_is_active_loop_ignores_state', ['C08', 'C19'], ['C08-R0', 'C19-R0'], 'loop form of Members::is_active without the state test',
   'selftest/neutral/R41.diff', (MEMBER, '            if &member.id == id && member.is_active() {', '            if &member.id == id {'))
MP('r41_indirect_ack_loop_wrong_test', ['C12'], ['C12-R1'], 'loop form of the helper search accepts any other helper',
   'selftest/neutral/R41.diff', (PROBE, '            if id == from {', '            if id != from {'))
MP('r42_feed_cap_dropped', ['C07', 'C06'], ['C07-R4', 'C06-R2'], 'core::cmp::min cap of the feed selection removed',
   'selftest/neutral/R42.diff', (LIB, """                    core::cmp::min(
                        self.estimate_feed_capacity(buf.remaining_mut()),
                        u16::MAX.into(),
                    ),""", """                    self.estimate_feed_capacity(buf.remaining_mut()),"""))
MP('r42_is_empty_reads_flop', ['C15'], ['C15-R0'], 'len()==0 form of Broadcasts::is_empty reads the scratch heap',
   'selftest/neutral/R42.diff', (BROADCAST, '        self.flip.len() == 0', '        self.flop.len() == 0'))
MP('r43_take_failed_does_not_clear', ['C12'], ['C12-R1'], 'mem::take form of take_failed replaced by a clone (round not cleared)',
   'selftest/neutral/R43.diff', (PROBE, '            core::mem::take(&mut self.direct)', '            self.direct.clone()'))
MP('r43_is_probing_negated', ['C12'], ['C12-R0'], 'match-on-reference form of is_probing with the comparison negated',
   'selftest/neutral/R43.diff', (PROBE, '            Some(probed) => probed.id() == id,', '            Some(probed) => probed.id() != id,'))
MP('r44_identity_change_keeps_epoch', ['C13', 'C17'], ['C13-R1', 'C17-R2'], 'split reset: change_identity no longer calls the half that bumps the token',
   'selftest/neutral/R44.diff', (LIB, """            let previous_id = mem::replace(&mut self.identity, new_id);

            self.reset();
            self.invalidate_timers();""", """            let previous_id = mem::replace(&mut self.identity, new_id);

            self.reset();"""))
MP('r44_max_tx_literal', ['C15', 'C16'], ['C15-R1', 'C16-R3'], 'handle_data hands a literal max_tx down to handle_custom_broadcasts',
   'selftest/neutral/R44.diff', (LIB, """            Some(&src),
            self.config.max_transmissions.get().into(),""", """            Some(&src),
            1,"""))
MP('r44_merged_table_entry', ['C01'], ['C01-R1'], 'precedence table merged into change_state, Suspect->Suspect accepts equal incarnation',
   'selftest/neutral/R44.diff', (MEMBER, '                State::Alive | State::Suspect => incarnation > self.incarnation,', '                State::Alive | State::Suspect => incarnation >= self.incarnation,'))
MP('r44_feed_capacity_args_swapped', ['C06'], ['C06-R2'], 'associated-function form of estimate_feed_capacity called with its two usize arguments swapped',
   'selftest/neutral/R44.diff', (LIB, """                        Self::estimate_feed_capacity(
                            self.config.max_packet_size.get(),
                            buf.remaining_mut(),
                        ),""", """                        Self::estimate_feed_capacity(
                            buf.remaining_mut(),
                            self.config.max_packet_size.get(),
                        ),"""))
MP('r44_receive_ack_wrong_number', ['C12'], ['C12-R1'], 'reordered receive_ack accepts any probe number but the current one',
   'selftest/neutral/R44.diff', (PROBE, '        if probeno == self.probe_number\n            && self', '        if probeno != self.probe_number\n            && self'))
MP('r45_decode_one_too_many', ['C06'], ['C06-R2'], 'counter form of the member-decoding loop runs while <=',
   'selftest/neutral/R45.diff', (LIB, '            while num_decoded < num_updates {', '            while num_decoded <= num_updates {'))
MP('r45_broadcast_flag_never_set', ['C16'], ['C16-R4'], 'flag form of broadcast(): the drained flag is never set',
   'selftest/neutral/R45.diff', (LIB, '            backlog_drained = self.custom_broadcast_backlog() == 0;', '            backlog_drained = false;'))

# "too cautious" mutants (after seed round 8): something that should happen is refused / skipped by a defensive-looking
# guard; every safety-style rule stays satisfied, the converse direction of the rule must report it
M('t_max_size_datagram_rejected', ['C07'], ['C07-R5'], 'handle_data rejects a datagram of exactly max_packet_size bytes (send_message can emit one)',
  (LIB, '        if data.remaining() > self.config.max_packet_size.get() {', '        if data.remaining() >= self.config.max_packet_size.get() {'))
M('t_single_member_never_probed', ['C12'], ['C12-R5'], 'a round is started only when there are at least two active members',
  (LIB, '        if let Some(member) = self.members.next(&mut self.rng) {\n            let member_id = member.id().clone();',
   '        let enough = self.members.num_active() > 1;\n        if let Some(member) = self.members.next(&mut self.rng).filter(|_| enough) {\n            let member_id = member.id().clone();'))
M('t_refute_only_when_connected', ['C10'], ['C10-R1'], 'a suspicion is refuted (incarnation bumped) only while Connected',
  (LIB, '                if increase_incarnation {\n                    // XXX Overzealous checking', '                if increase_incarnation && self.connection_state == ConnectionState::Connected {\n                    // XXX Overzealous checking'))
M('t_connect_needs_two_members', ['C08'], ['C08-R5'], 'the instance becomes Connected (Active) only with two or more active members',
  (LIB, '                if self.members.num_active() > 0 {\n                    self.become_connected(runtime);', '                if self.members.num_active() > 1 {\n                    self.become_connected(runtime);'))
M('t_gossip_loop_needs_backlog', ['C13'], ['C13-R3'], 'become_connected arms the periodic gossip loop only when there is something to gossip',
  (LIB, '        if let Some(ref params) = self.config.periodic_gossip {\n            runtime.submit_after(Timer::PeriodicGossip(self.timer_token), params.frequency);\n        }\n\n        runtime.notify(Notification::Active);',
   '        if let Some(ref params) = self.config.periodic_gossip {\n            if !self.updates.is_empty() {\n                runtime.submit_after(Timer::PeriodicGossip(self.timer_token), params.frequency);\n            }\n        }\n\n        runtime.notify(Notification::Active);'))
M('t_last_transmission_dropped', ['C15'], ['C15-R2'], 'an update with one transmission left after this send is not put back',
  (BROADCAST, '            if node.remaining_tx > 0 {\n                self.flop.push(node);\n            }\n        }\n\n        self.flip.append(&mut self.flop);\n\n        num_taken\n    }\n\n    pub(crate) fn fill_with_len_prefix(',
   '            if node.remaining_tx > 1 {\n                self.flop.push(node);\n            }\n        }\n\n        self.flip.append(&mut self.flop);\n\n        num_taken\n    }\n\n    pub(crate) fn fill_with_len_prefix('))
M('t_remove_down_timer_only_when_broadcast', ['C11'], ['C11-R4'], 'the forget timer is scheduled only for updates that are also gossiped',
  (LIB, '            if !summary.is_active_now {\n                runtime.submit_after(Timer::RemoveDown(id.clone()), self.config.remove_down_after);', '            if !summary.is_active_now && do_broadcast {\n                runtime.submit_after(Timer::RemoveDown(id.clone()), self.config.remove_down_after);'))
M('t_gossip_only_active_set_changes', ['C15'], ['C15-R1'], 'an accepted update is queued for gossip only when it changed the active set (incarnation refreshes are not disseminated)',
  (LIB, '            // Cluster state changed, start broadcasting it\n            if do_broadcast {', '            // Cluster state changed, start broadcasting it\n            if do_broadcast && summary.changed_active_set {'))
M('t_payload_only_from_several_updates', ['C01'], ['C01-R5'], 'the payload of an active sender is applied only when it carries more than one update',
  (LIB, '        self.apply_many(updates.drain(..), true, &mut runtime)?;', '        if updates.len() > 1 {\n            self.apply_many(updates.drain(..), true, &mut runtime)?;\n        }'))
M('t_ack_not_while_probing_sender', ['C12'], ['C12-R4'], 'a Ping from the member currently being probed is not answered',
  (LIB, '            Message::Ping(probe_number) => {\n                self.send_message(src, Message::Ack(probe_number), runtime)?;', '            Message::Ping(probe_number) => {\n                if !self.probe.is_probing(&src) {\n                    self.send_message(src, Message::Ack(probe_number), runtime)?;\n                }'))
M('t_rename_only_when_active', ['C08'], ['C08-R2'], 'Rename is notified only when the replacing identity is active',
  (LIB, '        if let member::ConflictResult::Replaced(old) = summary.conflict {', '        if let (member::ConflictResult::Replaced(old), true) = (summary.conflict, summary.is_active_now) {'))
M('t_broadcast_dropped_when_alone', ['C16'], ['C16-R1'], 'add_broadcast reports Ok(true) but queues the item only when some member is active',
  (LIB, '        {\n            self.custom_broadcasts.add_or_replace(\n                key,\n                data.to_vec(),\n                self.config.max_transmissions.get().into(),\n            );\n            Ok(true)',
   '        {\n            if self.members.num_active() > 0 {\n                self.custom_broadcasts.add_or_replace(\n                    key,\n                    data.to_vec(),\n                    self.config.max_transmissions.get().into(),\n                );\n            }\n            Ok(true)'))
M('t_custom_broadcasts_need_room_for_ten', ['C16'], ['C16-R3'], 'custom broadcasts ride along only when at least ten bytes are left (a smaller item that fits is omitted)',
  (LIB, '        let add_custom_broadcast = buf.has_remaining_mut()\n', '        let add_custom_broadcast = buf.remaining_mut() >= 10\n'))
M('t_custom_broadcasts_only_on_broadcast', ['C16'], ['C16-R3'], 'custom broadcasts ride only on Broadcast datagrams, no longer on the other kinds that allow them',
  (LIB, '            && header.message.allow_custom_broadcasts()\n', '            && header.message == Message::Broadcast\n'))
M('t_updates_need_room_for_twenty', ['C15'], ['C15-R4'], 'updates are piggybacked only when more than 20 bytes are left (a small update that fits is omitted)',
  (LIB, '        if header.message.needs_piggyback() && buf.remaining_mut() > 2 {', '        if header.message.needs_piggyback() && buf.remaining_mut() > 20 {'))
M('t_updates_not_on_ack', ['C15'], ['C15-R4'], 'updates are no longer piggybacked on Ack',
  (LIB, '        if header.message.needs_piggyback() && buf.remaining_mut() > 2 {', '        if header.message.needs_piggyback() && !matches!(header.message, Message::Ack(_)) && buf.remaining_mut() > 2 {'))
M('t_feed_stops_one_early', ['C07'], ['C07-R4'], 'the Feed loop stops when fewer than 64 bytes are left instead of when a member does not fit',
  (LIB, '                while let Some(chosen) = self.choice_buf.pop() {\n                    let pos = buf.get_ref().len();', '                while let Some(chosen) = self.choice_buf.pop() {\n                    if buf.remaining_mut() < 64 {\n                        break;\n                    }\n                    let pos = buf.get_ref().len();'))
M('t_probe_tick_needs_two_members', ['C13'], ['C13-R3'], 'a current probe tick probes (and re-arms) only when two or more members are active: with one peer the probe loop dies',
  (LIB, '                    } else {\n                        self.probe_random_member(runtime)\n                    }', '                    } else if self.members.num_active() > 1 {\n                        self.probe_random_member(runtime)\n                    } else {\n                        Ok(())\n                    }'))
M('t_postcard_member_decode_limit', ['C20'], ['C20-R2'], 'postcard decode_member refuses to look at more than 512 bytes of input (a valid member followed by a long tail fails)',
  (POSTCARD, '        let (member, rest) = postcard::take_from_bytes(buf.chunk())?;\n        let after = rest.remaining();', '        if remaining > 512 {\n            return Err(postcard::Error::DeserializeUnexpectedEnd);\n        }\n        let (member, rest) = postcard::take_from_bytes(buf.chunk())?;\n        let after = rest.remaining();'))

# round 7 of refactors by sub-agents: bolder restructurings of the functions the converse-direction rules look at
NP('n_ref7_handle_data', ALL, 'R49: handle_data restructured (five helpers extracted, matches! guards)', 'selftest/neutral/R49.diff')
NP('n_ref7_send_message', ALL, 'R50: send_message split into section helpers, clamp moved into estimate_feed_capacity', 'selftest/neutral/R50.diff')
NP('n_ref7_apply_path', ALL, 'R51: apply_many / apply_update / handle_apply_summary / Members::apply restructured', 'selftest/neutral/R51.diff')
NP('n_ref7_handle_timer', ALL, 'R52: every arm of handle_timer and probe_random_member restructured', 'selftest/neutral/R52.diff')
NP('n_ref7_probe_and_state', ALL, 'R53: probe.rs and the connection-state functions restructured', 'selftest/neutral/R53.diff')
NP('n_ref7_broadcasts', ALL, 'R54: broadcast.rs with a higher-order fill helper, custom-broadcast functions restructured', 'selftest/neutral/R54.diff')
NP('n_ref7_identity_functions', ALL, 'R55: handle_self_update, attempt_rejoin, change_identity, set_config, accept_payload restructured', 'selftest/neutral/R55.diff')
NP('n_ref7_runtime_payload_codecs', ALL, 'R56: runtime.rs, payload.rs and both codecs restructured', 'selftest/neutral/R56.diff')

MP('r49_inactive_sender_replies_while_undead', ['C18'], ['C18-R2'], 'extracted inactive-sender helper: the reply no longer depends on not being Undead',
   'selftest/neutral/R49.diff', (LIB, '        Ok(!matches!(self.connection_state, ConnectionState::Undead)\n            && self.config.notify_down_members)', '        Ok(self.config.notify_down_members)'))
MP('r50_feed_clamp_dropped', ['C07', 'C06'], ['C07-R4', 'C06-R2'], 'the u16 clamp that moved into estimate_feed_capacity is dropped there',
   'selftest/neutral/R50.diff', (LIB, '        usize::min(estimate, u16::MAX.into())', '        estimate'))
MP('r52_periodic_guard_without_token', ['C13'], ['C13-R2'], 'shared guard of the periodic arms no longer tests the token',
   'selftest/neutral/R52.diff', (LIB, '        token == self.timer_token && self.connection_state == ConnectionState::Connected', '        self.connection_state == ConnectionState::Connected'))
MP('r53_ack_any_number', ['C12'], ['C12-R1'], 'bound-local form of receive_ack without the probe-number test',
   'selftest/neutral/R53.diff', (PROBE, '        let is_expected_ack = probeno == self.probe_number && self.is_probing(from);', '        let is_expected_ack = self.is_probing(from);'))
MP('r54_fit_test_ignores_overhead', ['C06', 'C16'], ['C06-R2', 'C16-R3'], 'higher-order fill helper: the fit test forgets the per-item overhead',
   'selftest/neutral/R54.diff', (BROADCAST, '            if buffer.remaining_mut() >= node.data.len() + overhead {', '            if buffer.remaining_mut() >= node.data.len() {'))
MP('r54_accepted_item_not_kept', ['C16'], ['C16-R1'], 'add_broadcast reports Ok(true) without calling the extracted keep helper',
   'selftest/neutral/R54.diff', (LIB, '        self.keep_broadcast_item(key, data);\n        Ok(true)', '        let _ = key;\n        Ok(true)'))
MP('r55_accept_any_kind_by_address', ['C17'], ['C17-R3'], 'early-return form of accept_payload accepts every kind by address',
   'selftest/neutral/R55.diff', (LIB, '        if !matches!(header.message, Message::Announce) {\n            return false;\n        }\n', ''))
MP('r56_owned_rename_swapped', ['C08'], ['C08-R7'], 'to_owned with named locals: Rename payloads swapped',
   'selftest/neutral/R56.diff', ('src/runtime.rs', '                Owned::Rename(owned_before, owned_after)', '                Owned::Rename(owned_after, owned_before)'))

# round 8 of refactors by sub-agents. R57 (how runtime/codec/config are passed around) and R61 (Result/Option plumbing, an
# `ensure(cond, err)` helper) and R60 (methods turned into free functions, a predicate deleted and inlined) are silent on every
# check. R58 (private enums instead of bools) and R59 (try_for_each pipelines) are only partly handled - see DESIGN.md
# 10.6 "What is still reported": they are run against the checks that stay silent, so that those do not regress.
NP('n_ref8_passing_style', ALL, 'R57: by-value / by-reference / associated-function forms of private helpers', 'selftest/neutral/R57.diff')
NP('n_ref8_result_plumbing', ALL, 'R61: ensure() helper, map / `?` / let-else plumbing', 'selftest/neutral/R61.diff')
NP('n_ref8_private_enums', ['C06', 'C07', 'C11', 'C12', 'C13', 'C16', 'C20'], 'R58: private enums and a parameter struct instead of bools (other checks: known alarms, DESIGN 10.6)', 'selftest/neutral/R58.diff')
NP('n_ref8_pipelines', ['C11', 'C12', 'C13'], 'R59: try_for_each / from_fn pipelines in lib.rs (other checks: known alarms, DESIGN 10.6; C16 joined them in session 13 when it began re-running C07-R3/R4, which cannot read the Feed loop as a try_for_each pipeline)', 'selftest/neutral/R59.diff')
NP('n_ref9_next_chain_and_try', ALL, 'R62: Members::next as one map/or_else chain and `?`', 'selftest/neutral/R62.diff')
NP('n_ref9_next_start_local_cloned', ALL, 'R63: cursor bound to a local, fallback as match, cursor assigned from an if-expression; probe_random_member takes next(..).cloned()', 'selftest/neutral/R63.diff')
NP('n_ref9_next_subslices', ALL, 'R64: inner[cursor..] / inner[..cursor] instead of skip/take, let-else (C06: the range-index sites are discharged by the reset above them since session 13 - `cursor < len` or `cursor = 0` on every path; the one inside the or_else closure through its shared captures)', 'selftest/neutral/R64.diff')
NP('n_ref9_next_range_helper', [x for x in ALL if x != 'C14'], 'R65: first_active_in(range) helper over enumerate/skip/take/find, advance_cursor helper (C14: reported unreadable, DESIGN 10.7 limits)', 'selftest/neutral/R65.diff')
NP('n_ref8_moved_functions', ALL, 'R60: private methods moved to free functions / other impl blocks, a kind predicate deleted and inlined at its use', 'selftest/neutral/R60.diff')

MP('r57_accept_payload_wrong_identity', ['C17'], ['C17-R3'], 'associated-function form of accept_payload is handed the sender instead of the own identity',
   'selftest/neutral/R57.diff', (LIB, 'Self::accept_payload(&self.identity, &header)', 'Self::accept_payload(&header.src, &header)'))
MP('r61_ensure_inverted', ['C13'], ['C13-R6'], 'ensure() form of the IncompleteProbeCycle report with the condition inverted',
   'selftest/neutral/R61.diff', (LIB, '        ensure(!probe_was_incomplete, Error::IncompleteProbeCycle)', '        ensure(probe_was_incomplete, Error::IncompleteProbeCycle)'))
MP('r61_ensure_trailing_bytes_inverted', ['C16'], ['C16-R2'], 'ensure() form of the trailing-bytes check inverted',
   'selftest/neutral/R61.diff', (LIB, '        ensure(!data.has_remaining(), Error::MalformedPacket)', '        ensure(data.has_remaining(), Error::MalformedPacket)'))

MP('r60_inlined_feed_predicate_widened', ['C07', 'C15'], ['C07-R3', 'C15-R4'], 'the inlined kind predicate of the Feed section also matches Gossip',
   'selftest/neutral/R60.diff', (LIB, 'matches!(header.message, Message::Feed)', 'matches!(header.message, Message::Feed | Message::Gossip)'))

# mutants on top of the refactored spellings of Members::next (R63: match-form fallback; R64: sub-slices)
MP('r63_fallback_dropped', ['C14'], ['C14-R3'], 'match-form fallback removed: nothing before the cursor is ever searched',
   'selftest/neutral/R63.diff', (MEMBER, ('re', r'None => self\s*\.inner\s*\.iter\(\)\s*(//[^\n]*\n\s*)*\.take\(start\)\s*\.position\(\|m\| m\.is_active\(\)\),'), 'None => None,'))
MP('r63_advance_from_start', ['C14'], ['C14-R4'], 'the cursor advances from the round start instead of the found index',
   'selftest/neutral/R63.diff', (MEMBER, '                    pos.saturating_add(1)\n', '                    start.saturating_add(1)\n'))
MP('r64_wrap_slice_short', ['C14'], ['C14-R3'], 'sub-slice fallback stops one record before the cursor',
   'selftest/neutral/R64.diff', (MEMBER, 'self.inner[..self.cursor]\n', 'self.inner[..self.cursor.saturating_sub(1)]\n'))
MP('r64_reset_dropped', ['C06'], ['C06-R2'], 'sub-slice form without the cursor reset: inner[cursor..] with cursor > len panics',
   'selftest/neutral/R64.diff', (MEMBER, ('re', r'self\.cursor = 0;(?=[^;]*?// Find an active member)'), '// cursor kept'))
MP('r64_offset_not_added', ['C14'], ['C14-R3'], 'the sub-slice position is used as an absolute index',
   'selftest/neutral/R64.diff', (MEMBER, '.map(|pos| self.cursor + pos)', '.map(|pos| pos)'))

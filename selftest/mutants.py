"""Mutant corpus: single-instance breakages of caio/foca that the static checks must report, and neutral
(behaviour-preserving) edits on which they must stay silent.  Edits are (file, old, new) exact replacements;
`old` must occur exactly once in the current tree."""

MUTANTS = []
NEUTRAL = []


def M(name, props, rules, why, *edits):
    MUTANTS.append({'name': name, 'props': props, 'rules': rules, 'why': why, 'edits': list(edits)})


def N(name, props, why, *edits):
    NEUTRAL.append({'name': name, 'props': props, 'why': why, 'edits': list(edits)})


MEMBER = 'src/member.rs'
LIB = 'src/lib.rs'

# ---------------------------------------------------------------- C01
M('c01_suspect_needs_higher_inc', ['C01'], ['C01-R1'], 'Suspect no longer overrides Alive at equal incarnation',
  (MEMBER, 'State::Suspect => other_incarnation >= self.incarnation,', 'State::Suspect => other_incarnation > self.incarnation,'))
M('c01_down_changeable', ['C01', 'C11'], ['C01-R1'], 'a Down record can be overridden by a higher incarnation',
  (MEMBER, '            State::Down => false,\n        }\n    }\n\n    pub(crate) fn into_identity',
   '            State::Down => other_incarnation > self.incarnation,\n        }\n    }\n\n    pub(crate) fn into_identity'))
M('c01_suspect_alive_same_inc', ['C01'], ['C01-R1'], 'Alive refutes Suspect at the same incarnation',
  (MEMBER, 'State::Alive | State::Suspect => other_incarnation > self.incarnation,',
   'State::Alive => other_incarnation >= self.incarnation,\n                State::Suspect => other_incarnation > self.incarnation,'))
M('c01_conflict_polarity', ['C01', 'C09'], ['C01-R3'], 'conflict resolution asks the update instead of the stored identity',
  (MEMBER, 'if id_conflict && known_member.id.win_addr_conflict(&update.id) {', 'if id_conflict && !update.id.win_addr_conflict(&known_member.id) {'))
M('c01_lookup_by_identity', ['C01', 'C09'], ['C01-R3'], 'records are looked up by identity instead of address',
  (MEMBER, '.find(|member| member.id.addr() == update.id().addr())', '.find(|member| &member.id == update.id())'))
M('c01_replace_keeps_incarnation', ['C01'], ['C01-R3'], 'conflict replacement keeps the old incarnation',
  (MEMBER, '                known_member.incarnation = update.incarnation;\n', ''))
M('c01_change_state_ignores_table', ['C01'], ['C01-R2'], 'change_state writes the state even when can_change is false',
  (MEMBER, '        } else {\n            false\n        }\n    }\n\n    const fn can_change',
   '        } else {\n            self.state = state;\n            false\n        }\n    }\n\n    const fn can_change'))
M('c01_own_addr_applied_verbatim', ['C01', 'C09'], ['C01-R4', 'C09-R3'], 'updates about the own address are applied with their own state',
  (LIB, '                self.apply_update(\n                    Member::down(update.into_identity()),\n                    do_broadcast,',
   '                self.apply_update(\n                    update,\n                    do_broadcast,'))
N('c01_match_to_if', ['C01'], 'can_change written with if/else instead of nested match',
  (MEMBER, '''        match self.state {
            State::Alive => match other {
                State::Alive => other_incarnation > self.incarnation,
                State::Suspect => other_incarnation >= self.incarnation,
                State::Down => true,
            },
            State::Suspect => match other {
                State::Alive | State::Suspect => other_incarnation > self.incarnation,
                State::Down => true,
            },
            State::Down => false,
        }''', '''        if matches!(self.state, State::Down) {
            return false;
        }
        if matches!(other, State::Down) {
            return true;
        }
        if matches!(self.state, State::Alive) && matches!(other, State::Suspect) {
            self.incarnation <= other_incarnation
        } else {
            self.incarnation < other_incarnation
        }'''))

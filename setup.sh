#!/bin/bash
# Build the framework offline from files on disk: the mirfacts driver, and warm the per-configuration
# dependency caches (so that every check only re-analyses the crate itself).
set -e
cd "$(dirname "$0")"
export CARGO_NET_OFFLINE=true
(cd engine/mirfacts && cargo build --release --offline)
for c in base wire nostd all; do
  python3 rules/lib/export.py $c >/dev/null
done
echo "setup ok"

#!/bin/bash
# Run every claimed check (quick tier) against an alternative source tree and list which rules report.
#   tools/check_tree.sh <tree> [PROP...]
T=$(realpath "$1"); shift
VERIF=$(cd "$(dirname "$0")/.." && pwd)
PROPS=${@:-C01 C06 C07 C08 C09 C10 C11 C12 C13 C15 C16 C17 C18 C19 C20}
EV=$(mktemp -d /tmp/verif-ev.XXXXXX)
for p in $PROPS; do
  out=$(cd "$VERIF" && VERIF_REPO="$T" VERIF_EVIDENCE_DIR="$EV" ./check $p 2>&1); rc=$?
  echo "$p exit=$rc $(echo "$out" | grep -o 'rule=[A-Z0-9-]*' | sort -u | tr '\n' ' ')"
  [ $rc -ne 0 ] && [ -n "${VERBOSE:-}" ] && echo "$out" | grep -A3 -E "^VIOLATION|rule=" | head -${VERBOSE_LINES:-40}
done
rm -rf "$EV"
python3 - "$T" <<'PY'
import hashlib,glob,shutil,os,sys
tag=hashlib.sha1(os.path.abspath(sys.argv[1]).encode()).hexdigest()[:8]
for t in glob.glob('/verif/.cache/target/*-'+tag): shutil.rmtree(t,ignore_errors=True)
PY

#!/usr/bin/env python3
"""Regenerate rules/known_fns.txt (names) and rules/known_sigs.json (name -> [return type, param types...]) from the
reference tree ($VERIF_REPO, default /repo).  The lists describe the functions the rules were written against; a crate
function that is not in them is treated as a helper introduced later (inlined, attributed to its callers), and a listed
function that is missing while exactly one new private function of the same container and signature exists is taken
to be that function renamed (see rules/run.py: rename tolerance)."""
import json
import os
import sys

HERE = os.path.dirname(os.path.dirname(os.path.abspath(__file__)))
sys.path.insert(0, HERE)
from rules.lib import export            # noqa: E402
from rules.lib.facts import strip_generics   # noqa: E402

def fingerprint(b):
    """What a body does, coarsely: the callees it names and the fields it assigns (used to tell apart renamed
    functions that share container and signature)."""
    fp = set()
    for bl in b['blocks']:
        if bl['cleanup']:
            continue
        for st in bl['stmts']:
            if 'lhs' in st:
                for e in st['lhs']['proj']:
                    if e['k'] == 'field' and e.get('owner'):
                        fp.add('W:%s.%s' % (strip_generics(e['owner']), e['name']))
        t = bl['term']
        if t['k'] == 'call':
            fp.add(strip_generics(t['res'] or t['decl']))
    return fp


names = set()
sigs = {}
for cfg in ('base', 'wire', 'nostd', 'all'):
    raw = export.export(cfg)
    for b in raw['bodies']:
        if b['kind'] == 'Closure':
            continue
        n = strip_generics(b['name'])
        names.add(n)
        sigs.setdefault(n, {'sig': [strip_generics(str(t)) for t in b['locals'][:b['argc'] + 1]], 'fp': set()})
        sigs[n]['fp'] |= fingerprint(b)
old = {l.strip() for l in open(os.path.join(HERE, 'rules', 'known_fns.txt')) if l.strip() and not l.startswith('#')}
print('names now %d, previously listed %d, new %d, gone %d' % (len(names), len(old), len(names - old), len(old - names)))
if '--write-names' in sys.argv:
    open(os.path.join(HERE, 'rules', 'known_fns.txt'), 'w').write('\n'.join(sorted(names)) + '\n')
json.dump({k: {'sig': sigs[k]['sig'], 'fp': sorted(sigs[k]['fp'])} for k in sorted(sigs)},
          open(os.path.join(HERE, 'rules', 'known_sigs.json'), 'w'), indent=0)
print('known_sigs.json written (%d entries)' % len(sigs))
# reference field tables: adt -> variant -> [(field name, type)] for the crate's own types
fields = {}
for cfg in ('base', 'wire'):
    raw = export.export(cfg)
    for a in raw['adts']:
        n = strip_generics(a['name'])
        if n.startswith(('core::', 'alloc::', 'std::', 'bytes::', 'rand', 'serde', 'bincode', 'postcard')):
            continue
        fields.setdefault(n, {v['name']: [[f['name'], strip_generics(f['ty'])] for f in v['fields']] for v in a['variants']})
json.dump(fields, open(os.path.join(HERE, 'rules', 'known_fields.json'), 'w'), indent=0, sort_keys=True)
print('known_fields.json written (%d types)' % len(fields))

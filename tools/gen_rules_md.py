#!/usr/bin/env python3
"""Write RULES.md: the rules each check applies, as recorded in the evidence files of the last run
(evidence/<ID>.json -> coverage.rules, coverage.evaluations, coverage.floors)."""
import glob
import json
import os

HERE = os.path.dirname(os.path.dirname(os.path.abspath(__file__)))
out = ['# Rules applied by each check (generated from evidence/*.json by tools/gen_rules_md.py)\n',
       'Rule ids are `<property>-R<n>`; a statement after `||` is a rule of a neighbouring property that is re-run under '
       'this id so that the check stands alone. Counts are rule instances of the last quick-tier run on the unchanged tree.\n']
for p in sorted(glob.glob(os.path.join(HERE, 'evidence', 'C??.json'))):
    e = json.load(open(p))
    c = e['coverage']
    out.append('\n## %s  (%d rule instances over %d constructs, tier %s)\n' % (e['property_id'], c['evaluations'],
                                                                            c['distinct_nontrivial'], e['tier']))
    out.append(c['explanation'] + '\n')
    for rid, text in sorted(c['rules'].items()):
        parts = text.split(' || ')
        out.append('* **%s** %s' % (rid, parts[0]))
        for extra in parts[1:]:
            out.append('  * also: %s' % extra)
    nd = c.get('not_decided') or []
    if nd:
        out.append('\nNot decided: ' + '; '.join(nd))
    if e.get('assumptions'):
        out.append('\nAssumptions: ' + '; '.join(e['assumptions']))
open(os.path.join(HERE, 'RULES.md'), 'w').write('\n'.join(out) + '\n')
print('RULES.md written')

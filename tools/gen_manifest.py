#!/usr/bin/env python3
"""Generate /verif/MANIFEST.json from the table below (single source of truth for claimed / not-applicable)."""
import json, os
VERIF = os.path.dirname(os.path.dirname(os.path.abspath(__file__)))

CLAIMED = {
 # id: (technique, level text, level note, design ref)
 'C01': ('decision-table extraction from MIR (symbolic path enumeration of Member::can_change) checked exhaustively '
         'against SWIM precedence over a finite order abstraction; who-may-write and guard rules over resolved MIR',
         'Structural core of the property decided for all inputs at once: the precedence table, its single client, '
         'the writers of a record, the conflict-replacement guards and the routing of updates. No execution.',
         'rustc MIR + callee resolution; mirfacts serialisation; win_addr_conflict a strict order per address (user contract). '
         'Two-instance agreement as a run is not decided.', '4/C01'),
}

NOT_APPLICABLE = {
 'C02': 'Convergence within a number of probe periods linear in n and zero false suspicion for all latencies < probe_rtt/4 quantify over message timing and multi-instance schedules; no sound static argument in reach bounds them (structural preconditions are decided under C12/C09/C07).',
 'C03': 'Detection-time bound (2n+1)*probe_period + suspect_to_down_after over all crash points is a real-time liveness claim about composed instances; not decidable from code shape (mechanism clauses decided under C12-R5, C11-R4, C10-R4).',
 'C04': 'For-all-fault-points convergence claim over schedules (single lost datagram never leads to Down; all Alive again within a bound); only its mechanism clauses are static and they are decided under C11/C10.',
 'C05': 'Partition healing within a bounded number of announce-to-down periods for all split shapes is a multi-instance temporal property (rejoin-or-defunct and Announce-by-address are decided under C10-R4, C17-R3).',
 'C14': 'The 2n-1 window bound for every shuffle/seed/arrangement of Down records is a combinatorial statement about cursor/shuffle dynamics over runtime sequences; a structural proxy would be brittle.',
}

PENDING = {'C06': 'rule module under construction in this session (will be claimed once its check exists); see DESIGN.md section 4', 'C07': 'rule module under construction in this session (will be claimed once its check exists); see DESIGN.md section 4', 'C08': 'rule module under construction in this session (will be claimed once its check exists); see DESIGN.md section 4', 'C09': 'rule module under construction in this session (will be claimed once its check exists); see DESIGN.md section 4', 'C10': 'rule module under construction in this session (will be claimed once its check exists); see DESIGN.md section 4', 'C11': 'rule module under construction in this session (will be claimed once its check exists); see DESIGN.md section 4', 'C12': 'rule module under construction in this session (will be claimed once its check exists); see DESIGN.md section 4', 'C13': 'rule module under construction in this session (will be claimed once its check exists); see DESIGN.md section 4', 'C15': 'rule module under construction in this session (will be claimed once its check exists); see DESIGN.md section 4', 'C16': 'rule module under construction in this session (will be claimed once its check exists); see DESIGN.md section 4', 'C17': 'rule module under construction in this session (will be claimed once its check exists); see DESIGN.md section 4', 'C18': 'rule module under construction in this session (will be claimed once its check exists); see DESIGN.md section 4', 'C19': 'rule module under construction in this session (will be claimed once its check exists); see DESIGN.md section 4', 'C20': 'rule module under construction in this session (will be claimed once its check exists); see DESIGN.md section 4'}   # id -> reason while a rule module is being built


def main():
    checks = []
    for pid, (tech, text, note, ref) in sorted(CLAIMED.items()):
        checks.append({
            'property_id': pid,
            'quick_cmd': './check %s --tier quick' % pid,
            'thorough_cmd': './check %s --tier thorough' % pid,
            'evidence_file': '/verif/evidence/%s.json' % pid,
            'replay_cmd_template': 'cat {path}',
            'engine': 'mirfacts+rules',
            'level_claimed': {'category': 'other', 'text': text, 'design_ref': 'DESIGN.md section ' + ref},
            'level_note': note,
            'technique': 'static analysis: ' + tech,
        })
    na = [{'property_id': k, 'reason': v} for k, v in sorted({**NOT_APPLICABLE, **PENDING}.items())]
    m = {
        'version': 1,
        'setup_cmd': './setup.sh',
        'hooks': {
            'guard': 'none (the analysis reads the type-checked program through a rustc wrapper; no hook is compiled into caio/foca)',
            'enable': 'not needed: checks run `cargo +nightly check` on /repo with RUSTC_WORKSPACE_WRAPPER=engine/mirfacts',
            'baseline_off_cmd': 'cd /repo && cargo test --workspace --no-fail-fast --offline',
            'source_commits': [],
            'add_only': True,
        },
        'engines': [
            {'name': 'mirfacts', 'path': 'engine/mirfacts', 'serves_properties': sorted(CLAIMED),
             'kind_free_text': 'rustc_private driver exporting MIR (resolved callees, places with field names, constants, promoted bodies, spans) of the real cargo build as JSON'},
            {'name': 'rules', 'path': 'rules', 'serves_properties': sorted(CLAIMED),
             'kind_free_text': 'Python rule library: CFG/dominators, symbolic path enumeration (decision tables, guards, value provenance), who-may-write/call, effect rules; one module per property'},
        ],
        'checks': checks,
        'not_applicable': na,
        'notes': 'Technique family: static analysis only. Repairs of six genuine defects are unguarded fix: commits in /repo (see known_findings.txt).',
    }
    json.dump(m, open(os.path.join(VERIF, 'MANIFEST.json'), 'w'), indent=1)
    print('MANIFEST.json: %d checks, %d not applicable' % (len(checks), len(na)))


if __name__ == '__main__':
    main()

#!/usr/bin/env python3
"""Generate /verif/MANIFEST.json from the table below (single source of truth for claimed / not-applicable)."""
import json, os
VERIF = os.path.dirname(os.path.dirname(os.path.abspath(__file__)))

COMMON_NOTE = ('rustc MIR construction + callee resolution; mirfacts serialisation; the symbolic path enumerator '
               '(rules/lib/symx.py: loops traversed once, loop-carried values widened); ')

CLAIMED = {
 # id: (technique, level text, level note, design ref)
 'C01': ('decision-table extraction from MIR (symbolic path enumeration of Member::can_change) checked exhaustively '
         'against SWIM precedence over a finite order abstraction; who-may-write and guard rules over resolved MIR',
         'Structural core of the property decided for all inputs at once: the precedence table, its single client, '
         'the writers of a record, the conflict-replacement guards and the routing of updates. No execution.',
         COMMON_NOTE + 'win_addr_conflict a strict order per address (user contract). Two-instance agreement as a run is not decided.', '4/C01'),
 'C06': ('panic-site enumeration over MIR (Assert terminators, core::panicking calls, unwrap/expect, partial library '
         'routines) + classification of every external callee + discharge by path-sensitive guard reasoning (buffer '
         'budgets, guarded subtraction), checked invariants (who-may-write, caller guards, pairing) and an audited table',
         'Absence of reachable panics in Foca\'s own code for every input/history/configuration under the property\'s own '
         'assumptions; the debug build (superset of panic sites) is analysed in two feature configurations.',
         COMMON_NOTE + 'classification and audited tables in rules/c06_tables.py; third-party crates, serde-derive output, '
         'user trait impls and allocation failure are outside the claim.', '4/C06'),
 'C07': ('writer-shape rules on send_message over all symbolic paths: single sender, header provenance, boundedness via '
         'BufMut::limit, kind-predicate tables extracted from MIR, section guards, count patch-up pairing, writer/reader '
         'sibling agreement, scratch-buffer discipline',
         'Decides the framing Foca itself adds around codec output on every path and for every message kind.',
         COMMON_NOTE + 'bytes::Limit bounds writes; byte-level acceptance for an arbitrary user codec is not decided.', '4/C07'),
 'C08': ('who-may-construct rules for notifications, iff-guards of handle_apply_summary over all paths, summary-flow '
         '(must-pass-through) rule, flag-honesty rule on apply_existing_if, connection-state write/notify pairing and '
         'transition guards, FIFO shape of AccumulatingRuntime',
         'Notifications are produced only from, and always from, the summary of an actual change; the state machine\'s '
         'pairing and guards hold on every path.',
         COMMON_NOTE + 'the replay equation over histories is implied, not replayed.', '4/C08'),
 'C09': ('single-growth-site rule, conflict-gated identity replacement, own-address guards at every apply site, '
         'payload-consumer guards in handle_data, scratch discipline of the decoded payload, exact-forgetting rule',
         'Structural in almost full: uniqueness per address and the own-address exclusion follow from guards present on '
         'every path to every site that can add or replace a record.',
         COMMON_NOTE + 'Identity::addr pure; win_addr_conflict strict per address.', '4/C09'),
 'C10': ('who-may-write on Foca.incarnation/identity with value-provenance and guard extraction (iff over all paths of '
         'handle_self_update), taint rule "learned incarnations never reach arithmetic" with positive control, '
         'rejoin-or-defunct must-pass-through rule',
         'Monotonicity and the exact bump condition/value are decided for all histories at once from the only writers.',
         COMMON_NOTE + 'the wire-visible clause is decided via C07-R1 (header reads self.incarnation at send time).', '4/C10'),
 'C11': ('case-table extraction of the ChangeSuspectToDown handler: epoch guard dominance on every effect, closure table of '
         'the apply condition, provenance of the applied value, success-flag dependence of every effect (also inside '
         'callees), finality of Down from the can_change table',
         'The iff in the statement is decided as guards/effects on all paths of the handler and its callees.',
         COMMON_NOTE + 'nothing about real time.', '4/C11'),
 'C12': ('who-may-write on Probe evidence fields with guard extraction, caller/argument provenance of '
         'receive_ack/receive_indirect_ack, relay table extraction (kind handled -> kind sent, destination, payload) '
         'over all paths of handle_data, indirect-stage guards, single Suspect construction site',
         'What counts as evidence, who may record it and the relay table are decided on every path.',
         COMMON_NOTE + 'temporal clauses are decided as orderings of handler code only.', '4/C12'),
 'C13': ('who-may-write on timer_token (wrapping bump paired with every leave-Connected write), epoch-guard dominance in '
         'every token-carrying timer arm, arm/re-arm site counting per periodic variant with iff-guards (re-armed exactly when token current, Connected and configured), path enumeration of set_config, '
         'injectivity of Timer::seq',
         'The epoch mechanism and the arm/re-arm structure are decided on every path.',
         COMMON_NOTE + 'paths leaving a handler through `?` on a user codec error are outside the claim.', '4/C13'),
 'C14': ('scan-summary extraction from MIR: the Option-valued search of Members::next is normalised, through its closures and '
         'iterator adaptors, to a list of index segments with the is_active predicate and compared with the cyclic '
         'first-active-at-or-after-the-cursor scan; path rules on the cursor (reset iff past the end, advance by exactly one, wrap '
         'forces reshuffle); who-may-write / who-may-reorder frame rules on Members.cursor and Members.inner; one next() call and '
         'one Ping per probe round (C12-R5 / C09-R3 re-run)',
         'The structural half of the property: exactly one ping per round, to an active record that never bears the own address, '
         'and the scan/cursor mechanism that the 2n-1 lemma (DESIGN.md 10.7) takes as hypotheses - decided for every layout, seed '
         'and cursor at once. The number 2n-1 is not replayed over runs.',
         COMMON_NOTE + 'SliceRandom::shuffle permutes; core iterator adaptors behave as documented; the lemma from mechanism to bound is a written argument.', '10.7'),
 'C15': ('per-entry bookkeeping rules inside Broadcasts (retain-before-push, control-equivalence of write/count/decrement, '
         'push-back iff remaining_tx > 0, append post-dominates), sibling cross-check of fill and fill_with_len_prefix, '
         'Entry::cmp table, who-consumes / who-enqueues guards',
         'Accounting invariants decided per transmission on every path of the two fill loops.',
         COMMON_NOTE + 'counts over histories follow from the invariants; not replayed.', '4/C15'),
 'C16': ('acceptance/receive-loop/gating rules over all paths of add_broadcast, handle_custom_broadcasts, send_message and '
         'broadcast(): provenance of the bytes handed to the handler and stored, advance pairing, gate guards, early exit',
         'Framing, gating and hand-over to the handler decided on every path.',
         COMMON_NOTE + 'handler-specific invalidation relations are user code.', '4/C16'),
 'C17': ('effect-ordering rule: on every path to a rejection return the set of effect atoms is empty (validation before '
         'effect), scratch-buffer rule for updates_buf, framing refusals precede the first effect, deny-list over resolved callees for ambient nondeterminism',
         'Rejected input leaves no trace: decided per rejection class over all paths of the entry points.',
         COMMON_NOTE + 'user code is deterministic.', '4/C17'),
 'C18': ('extraction of the header-triggered reply graph (kind handled x sender active/inactive -> kind sent) from all '
         'paths of handle_data, acyclicity check with renewal-gated exception, fan-out bound per datagram',
         'Every cycle of automatic replies is excluded structurally for all mutual-knowledge states.',
         COMMON_NOTE + 'content-triggered gossip is bounded by max_transmissions (runtime quantity, stated not checked).', '4/C18'),
 'C19': ('destination-provenance rule at every send_message call site (reply to header.src after the own-address '
         'rejection; choice_buf filled by active pickers; Members::next; down picker filtered by own address)',
         'Every originated/answered datagram\'s destination is shown not to bear the own address, on every path.',
         COMMON_NOTE + 'relays towards a peer-named target are outside the guarantee (as stated).', '4/C19'),
 'C20': ('guard rules on the postcard flavor (bounded writes), cursor-arithmetic rule, sibling agreement of the four codec '
         'methods per codec, derive-symmetry and plainness rule for wire types (no field skipped, defaulted or routed through hand-written code)',
         'The fail-cleanly and consume-exactly clauses for the code that lives in this repository.',
         COMMON_NOTE + 'value-level round-trip equality through bincode/postcard is not decided.', '4/C20'),
}

NOT_APPLICABLE = {
 'C02': 'Convergence within a number of probe periods linear in n and zero false suspicion for all latencies < probe_rtt/4 quantify over message timing and multi-instance schedules; no sound static argument in reach bounds them (structural preconditions are decided under C12/C09/C07).',
 'C03': 'Detection-time bound (2n+1)*probe_period + suspect_to_down_after over all crash points is a real-time liveness claim about composed instances; not decidable from code shape (mechanism clauses decided under C12-R5, C11-R4, C10-R4).',
 'C04': 'For-all-fault-points convergence claim over schedules (single lost datagram never leads to Down; all Alive again within a bound); only its mechanism clauses are static and they are decided under C11/C10.',
 'C05': 'Partition healing within a bounded number of announce-to-down periods for all split shapes is a multi-instance temporal property (rejoin-or-defunct and Announce-by-address are decided under C10-R4, C17-R3).',
}

PENDING = {}


# Added after seed rounds 7-8: each "X only under G" rule also has its converse (DESIGN.md, Changes, "Converse directions").
TECH_BOTH_WAYS = {
    'C01': '; the table is extracted from change_state with can_change inlined; must-pass-through rules in both directions '
           '(every update reaches the table unfiltered, every payload of an active sender reaches apply_many); epoch-sensitive '
           'data-flow rules (the decoded member list is handed over entry by entry, the dispatch reads the identity current at that moment)',
    'C06': '; scratch/ownership discipline of the send buffer (cleared before use, put back on every exit) and of the '
           'helper-selection buffer as sub-conditions of the assertions they discharge',
    'C07': '; the datagram buffer starts empty on every path; serialize_member encodes one member into a fresh Vec',
    'C08': '; exact (zero-split) transition table; payload-order preservation of Notification::to_owned; leave_cluster '
           'always ends Defunct; the TurnUndead reaction is not vetoed by the rest of the datagram',
    'C09': '; payload consumers only after (never before) the sender check; every item of a batch is handed over',
    'C10': '; converse must-pass-through: every own-identity update and every TurnUndead path reaches handle_self_update; '
           'the batch dispatch compares with the identity read after the last &mut-self call (no snapshot across a renewal)',
    'C11': '; converse of the epoch guard: a current-epoch timeout always attempts the update',
    'C12': '; relay table in both directions (only-if and always), justified-refusal rule for evidence, '
           'round-starts-iff-target rule',
    'C13': '; the bump/leave pairing is a path-level rule that follows private functions split off the leaving function; '
           'a current probe tick always probes',
    'C15': '; enqueue/consume guards in both directions (queued iff applied and do_broadcast; the piggyback section is '
           'omitted only for the stated reasons)',
    'C16': '; accepted-implies-queued; the attachment gate in both directions',
    'C17': '; the epoch-bump rule of C13 is re-run so that "stale" means "of an earlier epoch"',
    'C18': '; sender-recorded-before-reaction rule; conflict-direction rule re-run; fan-out rule for triggered rounds '
           '(targets chosen into a cleared or fresh buffer, so at most the configured number of sends)',
    'C20': '; the bounded flavor refuses only what does not fit',
}


def main():
    checks = []
    claimed = {k: v for k, v in CLAIMED.items() if os.path.exists(os.path.join(VERIF, 'rules', k.lower() + '.py'))}
    pending = {k: 'rule module under construction (see DESIGN.md section 4); not claimed until its check exists'
               for k in CLAIMED if k not in claimed}
    for pid, (tech, text, note, ref) in sorted(claimed.items()):
        checks.append({
            'property_id': pid,
            'quick_cmd': './check %s --tier quick' % pid,
            'thorough_cmd': './check %s --tier thorough' % pid,
            'evidence_file': '/verif/evidence/%s.json' % pid,
            'replay_cmd_template': 'cat {path}',
            'engine': 'mirfacts+rules',
            'level_claimed': {'category': 'other', 'text': text, 'design_ref': 'DESIGN.md section ' + ref},
            'level_note': note,
            'technique': 'static analysis: ' + tech + TECH_BOTH_WAYS.get(pid, ''),
        })
    na = [{'property_id': k, 'reason': v} for k, v in sorted({**NOT_APPLICABLE, **pending}.items())]
    m = {
        'version': 1,
        'setup_cmd': './setup.sh',
        'hooks': {
            'guard': 'none (the analysis reads the type-checked program through a rustc wrapper; no hook is compiled into caio/foca)',
            'enable': 'not needed: checks run `cargo +nightly check` on /repo with RUSTC_WORKSPACE_WRAPPER=engine/mirfacts',
            'baseline_off_cmd': 'cd /repo && cargo test --workspace --no-fail-fast --offline',
            'source_commits': [],
            'add_only': True,
        },
        'engines': [
            {'name': 'mirfacts', 'path': 'engine/mirfacts', 'serves_properties': sorted(claimed),
             'kind_free_text': 'rustc_private driver exporting MIR (resolved callees, places with field names, constants, promoted bodies, spans) of the real cargo build as JSON'},
            {'name': 'rules', 'path': 'rules', 'serves_properties': sorted(claimed),
             'kind_free_text': 'Python rule library: CFG/dominators, symbolic path enumeration (decision tables, guards, value provenance), who-may-write/call, effect rules; one module per property'},
        ],
        'checks': checks,
        'not_applicable': na,
        'notes': 'Technique family: static analysis only. Repairs of six genuine defects are unguarded fix: commits in /repo (see known_findings.txt).',
    }
    json.dump(m, open(os.path.join(VERIF, 'MANIFEST.json'), 'w'), indent=1)
    print('MANIFEST.json: %d checks, %d not applicable' % (len(checks), len(na)))


if __name__ == '__main__':
    main()

// mirfacts: a rustc_private driver that serialises the type-checked program
// (MIR after borrow-check/drop elaboration, before optimisation, with resolved
// callees) of the crate named in MIRFACTS_CRATE (default "foca") to JSON.
//
// It is injected with RUSTC_WORKSPACE_WRAPPER under `cargo +nightly check`, so
// what is analysed is exactly what cargo builds (features, cfgs, dependency
// versions). Other crates are passed through untouched.
//
// Zero dependencies on purpose: everything is written with format!.
#![feature(rustc_private)]
extern crate rustc_abi;
extern crate rustc_driver;
extern crate rustc_hir;
extern crate rustc_interface;
extern crate rustc_lint;
extern crate rustc_middle;
extern crate rustc_session;
extern crate rustc_span;

use rustc_driver::{Callbacks, Compilation};
use rustc_hir::def::DefKind;
use rustc_middle::mir::{
    self, AggregateKind, Body, Operand, Place, PlaceElem, Rvalue, StatementKind, TerminatorKind,
};
use rustc_middle::ty::{self, Instance, TyCtxt, TypingEnv};
use rustc_span::def_id::{DefId, LOCAL_CRATE};
use std::fmt::Write;

fn esc(s: &str) -> String {
    let mut o = String::with_capacity(s.len() + 2);
    for c in s.chars() {
        match c {
            '"' => o.push_str("\\\""),
            '\\' => o.push_str("\\\\"),
            '\n' => o.push_str("\\n"),
            '\t' => o.push_str("\\t"),
            c if (c as u32) < 0x20 => {
                let _ = write!(o, "\\u{:04x}", c as u32);
            }
            c => o.push(c),
        }
    }
    o
}

fn span_json(tcx: TyCtxt<'_>, sp: rustc_span::Span) -> String {
    let sm = tcx.sess.source_map();
    // Outermost call site: where in the crate's own source this came from.
    let root = sp.source_callsite();
    let mac = sp
        .macro_backtrace()
        .last()
        .map(|e| e.kind.descr())
        .unwrap_or_default();
    // innermost macro too (e.g. `debug_assert_eq` is outermost, `assert_eq` inner)
    let mac_inner = sp
        .macro_backtrace()
        .next()
        .map(|e| e.kind.descr())
        .unwrap_or_default();
    format!(
        "{{\"at\":\"{}\",\"exp\":{},\"mac\":\"{}\",\"mac_inner\":\"{}\"}}",
        esc(&sm.span_to_diagnostic_string(root)),
        sp.from_expansion(),
        esc(&mac),
        esc(&mac_inner)
    )
}

fn place_json<'tcx>(tcx: TyCtxt<'tcx>, body: &Body<'tcx>, p: &Place<'tcx>) -> String {
    let mut s = format!("{{\"local\":{},\"proj\":[", p.local.as_usize());
    let mut ty = mir::PlaceTy::from_ty(body.local_decls[p.local].ty);
    let mut first = true;
    for elem in p.projection.iter() {
        if !first {
            s.push(',');
        }
        first = false;
        match elem {
            PlaceElem::Deref => s.push_str("{\"k\":\"deref\"}"),
            PlaceElem::Field(f, fty) => {
                let mut name = format!("{}", f.as_usize());
                let mut owner = String::new();
                let mut variant = String::new();
                if let ty::Adt(adt, _) = ty.ty.kind() {
                    let v = match ty.variant_index {
                        Some(vi) => adt.variant(vi),
                        None => adt.non_enum_variant(),
                    };
                    name = v.fields[f].name.to_string();
                    owner = tcx.def_path_str(adt.did());
                    if adt.is_enum() {
                        variant = v.name.to_string();
                    }
                }
                let _ = write!(
                    s,
                    "{{\"k\":\"field\",\"i\":{},\"name\":\"{}\",\"owner\":\"{}\",\"variant\":\"{}\",\"ty\":\"{}\"}}",
                    f.as_usize(),
                    esc(&name),
                    esc(&owner),
                    esc(&variant),
                    esc(&fty.to_string())
                );
            }
            PlaceElem::Downcast(sym, vi) => {
                let mut owner = String::new();
                let mut vname = sym.map(|x| x.to_string()).unwrap_or_default();
                if let ty::Adt(adt, _) = ty.ty.kind() {
                    owner = tcx.def_path_str(adt.did());
                    vname = adt.variant(vi).name.to_string();
                }
                let _ = write!(
                    s,
                    "{{\"k\":\"downcast\",\"variant\":\"{}\",\"vi\":{},\"owner\":\"{}\"}}",
                    esc(&vname),
                    vi.as_usize(),
                    esc(&owner)
                );
            }
            PlaceElem::Index(l) => {
                let _ = write!(s, "{{\"k\":\"index\",\"local\":{}}}", l.as_usize());
            }
            PlaceElem::ConstantIndex {
                offset,
                min_length,
                from_end,
            } => {
                let _ = write!(
                    s,
                    "{{\"k\":\"constindex\",\"offset\":{},\"min_length\":{},\"from_end\":{}}}",
                    offset, min_length, from_end
                );
            }
            PlaceElem::Subslice { from, to, from_end } => {
                let _ = write!(
                    s,
                    "{{\"k\":\"subslice\",\"from\":{},\"to\":{},\"from_end\":{}}}",
                    from, to, from_end
                );
            }
            other => {
                let _ = write!(
                    s,
                    "{{\"k\":\"other\",\"d\":\"{}\"}}",
                    esc(&format!("{:?}", other))
                );
            }
        }
        ty = ty.projection_ty(tcx, elem);
    }
    let _ = write!(s, "],\"ty\":\"{}\"}}", esc(&ty.ty.to_string()));
    s
}

fn operand_json<'tcx>(tcx: TyCtxt<'tcx>, body: &Body<'tcx>, def: DefId, op: &Operand<'tcx>) -> String {
    match op {
        Operand::Copy(p) => format!("{{\"k\":\"copy\",\"place\":{}}}", place_json(tcx, body, p)),
        Operand::Move(p) => format!("{{\"k\":\"move\",\"place\":{}}}", place_json(tcx, body, p)),
        Operand::Constant(c) => {
            let env = TypingEnv::post_analysis(tcx, def);
            let ty = c.const_.ty();
            let val = c
                .const_
                .try_eval_scalar_int(tcx, env)
                .map(|s| format!("{}", s.to_bits_unchecked()));
            let mut fnname = String::new();
            let mut fnres = String::new();
            if let ty::FnDef(d, ga) = ty.kind() {
                fnname = tcx.def_path_str(*d);
                fnres = Instance::try_resolve(tcx, env, *d, ga)
                    .ok()
                    .flatten()
                    .map(|i| tcx.def_path_str(i.def_id()))
                    .unwrap_or_default();
            }
            let adt = if let ty::Adt(a, _) = ty.kind() {
                tcx.def_path_str(a.did())
            } else {
                String::new()
            };
            let promoted = match c.const_ {
                mir::Const::Unevaluated(uv, _) => uv.promoted.map(|p| p.as_usize() as i64).unwrap_or(-1),
                _ => -1,
            };
            format!(
                "{{\"k\":\"const\",\"promoted\":{},\"ty\":\"{}\",\"adt\":\"{}\",\"val\":{},\"fn\":\"{}\",\"fnres\":\"{}\",\"txt\":\"{}\"}}",
                promoted,
                esc(&ty.to_string()),
                esc(&adt),
                val.map(|v| format!("\"{}\"", v)).unwrap_or("null".into()),
                esc(&fnname),
                esc(&fnres),
                esc(&format!("{}", c.const_))
            )
        }
        #[allow(unreachable_patterns)]
        other => format!("{{\"k\":\"other\",\"d\":\"{}\"}}", esc(&format!("{:?}", other))),
    }
}

fn rvalue_json<'tcx>(tcx: TyCtxt<'tcx>, body: &Body<'tcx>, def: DefId, rv: &Rvalue<'tcx>) -> String {
    let o = |op: &Operand<'tcx>| operand_json(tcx, body, def, op);
    match rv {
        Rvalue::Use(op, _) => format!("{{\"k\":\"use\",\"op\":{}}}", o(op)),
        Rvalue::Ref(_, bk, p) => format!(
            "{{\"k\":\"ref\",\"mut\":{},\"place\":{}}}",
            matches!(bk, mir::BorrowKind::Mut { .. }),
            place_json(tcx, body, p)
        ),
        Rvalue::RawPtr(_, p) => format!("{{\"k\":\"rawptr\",\"place\":{}}}", place_json(tcx, body, p)),
        Rvalue::BinaryOp(b, ops) => format!(
            "{{\"k\":\"binop\",\"op\":\"{:?}\",\"a\":{},\"b\":{}}}",
            b,
            o(&ops.0),
            o(&ops.1)
        ),
        Rvalue::UnaryOp(u, a) => format!("{{\"k\":\"unop\",\"op\":\"{:?}\",\"a\":{}}}", u, o(a)),
        Rvalue::Discriminant(p) => format!("{{\"k\":\"discr\",\"place\":{}}}", place_json(tcx, body, p)),
        Rvalue::Cast(ck, a, t) => format!(
            "{{\"k\":\"cast\",\"kind\":\"{}\",\"a\":{},\"ty\":\"{}\"}}",
            esc(&format!("{:?}", ck)),
            o(a),
            esc(&t.to_string())
        ),
        Rvalue::Aggregate(kind, ops) => {
            let (what, name, variant, vi) = match &**kind {
                AggregateKind::Adt(did, vi, _, _, _) => {
                    let adt = tcx.adt_def(*did);
                    (
                        "adt",
                        tcx.def_path_str(*did),
                        adt.variant(*vi).name.to_string(),
                        vi.as_usize() as i64,
                    )
                }
                AggregateKind::Tuple => ("tuple", String::new(), String::new(), -1),
                AggregateKind::Closure(did, _) => ("closure", tcx.def_path_str(*did), String::new(), -1),
                AggregateKind::Array(_) => ("array", String::new(), String::new(), -1),
                _ => ("other", String::new(), String::new(), -1),
            };
            // field names of the aggregate, in operand order
            let fields: Vec<String> = match &**kind {
                AggregateKind::Adt(did, vi, _, _, _) => tcx
                    .adt_def(*did)
                    .variant(*vi)
                    .fields
                    .iter()
                    .map(|f| format!("\"{}\"", esc(f.name.as_str())))
                    .collect(),
                _ => Vec::new(),
            };
            let ops: Vec<String> = ops.iter().map(|x| o(x)).collect();
            format!(
                "{{\"k\":\"aggregate\",\"what\":\"{}\",\"name\":\"{}\",\"variant\":\"{}\",\"vi\":{},\"fields\":[{}],\"ops\":[{}]}}",
                what,
                esc(&name),
                esc(&variant),
                vi,
                fields.join(","),
                ops.join(",")
            )
        }
        other => format!("{{\"k\":\"other\",\"d\":\"{}\"}}", esc(&format!("{:?}", other))),
    }
}

fn adts_json(tcx: TyCtxt<'_>) -> String {
    let mut out = String::from("[");
    let mut first = true;
    for ldid in tcx.hir_crate_items(()).definitions() {
        let did = ldid.to_def_id();
        let kind = tcx.def_kind(did);
        if !matches!(kind, DefKind::Struct | DefKind::Enum) {
            continue;
        }
        let adt = tcx.adt_def(did);
        if !first {
            out.push(',');
        }
        first = false;
        let _ = write!(
            out,
            "\n{{\"name\":\"{}\",\"kind\":\"{:?}\",\"vis\":\"{:?}\",\"variants\":[",
            esc(&tcx.def_path_str(did)),
            kind,
            tcx.visibility(did)
        );
        for (i, (vi, v)) in adt.variants().iter_enumerated().enumerate() {
            if i > 0 {
                out.push(',');
            }
            let discr = if adt.is_enum() {
                format!("{}", adt.discriminant_for_variant(tcx, vi).val)
            } else {
                "0".into()
            };
            let _ = write!(
                out,
                "{{\"name\":\"{}\",\"vi\":{},\"discr\":\"{}\",\"fields\":[",
                esc(v.name.as_str()),
                vi.as_usize(),
                discr
            );
            for (j, f) in v.fields.iter().enumerate() {
                if j > 0 {
                    out.push(',');
                }
                let fty = tcx.type_of(f.did).instantiate_identity().skip_norm_wip();
                let _ = write!(
                    out,
                    "{{\"name\":\"{}\",\"vis\":\"{:?}\",\"ty\":\"{}\"}}",
                    esc(f.name.as_str()),
                    f.vis,
                    esc(&fty.to_string())
                );
            }
            out.push_str("]}");
        }
        out.push_str("]}");
    }
    out.push_str("\n]");
    out
}


fn locals_json<'tcx>(body: &Body<'tcx>) -> String {
    let mut out = String::new();
    for (i, (_l, d)) in body.local_decls.iter_enumerated().enumerate() {
        if i > 0 {
            out.push(',');
        }
        let _ = write!(out, "\"{}\"", esc(&d.ty.to_string()));
    }
    out
}

fn blocks_json<'tcx>(tcx: TyCtxt<'tcx>, did: DefId, body: &Body<'tcx>) -> String {
    let mut out = String::new();
    for (bi, (_bb, data)) in body.basic_blocks.iter_enumerated().enumerate() {
        if bi > 0 {
            out.push(',');
        }
        let _ = write!(out, "\n{{\"cleanup\":{},\"stmts\":[", data.is_cleanup);
        let mut fs = true;
        for st in &data.statements {
            match &st.kind {
                StatementKind::Assign(b) => {
                    if !fs {
                        out.push(',');
                    }
                    fs = false;
                    let (p, rv) = &**b;
                    let _ = write!(
                        out,
                        "{{\"lhs\":{},\"rv\":{},\"span\":{}}}",
                        place_json(tcx, body, p),
                        rvalue_json(tcx, body, did, rv),
                        span_json(tcx, st.source_info.span)
                    );
                }
                StatementKind::SetDiscriminant { place, variant_index } => {
                    if !fs {
                        out.push(',');
                    }
                    fs = false;
                    let _ = write!(
                        out,
                        "{{\"setdiscr\":{},\"vi\":{},\"span\":{}}}",
                        place_json(tcx, body, place),
                        variant_index.as_usize(),
                        span_json(tcx, st.source_info.span)
                    );
                }
                StatementKind::StorageLive(_)
                | StatementKind::StorageDead(_)
                | StatementKind::Nop
                | StatementKind::FakeRead(..)
                | StatementKind::PlaceMention(..)
                | StatementKind::AscribeUserType(..)
                | StatementKind::Coverage(..)
                | StatementKind::ConstEvalCounter
                | StatementKind::BackwardIncompatibleDropHint { .. } => {}
                other => {
                    if !fs {
                        out.push(',');
                    }
                    fs = false;
                    let _ = write!(
                        out,
                        "{{\"otherstmt\":\"{}\",\"span\":{}}}",
                        esc(&format!("{:?}", other).chars().take(200).collect::<String>()),
                        span_json(tcx, st.source_info.span)
                    );
                }
            }
        }
        out.push_str("],\"term\":");
        let t = data.terminator();
        let span = span_json(tcx, t.source_info.span);
        let unwind_of = |u: &mir::UnwindAction| -> i64 {
            match u {
                mir::UnwindAction::Cleanup(b) => b.as_usize() as i64,
                _ => -1,
            }
        };
        match &t.kind {
            TerminatorKind::Call {
                func,
                args,
                destination,
                target,
                unwind,
                ..
            } => {
                let fty = func.ty(&body.local_decls, tcx);
                let (decl, res, gargs, selfty) = if let ty::FnDef(cd, ga) = fty.kind() {
                    let env = TypingEnv::post_analysis(tcx, did);
                    let r = Instance::try_resolve(tcx, env, *cd, ga)
                        .ok()
                        .flatten()
                        .map(|i| tcx.def_path_str(i.def_id()))
                        .unwrap_or_default();
                    // Self type for trait methods = first generic arg when callee is a trait item
                    let selfty = if tcx.trait_of_assoc(*cd).is_some() && ga.len() > 0 {
                        ga.types().next().map(|t| t.to_string()).unwrap_or_default()
                    } else {
                        String::new()
                    };
                    (tcx.def_path_str(*cd), r, format!("{:?}", ga), selfty)
                } else {
                    (String::new(), String::new(), format!("{:?}", fty), String::new())
                };
                let a: Vec<String> = args.iter().map(|x| operand_json(tcx, body, did, &x.node)).collect();
                let _ = write!(
                    out,
                    "{{\"k\":\"call\",\"decl\":\"{}\",\"res\":\"{}\",\"gargs\":\"{}\",\"selfty\":\"{}\",\"func\":{},\"args\":[{}],\"dest\":{},\"target\":{},\"unwind\":{},\"span\":{}}}",
                    esc(&decl),
                    esc(&res),
                    esc(&gargs),
                    esc(&selfty),
                    operand_json(tcx, body, did, func),
                    a.join(","),
                    place_json(tcx, body, destination),
                    target.map(|b| b.as_usize() as i64).unwrap_or(-1),
                    unwind_of(unwind),
                    span
                );
            }
            TerminatorKind::SwitchInt { discr, targets } => {
                let mut tg: Vec<String> = targets
                    .iter()
                    .map(|(v, b)| format!("[\"{}\",{}]", v, b.as_usize()))
                    .collect();
                tg.push(format!("[\"otherwise\",{}]", targets.otherwise().as_usize()));
                let dty = discr.ty(&body.local_decls, tcx);
                let _ = write!(
                    out,
                    "{{\"k\":\"switch\",\"discr\":{},\"dty\":\"{}\",\"targets\":[{}],\"span\":{}}}",
                    operand_json(tcx, body, did, discr),
                    esc(&dty.to_string()),
                    tg.join(","),
                    span
                );
            }
            TerminatorKind::Assert {
                cond,
                expected,
                msg,
                target,
                unwind,
            } => {
                let kindname = match &**msg {
                    mir::AssertKind::BoundsCheck { .. } => "BoundsCheck".to_string(),
                    mir::AssertKind::Overflow(op, ..) => format!("Overflow({:?})", op),
                    mir::AssertKind::OverflowNeg(..) => "OverflowNeg".to_string(),
                    mir::AssertKind::DivisionByZero(..) => "DivisionByZero".to_string(),
                    mir::AssertKind::RemainderByZero(..) => "RemainderByZero".to_string(),
                    other => format!("{:?}", other).chars().take(60).collect(),
                };
                let ops: Vec<String> = match &**msg {
                    mir::AssertKind::BoundsCheck { len, index } => {
                        vec![operand_json(tcx, body, did, len), operand_json(tcx, body, did, index)]
                    }
                    mir::AssertKind::Overflow(_, a, b) => {
                        vec![operand_json(tcx, body, did, a), operand_json(tcx, body, did, b)]
                    }
                    mir::AssertKind::OverflowNeg(a)
                    | mir::AssertKind::DivisionByZero(a)
                    | mir::AssertKind::RemainderByZero(a) => vec![operand_json(tcx, body, did, a)],
                    _ => vec![],
                };
                let _ = write!(
                    out,
                    "{{\"k\":\"assert\",\"cond\":{},\"expected\":{},\"kind\":\"{}\",\"ops\":[{}],\"target\":{},\"unwind\":{},\"span\":{}}}",
                    operand_json(tcx, body, did, cond),
                    expected,
                    esc(&kindname),
                    ops.join(","),
                    target.as_usize(),
                    unwind_of(unwind),
                    span
                );
            }
            TerminatorKind::Goto { target } => {
                let _ = write!(out, "{{\"k\":\"goto\",\"target\":{}}}", target.as_usize());
            }
            TerminatorKind::Drop {
                place, target, unwind, ..
            } => {
                let _ = write!(
                    out,
                    "{{\"k\":\"drop\",\"place\":{},\"target\":{},\"unwind\":{}}}",
                    place_json(tcx, body, place),
                    target.as_usize(),
                    unwind_of(unwind)
                );
            }
            TerminatorKind::Return => out.push_str("{\"k\":\"return\"}"),
            TerminatorKind::Unreachable => out.push_str("{\"k\":\"unreachable\"}"),
            TerminatorKind::UnwindResume => out.push_str("{\"k\":\"resume\"}"),
            TerminatorKind::UnwindTerminate(_) => out.push_str("{\"k\":\"terminate\"}"),
            other => {
                let _ = write!(
                    out,
                    "{{\"k\":\"other\",\"d\":\"{}\",\"span\":{}}}",
                    esc(&format!("{:?}", other).chars().take(120).collect::<String>()),
                    span
                );
            }
        }
        out.push('}');
    }
    out
}

struct Cb;
impl Callbacks for Cb {
    fn after_analysis<'tcx>(&mut self, _c: &rustc_interface::interface::Compiler, tcx: TyCtxt<'tcx>) -> Compilation {
        let want = std::env::var("MIRFACTS_CRATE").unwrap_or_else(|_| "foca".into());
        if tcx.crate_name(LOCAL_CRATE).as_str() != want {
            return Compilation::Continue;
        }
        let Ok(outpath) = std::env::var("MIRFACTS_OUT") else {
            return Compilation::Continue;
        };
        let nonce = std::env::var("MIRFACTS_NONCE").unwrap_or_default();
        // crate-level facts
        let unsafe_level = {
            let store = rustc_lint::unerased_lint_store(tcx.sess);
            match store.find_lints("unsafe_code") {
                Some(ids) if !ids.is_empty() => {
                    let l = tcx.lint_level_at_node(ids[0].lint, rustc_hir::CRATE_HIR_ID);
                    format!("{:?}", l.level)
                }
                _ => "unknown".to_string(),
            }
        };
        let mut cfgs: Vec<String> = tcx
            .sess
            .config
            .iter()
            .filter_map(|(k, v)| {
                if k.as_str() == "feature" {
                    v.map(|v| v.to_string())
                } else if k.as_str() == "debug_assertions" || k.as_str() == "test" {
                    Some(format!("cfg:{}", k))
                } else {
                    None
                }
            })
            .collect();
        cfgs.sort();
        let eff = tcx.effective_visibilities(());
        let mut out = String::new();
        let _ = write!(
            out,
            "{{\"crate\":\"{}\",\"nonce\":\"{}\",\"rustc\":\"{}\",\"unsafe_code_level\":\"{}\",\"features\":[{}],\n\"adts\":{},\n\"bodies\":[\n",
            esc(&want),
            esc(&nonce),
            esc(&tcx.sess.cfg_version.to_string()),
            esc(&unsafe_level),
            cfgs.iter().map(|c| format!("\"{}\"", esc(c))).collect::<Vec<_>>().join(","),
            adts_json(tcx)
        );
        let mut firstb = true;
        for ldid in tcx.mir_keys(()) {
            let did = ldid.to_def_id();
            let kind = tcx.def_kind(did);
            if !matches!(kind, DefKind::Fn | DefKind::AssocFn | DefKind::Closure) {
                continue;
            }
            let body = tcx.optimized_mir(did);
            if !firstb {
                out.push_str(",\n");
            }
            firstb = false;
            let (vis, reachable) = if matches!(kind, DefKind::Fn | DefKind::AssocFn) {
                (format!("{:?}", tcx.visibility(did)), eff.is_reachable(*ldid))
            } else {
                (String::new(), false)
            };
            let parent = if matches!(kind, DefKind::Closure) {
                tcx.def_path_str(tcx.typeck_root_def_id(did))
            } else {
                String::new()
            };
            let is_const = matches!(kind, DefKind::Fn | DefKind::AssocFn) && tcx.is_const_fn(did);
            let _ = write!(
                out,
                "{{\"name\":\"{}\",\"kind\":\"{:?}\",\"vis\":\"{}\",\"reachable\":{},\"const\":{},\"parent\":\"{}\",\"argc\":{},\"span\":{},\"locals\":[",
                esc(&tcx.def_path_str(did)),
                kind,
                esc(&vis),
                reachable,
                is_const,
                esc(&parent),
                body.arg_count,
                span_json(tcx, body.span)
            );
            for (i, (_l, d)) in body.local_decls.iter_enumerated().enumerate() {
                if i > 0 {
                    out.push(',');
                }
                let _ = write!(out, "\"{}\"", esc(&d.ty.to_string()));
            }
            out.push_str("],\"debug\":[");
            for (i, v) in body.var_debug_info.iter().enumerate() {
                if i > 0 {
                    out.push(',');
                }
                let val = match &v.value {
                    mir::VarDebugInfoContents::Place(p) => place_json(tcx, body, p),
                    _ => "null".into(),
                };
                let _ = write!(
                    out,
                    "{{\"name\":\"{}\",\"place\":{},\"arg\":{}}}",
                    esc(v.name.as_str()),
                    val,
                    v.argument_index.map(|x| x as i64).unwrap_or(-1)
                );
            }
            out.push_str("],\"blocks\":[");
            out.push_str(&blocks_json(tcx, did, body));
            out.push_str("],\"promoted\":[");
            for (pi, pb) in tcx.promoted_mir(did).iter().enumerate() {
                if pi > 0 {
                    out.push(',');
                }
                let _ = write!(
                    out,
                    "\n{{\"locals\":[{}],\"blocks\":[{}]}}",
                    locals_json(pb),
                    blocks_json(tcx, did, pb)
                );
            }
            out.push_str("]}");
        }
        out.push_str("\n]}\n");
        std::fs::write(outpath, out).expect("mirfacts: cannot write MIRFACTS_OUT");
        Compilation::Continue
    }
}

fn main() {
    let mut args: Vec<String> = std::env::args().collect();
    // RUSTC_WORKSPACE_WRAPPER passes the real rustc path as argv[1]
    args.remove(1);
    rustc_driver::run_compiler(&args, &mut Cb);
}
